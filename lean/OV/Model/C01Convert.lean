import OV.Model.C01Graph
/-
  OV.Model.C01Convert — C01/C02: `Converter` of onnxscript/_internal/converter.py, the
  statement translation, transcribed.

  Core Lean only.  What is restated (function of converter.py → definition here):

  * `_generate_unique_name`           → `genUnique` (`used`, `next`; the `while` gets the fuel
                                          `used.length + 1`, which always suffices: Props/C02)
  * `_emit_const`, `_emit_copy`       → `emitConst`, `emitCopy`
  * `_to_onnx_var` (attribute → Constant(+Cast to bool)), `_py_var_to_onnx_var` → `toOnnxVar`, `pyVar`
  * `autocast.static_cast_inputs` / `cast_inputs` (two passes, last binding wins) → `castInputs`
  * `_translate_expr` and its cases    → `convExpr`
  * `_translate_assign_stmt`           → `.assign/.par/.tuple/.badAssign` cases of `convStmt`
  * `_translate_if_stmt`, `_translate_block` → `.ite` case, `blockOutputs`
  * `_translate_loop_stmt`             → `.for_`/`.while_` cases, `loopBody`
  * `_translate_return_stmt`           → `convRet`
  * `_translate_function_signature_common`, `translate_function_def` → `convert`

  Set-valued choices (`live_defs`, `loop_state_vars`) are taken in sorted order, as the code
  does since the `sorted(...)` fix.  The model follows /repo including the fixes 4304e8f (liveness),
  87ad64d (parallel assignment), 3b56caa (returned input), cbb81e7 (duplicate subgraph outputs).  Nested function definitions (`@graph()`) are not in the
  model.
-/
namespace OV.C01

inductive Err
  /-- `converter.TranslationError` (`fail`, `_fail`) -/
  | translation
  /-- `ValueError` (unbound name, unsupported statement / expression, `return` in control flow) -/
  | value
  /-- `SyntaxError` (`check_num_outputs`) -/
  | syntax
  /-- `TypeError` -/
  | type
  /-- `AttributeError`: a crash of the converter itself (was C01-D37, `A[:]`, before 35a0ff1; no longer produced) -/
  | attribute
  /-- `IndexError`: a crash of the converter itself (was C01-D38 before fc696f7; no longer produced) -/
  | index
  /-- the model's own fuel for `_generate_unique_name` ran out (impossible: `genUnique_total`) -/
  | fuel
deriving DecidableEq, Repr, Inhabited

/-- `Converter._used_vars`, `_nextvar`, `_castable`. -/
structure St where
  used : List Name
  next : Nat
  castable : List Name
deriving Repr, Inhabited

def M (α : Type) := St → Except Err (α × St)

@[inline] def M.pure {α} (a : α) : M α := fun s => .ok (a, s)
@[inline] def M.bind {α β} (m : M α) (f : α → M β) : M β := fun s =>
  match m s with
  | .ok (a, s') => f a s'
  | .error e => .error e

instance : Monad M where
  pure := M.pure
  bind := M.bind

def failM {α} (e : Err) : M α := fun _ => .error e

/-! ## Names -/

/-- The `while r in used` loop after the first test failed: try `cand_k`, `cand_{k+1}`, … -/
def genLoop (used : List Name) (cand : Name) : Nat → Nat → Option (Name × Nat)
  | 0, _ => none
  | fuel + 1, k =>
    let r := cand ++ "_" ++ toString k
    if used.contains r then genLoop used cand fuel (k + 1) else some (r, k + 1)

/-- `_generate_unique_name(candidate)`. -/
def genUnique (cand : Name) : M Name := fun s =>
  if s.used.contains cand then
    match genLoop s.used cand (s.used.length + 1) s.next with
    | some (r, k) => .ok (r, { s with used := r :: s.used, next := k })
    | none => .error .fuel
  else .ok (cand, { s with used := cand :: s.used })

def genUniques : List Name → M (List Name)
  | [] => pure []
  | c :: cs => do
    let r ← genUnique c
    let rs ← genUniques cs
    pure (r :: rs)

def markCastable (n : Name) : M Unit := fun s => .ok ((), { s with castable := n :: s.castable })
def isCastable (n : Name) : M Bool := fun s => .ok (s.castable.contains n, s)

/-! ## Scopes -/

/-- What a Python name is bound to at script time. -/
inductive Bind
  /-- `SymbolValue(ir.Value)` -/
  | val (n : Name)
  /-- `AttrRef(attr, as_bool)` -/
  | attr (p : Name) (ty : AttrTy)
deriving DecidableEq, Repr, Inhabited

abbrev Frame := List (Name × Bind)
/-- `Converter._locals`, innermost scope first. -/
abbrev Locals := List Frame

def Frame.find (f : Frame) (x : Name) : Option Bind :=
  match f with
  | [] => none
  | (y, b) :: rest => if y = x then some b else Frame.find rest x

/-- `_lookup` restricted to local scopes (globals hold no tensor values in the modelled subset). -/
def lookup : Locals → Name → Option Bind
  | [], _ => none
  | f :: fs, x =>
    match f.find x with
    | some b => some b
    | none => lookup fs x

/-- `_bind`: into the innermost scope. -/
def bindVar (L : Locals) (x : Name) (b : Bind) : Locals :=
  match L with
  | [] => [[(x, b)]]
  | f :: fs => ((x, b) :: f) :: fs

def bindVals (L : Locals) : List Name → List Name → Locals
  | x :: xs, n :: ns => bindVals (bindVar L x (.val n)) xs ns
  | _, _ => L

/-- `self._current_scope()` lookup. -/
def currentScopeFind (L : Locals) (x : Name) : Option Bind :=
  match L with
  | [] => none
  | f :: _ => f.find x

/-! ## Emission helpers -/

def litDefaultName : Lit → Name
  | .int v => if v ≥ 0 then "int64_" ++ toString v else "int64_m" ++ toString v.natAbs
  | .bool b => if b then "int64_True" else "int64_False"   -- `isinstance(True, int)`
  | .ints [v] => if v ≥ 0 then "int64_" ++ toString v ++ "_1d" else "int64_m" ++ toString v.natAbs ++ "_1d"
  | _ => "const"

/-- Canonical text of the tensor `ir.tensor(pyvalue)` builds (dtype by `_get_dtype`-like rules
of onnx_ir: int → INT64, float → FLOAT, bool → BOOL). -/
def litPayload : Lit → String
  | .int v => "i:" ++ toString v
  | .flt neg mag => "f:" ++ (if neg then "-" else "") ++ mag
  | .bool b => if b then "b:1" else "b:0"
  | .ints vs => "is:" ++ ",".intercalate (vs.map toString)

/-- `_emit_const(pyvalue, suggested_name, info)`. -/
def emitConst (l : Lit) (suggested : Option Name) : M (Name × List Node) := do
  let n ← genUnique (suggested.getD (litDefaultName l))
  markCastable n
  pure (n, [.op "" "Constant" [] [n] [("value", .const (litPayload l))]])

/-- `_emit_copy(original, suggested_name)`. -/
def emitCopy (orig : Name) (suggested : Name) : M (Name × List Node) := do
  let n ← genUnique suggested
  pure (n, [.op "" "Identity" [some orig] [n] []])

def attrValueName : AttrTy → Option String
  | .float => some "value_float"
  | .int => some "value_int"
  | .bool => some "value_int"
  | .string => some "value_string"
  | .ints => some "value_ints"
  | .unsupported => none

/-- `_to_onnx_var(val, target)` for the two kinds of local bindings. -/
def toOnnxVar (b : Bind) (target : Name) : M (Name × List Node) :=
  match b with
  | .val n => pure (n, [])
  | .attr p ty => do
    let r ← genUnique target
    match attrValueName ty with
    | none => failM .translation
    | some an =>
      let n1 : Node := .op "" "Constant" [] [r] [(an, .ref p)]
      if ty = .bool then do
        let rb ← genUnique (r ++ "_as_bool")
        markCastable rb
        pure (rb, [n1, .op "" "Cast" [some r] [rb] [("to", .const "i:9")]])
      else do
        markCastable r
        pure (r, [n1])

/-- `_py_var_to_onnx_var(py_var)`: `_lookup` (ValueError "Unbound name") then `_to_onnx_var`. -/
def pyVar (L : Locals) (x : Name) : M (Name × List Node) :=
  match lookup L x with
  | some b => toOnnxVar b x
  | none => failM .value

/-! ## autocast.static_cast_inputs -/

/-- Formal parameter for actual position `i`: `some (some tv)` typed by an identifier type
variable, `some none` no binding (`(` in the constraint, or non-homogeneous variadic),
`none` = too many actuals (ValueError). -/
def formalTv (sig : Sig) (i : Nat) : Option (Option String) :=
  if i < sig.tvs.length then some (sig.tvs.getD i none)
  else if sig.variadic then
    (if sig.homog then some (sig.tvs.getLast?.getD none) else some none)
  else none

/-- First pass: `type_bindings[typevar] = x` for every non-castable actual (later ones overwrite). -/
def castBindings (sig : Sig) (castable : List Name) :
    List Name → Nat → List (String × Name) → Option (List (String × Name))
  | [], _, acc => some acc
  | a :: as, i, acc =>
    match formalTv sig i with
    | none => none
    | some none => castBindings sig castable as (i + 1) acc
    | some (some tv) =>
      if castable.contains a then castBindings sig castable as (i + 1) acc
      else castBindings sig castable as (i + 1) ((tv, a) :: acc)

def findBinding (bs : List (String × Name)) (tv : String) : Option Name :=
  match bs with
  | [] => none
  | (t, n) :: rest => if t = tv then some n else findBinding rest tv

/-- The binding (if any) of the type variable of actual position `i`. -/
def castTarget (sig : Sig) (bs : List (String × Name)) (i : Nat) : Option Name :=
  match formalTv sig i with
  | some (some tv) => findBinding bs tv
  | _ => none

/-- `cast_like(x, y)`: a castable `x` with a target `y` becomes `CastLike(x, y)`. -/
def castOne (a : Name) (tgt : Option Name) : M (Name × List Node) := fun s =>
  match tgt with
  | none => .ok ((a, []), s)
  | some y =>
    if s.castable.contains a then
      match genUnique (a ++ "_cast") s with
      | .ok (xc, s') => .ok ((xc, [Node.op "" "CastLike" [some a, some y] [xc] []]), s')
      | .error e => .error e
    else .ok ((a, []), s)

/-- Second pass: a castable actual whose type variable is bound gets `CastLike(x, y)`. -/
def castArgs (sig : Sig) (bs : List (String × Name)) : List Name → Nat → M (List Name × List Node)
  | [], _ => pure ([], [])
  | a :: as, i => do
    let (x, n1) ← castOne a (castTarget sig bs i)
    let (rest, ns) ← castArgs sig bs as (i + 1)
    pure (x :: rest, n1 ++ ns)

/-- `static_cast_inputs(converter, op_signature, args)`. -/
def castInputs (sig : Sig) (args : List Name) : M (List Name × List Node) := fun s =>
  if !sig.known then .ok ((args, []), s)
  else
    match castBindings sig s.castable args 0 [] with
    | none => .error .value
    | some bs => castArgs sig bs args 0 s

/-- The signature of the arithmetic / comparison / logical operators reached through Python
operators: two inputs sharing one type variable (`Add(T,T)`, `Less(T,T)`, `And(T,T)`, …). -/
def binSig : Sig := { known := true, variadic := false, homog := false, tvs := [some "T", some "T"] }
/-- `Pow(T, T1)`. -/
def powSig : Sig := { known := true, variadic := false, homog := false, tvs := [some "T", some "T1"] }

/-- `primop_map`. -/
def primop : String → Option String
  | "Add" => some "Add" | "And" => some "And" | "BitAnd" => some "And" | "BitOr" => some "Or"
  | "Div" => some "Div" | "Eq" => some "Equal" | "Gt" => some "Greater"
  | "GtE" => some "GreaterOrEqual" | "Lt" => some "Less" | "LtE" => some "LessOrEqual"
  | "MatMult" => some "MatMul" | "Mod" => some "Mod" | "Mult" => some "Mul" | "Not" => some "Not"
  | "NotEq" => some "NotEqual" | "Or" => some "Or" | "Pow" => some "Pow" | "Sub" => some "Sub"
  | "USub" => some "Neg"
  | _ => none

def sigOfPrim (onnxOp : String) : Sig := if onnxOp = "Pow" then powSig else binSig

/-- Translation of the keyword arguments of a call (`_translate_attr`): a name must denote an
attribute parameter. -/
def convAttrs (L : Locals) : List (String × AttrV) → Except Err (List (String × AttrV))
  | [] => .ok []
  | (k, .const r) :: rest => do
    let rs ← convAttrs L rest
    .ok ((k, .const r) :: rs)
  | (k, .ref p) :: rest =>
    match lookup L p with
    | none => .error .value
    | some (.val _) => .error .translation
    | some (.attr q _) => do
      let rs ← convAttrs L rest
      .ok ((k, .ref q) :: rs)

def liftE {α} (e : Except Err α) : M α := fun s =>
  match e with
  | .ok a => .ok (a, s)
  | .error err => .error err

def negLit : Lit → Lit
  | .int v => .int (-v)
  | .flt n m => .flt (!n) m
  | .bool b => .int (if b then -1 else 0)
  | .ints vs => .ints vs

/-- `_is_constant_expr(node) and isinstance(eval(node), float)` for the right operand of `%`. -/
def isFloatConst : Expr → Bool
  | .lit (.flt _ _) => true
  | .unop "USub" (.lit (.flt _ _)) => true
  | _ => false

/-- `-<constant>`: `_translate_unary_op_expr` folds the sign into the constant (and drops the target). -/
def negatedLiteral (o : String) (a : Expr) : Option Lit :=
  if o = "USub" then (match a with | .lit l => some l | _ => none) else none

/-! ## Constant subscripts (`_translate_subscript_expr` when every index component is an integer constant) -/

/-- `cached_int_consts`: value ↦ the `Constant` holding `[value]`; lives for ONE subscript expression. -/
abbrev IntCache := List (Int × Name)

def cacheFind : IntCache → Int → Option Name
  | [], _ => none
  | (k, n) :: rest, v => if k = v then some n else cacheFind rest v

/-- `const_1d(value)`. -/
def const1d (c : IntCache) (v : Int) : M (Name × List Node × IntCache) :=
  match cacheFind c v with
  | some n => pure (n, [], c)
  | none => do
    let (n, ns) ← emitConst (.ints [v]) none
    pure (n, ns, (v, n) :: c)

def maxInt64 : Int := 9223372036854775807
def minInt64 : Int := -9223372036854775808

/-- `translate_slice(lo:up:st)`: the step first, then lower and upper with the defaults its sign selects.
Result: (lower, upper, step). -/
def convSlice (c : IntCache) (lo up st : Option Int) : M ((Name × Name × Name) × List Node × IntCache) := do
  let step := st.getD 1
  let (sn, ns1, c1) ← const1d c step
  let (ln, ns2, c2) ← const1d c1 (lo.getD (if step > 0 then 0 else maxInt64))
  let (un, ns3, c3) ← const1d c2 (up.getD (if step > 0 then maxInt64 else minInt64))
  pure ((ln, un, sn), ns1 ++ (ns2 ++ ns3), c3)

/-- A slice element of the index list with its axis. -/
abbrev SliceEl := Nat × Option Int × Option Int × Option Int

/-- The loop over `sliced_indices`: per element the axis constant, then `translate_slice`.
Result: (starts, ends, axes, steps). -/
def convSlices (c : IntCache) : List SliceEl →
    M ((List Name × List Name × List Name × List Name) × List Node × IntCache)
  | [] => pure (([], [], [], []), [], c)
  | (ax, lo, up, st) :: rest => do
    let (an, ns0, c0) ← const1d c (Int.ofNat ax)
    let ((l, u, sn), ns1, c1) ← convSlice c0 lo up st
    let ((ls, us, as, ss), ns2, c2) ← convSlices c1 rest
    pure ((l :: ls, u :: us, an :: as, sn :: ss), ns0 ++ (ns1 ++ ns2), c2)

/-- `sliced_indices`: the slices other than `:` with their axes. -/
def slicedOf : Nat → List Idx → List SliceEl
  | _, [] => []
  | ax, .scalar _ :: r => slicedOf (ax + 1) r
  | ax, .slice lo up st :: r =>
    if lo.isNone && up.isNone && st.isNone then slicedOf (ax + 1) r else (ax, lo, up, st) :: slicedOf (ax + 1) r

/-- `scalar_indices`: the integer indices with their axes. -/
def scalarsOf : Nat → List Idx → List (Nat × Int)
  | _, [] => []
  | ax, .scalar k :: r => (ax, k) :: scalarsOf (ax + 1) r
  | ax, .slice _ _ _ :: r => scalarsOf (ax + 1) r

/-- `starts[0]` when there is one slice element, else `Concat(starts, axis=0)` into a fresh `{var}_start`.
(The four lists have one length, so the four calls decide alike: `if len(starts) > 1`.) -/
def pickOrConcat (cand : Name) (xs : List Name) : M (Name × List Node) :=
  match xs with
  | [x] => pure (x, [])
  | _ => do
    let r ← genUnique cand
    pure (r, [.op "" "Concat" (xs.map some) [r] [("axis", .const "i:0")]])

/-- `_translate_subscript_expr` after the base has been translated to `var`.  The target name is generated
first, the node defining it is emitted last. -/
def convSubscript (var : Name) (tgt : Option Name) (idx : List Idx) : M (Name × List Node) := do
  let target ← genUnique (tgt.getD (var ++ "_subscripted"))
  let sl := slicedOf 0 idx
  let sc := scalarsOf 0 idx
  if !sl.isEmpty || decide (sc.length > 1) then do
    -- a scalar index `k` is treated as the slice `k:k+1:1` and its axis squeezed at the end
    -- (1c8f626) for `k = -1` the end `k+1 = 0` would select nothing: slice to the end instead
    let all := sl ++ sc.map (fun p => (p.1, some p.2, some (if p.2 = -1 then maxInt64 else p.2 + 1), some 1))
    let ((starts, ends, axes, steps), ns1, _) ← convSlices [] all
    let (s, n1) ← pickOrConcat (var ++ "_start") starts
    let (e, n2) ← pickOrConcat (var ++ "_end") ends
    let (a, n3) ← pickOrConcat (var ++ "_axis") axes
    let (t, n4) ← pickOrConcat (var ++ "_step") steps
    if sc.isEmpty then
      pure (target, ns1 ++ (n1 ++ (n2 ++ (n3 ++ (n4 ++
        [.op "" "Slice" [some var, some s, some e, some a, some t] [target] []])))))
    else do
      let sliced ← genUnique (var ++ "_sliced")
      let (sq, n5) ← emitConst (.ints (sc.map (fun p => Int.ofNat p.1))) (some "squeezed_axes")
      pure (target, ns1 ++ (n1 ++ (n2 ++ (n3 ++ (n4 ++
        (.op "" "Slice" [some var, some s, some e, some a, some t] [sliced] [] ::
          (n5 ++ [.op "" "Squeeze" [some sliced, some sq] [target] []])))))))
  else
    match sc with
    | [] => pure (target, [.op "" "Identity" [some var] [target] []])     -- `A[:]`, `A[:, :]` (since 35a0ff1)
    | (ax, k) :: _ => do                                                   -- one integer index: `Gather`
      let (iv, n1) ← emitConst (.int k) none
      pure (target, n1 ++ [.op "" "Gather" [some var, some iv] [target] [("axis", .const ("i:" ++ toString ax))]])

mutual
/-- `_translate_expr(node, target)`: nodes emitted (in order) and the value holding the result. -/
def convExpr (L : Locals) : Expr → Option Name → M (Name × List Node)
  | .var x, _ => pyVar L x
  | .lit l, tgt => emitConst l tgt
  | .call dom op sig args attrs, tgt => do
    let (as, ns1) ← convArgs L args
    let attrs' ← liftE (convAttrs L attrs)
    let (as', ns2) ← castInputs sig as
    let r ← genUnique (tgt.getD "tmp")
    pure (r, ns1 ++ (ns2 ++ [.op dom op (as'.map some) [r] attrs']))
  | .binop o a b, tgt =>
    match primop o with
    | none => failM .value
    | some oname => do
      let attrs : List (String × AttrV) :=
        if o = "Mod" && isFloatConst b then [("fmod", .const "i:1")] else []
      let (l, ns1) ← convExpr L a none
      let (r, ns2) ← convExpr L b none
      let (as', ns3) ← castInputs (sigOfPrim oname) [l, r]
      let res ← genUnique (tgt.getD "tmp")
      pure (res, ns1 ++ (ns2 ++ (ns3 ++ [.op "" oname (as'.map some) [res] attrs])))
  | .unop o a, tgt =>
    match primop o with
    | none => failM .value
    | some oname =>
      match negatedLiteral o a with
      | some l => emitConst (negLit l) none
      | none => do
        let (x, ns1) ← convExpr L a none
        let res ← genUnique (tgt.getD "tmp")
        pure (res, ns1 ++ [.op "" oname [some x] [res] []])
  | .cmp o a b, tgt =>
    match primop o with
    | none => failM .value
    | some oname => do
      let (l, ns1) ← convExpr L a none
      let (r, ns2) ← convExpr L b none
      let (as', ns3) ← castInputs binSig [l, r]
      if oname = "NotEqual" then do
        let tmp ← genUnique "tmp"
        let res ← genUnique (tgt.getD "tmp")
        pure (res, ns1 ++ (ns2 ++ (ns3 ++
          [.op "" "Equal" (as'.map some) [tmp] [], .op "" "Not" [some tmp] [res] []])))
      else do
        let res ← genUnique (tgt.getD "tmp")
        pure (res, ns1 ++ (ns2 ++ (ns3 ++ [.op "" oname (as'.map some) [res] []])))
  | .subscript base idx, tgt => do
    let (v, ns1) ← convExpr L base none
    let (r, ns2) ← convSubscript v tgt idx
    pure (r, ns1 ++ ns2)
  | .other _, _ => failM .value
def convArgs (L : Locals) : List Expr → M (List Name × List Node)
  | [] => pure ([], [])
  | e :: es => do
    let (x, ns1) ← convExpr L e none
    let (xs, ns2) ← convArgs L es
    pure (x :: xs, ns1 ++ ns2)
end

/-! ## Statements -/

/-- The output loop of `_translate_block`: for every live definition either the value bound in
the branch's own scope (copied when it was not assigned by a node of this graph, or when it is
already listed as an output of this graph) or a copy of the outer value; a name bound nowhere is
refused.  `outsSoFar` = `self._current_fn.outputs`. -/
def blockOutputs (L : Locals) : List Name → List Node → List Name → M (List Name × List Node)
  | [], _, _ => pure ([], [])
  | pv :: rest, nodesSoFar, outsSoFar =>
    match currentScopeFind L pv with
    | some b => do
      let (o, ns1) ← toOnnxVar b pv
      if (topDefs (nodesSoFar ++ ns1)).contains o && !outsSoFar.contains o then do
        let (os, ns2) ← blockOutputs L rest (nodesSoFar ++ ns1) (outsSoFar ++ [o])
        pure (o :: os, ns1 ++ ns2)
      else do
        let (o', nc) ← emitCopy o pv
        let (os, ns2) ← blockOutputs L rest (nodesSoFar ++ (ns1 ++ nc)) (outsSoFar ++ [o'])
        pure (o' :: os, ns1 ++ (nc ++ ns2))
    | none =>
      match lookup L pv with
      | none => failM .translation
      | some b => do
        let (o, ns1) ← toOnnxVar b pv
        let (o', nc) ← emitCopy o pv
        let (os, ns2) ← blockOutputs L rest (nodesSoFar ++ (ns1 ++ nc)) (outsSoFar ++ [o'])
        pure (o' :: os, ns1 ++ (nc ++ ns2))

/-- The state-variable output loop at the end of a loop body (`outsSoFar` starts as `[cond_out]`). -/
def loopOutputs (L : Locals) : List Name → List Node → List Name → M (List Name × List Node)
  | [], _, _ => pure ([], [])
  | pv :: rest, nodesSoFar, outsSoFar => do
    let (o, ns1) ← pyVar L pv
    if (topDefs (nodesSoFar ++ ns1)).contains o && !outsSoFar.contains o then do
      let (os, ns2) ← loopOutputs L rest (nodesSoFar ++ ns1) (outsSoFar ++ [o])
      pure (o :: os, ns1 ++ ns2)
    else do
      let (o', nc) ← emitCopy o pv
      let (os, ns2) ← loopOutputs L rest (nodesSoFar ++ (ns1 ++ nc)) (outsSoFar ++ [o'])
      pure (o' :: os, ns1 ++ (nc ++ ns2))

/-- `[self._py_var_to_onnx_var(pv) for pv in loop_state_vars]` in the enclosing scope. -/
def loopInits (L : Locals) : List Name → M (List Name × List Node)
  | [] => pure ([], [])
  | pv :: rest => do
    let (o, ns1) ← pyVar L pv
    let (os, ns2) ← loopInits L rest
    pure (o :: os, ns1 ++ ns2)

/-- Bind the loop-carried Python variables to fresh body parameters. -/
def loopParams (L : Locals) : List Name → M (Locals × List Name)
  | [] => pure (L, [])
  | pv :: rest => do
    let p ← genUnique pv
    let (L', ps) ← loopParams (bindVar L pv (.val p)) rest
    pure (L', p :: ps)

/-- Right-hand sides of `x, y = e1, e2`, each translated with its target as preferred name, all in the
scope *before* the assignment (`translated = [self._translate_expr(r, p.id) for p, r in zip(...)]`). -/
def convParExprs (L : Locals) : List Name → List Expr → M (List Name × List Node)
  | x :: xs, e :: es => do
    let (t, ns1) ← convExpr L e (some x)
    let (ts, ns2) ← convParExprs L xs es
    pure (t :: ts, ns1 ++ ns2)
  | _, _ => pure ([], [])

/-- `x, y = e1, e2`: all right-hand sides are translated first, then the targets are bound. -/
def convPar (L : Locals) (xs : List Name) (es : List Expr) : M (Locals × List Node) := do
  let (ts, ns) ← convParExprs L xs es
  pure (bindVals L xs ts, ns)

/-- `loop_state_vars = sorted(vars_def_in_loop ∩ (exposed_uses ∪ live_out))`. -/
def loopState (body : List Stmt) (lo : VSet) : Option VSet :=
  match assignedBlock body with
  | none => none
  | some defs => some (vinter defs (vunion (exposedUses body) lo))

/-- Entering the loop body scope: fresh iteration variable, fresh parameters for the state. -/
def loopScope (L : Locals) (pyLoopVar : Name) (bindIt : Bool) (iv : Name) : Locals :=
  if bindIt then bindVar ([] :: L) pyLoopVar (.val iv) else [] :: L

def loopEnter (L : Locals) (pyLoopVar : Name) (bindIt : Bool) (state : List Name) :
    M (Locals × Name × List Name) := do
  let iv ← genUnique pyLoopVar
  let (L1, ps) ← loopParams (loopScope L pyLoopVar bindIt iv) state
  pure (L1, iv, ps)

/-- The value the loop condition is read from at the end of the body: `cond_in` for a `for`
loop, the value the `while` variable is bound to *in the body's own scope* for a `while` loop
(`none`: "Unable to find condition variable"). -/
def loopCondName (L2 : Locals) (whileVar : Option Name) (condIn : Name) : Option Name :=
  match whileVar with
  | none => some condIn
  | some w =>
    match currentScopeFind L2 w with
    | some (.val n) => some n
    | _ => none

/-- `cond_out = Not(break condition)` when the body ends in `if b: break`, else `Identity(cond)`. -/
def condNode (brkCond : Option Name) (onnxCond condOut : Name) : Node :=
  match brkCond with
  | some b => .op "" "Not" [some b] [condOut] []
  | none => .op "" "Identity" [some onnxCond] [condOut] []

/-- `m` if `ok`, else the error `e`. -/
def guardE {α : Type} (ok : Bool) (e : Err) (m : M α) : M α :=
  if ok then m else failM e

/-- The condition output of a loop body (after ddfea30): for `while c: …; if b: break` the loop goes on only if the
break condition does not hold *and* the re-computed while condition does — `not_break = Not(b)`,
`cond_out = And(c, not_break)`; otherwise one node (`condNode`). -/
def condNodes (whileVar brkCond : Option Name) (onnxCond : Name) : M (Name × List Node) :=
  match whileVar, brkCond with
  | some _, some b => do
    let nb ← genUnique "not_break"
    let co ← genUnique "cond_out"
    pure (co, [.op "" "Not" [some b] [nb] [], .op "" "And" [some onnxCond, some nb] [co] []])
  | _, _ => do
    let co ← genUnique "cond_out"
    pure (co, [condNode brkCond onnxCond co])

/-- The part of `_translate_loop_stmt` after the body statements: condition output, state outputs, the `Loop`
node, rebinding. -/
def loopFinish (L L2 : Locals) (state : List Name) (bound cond : Option Name)
    (condIn iv : Name) (ps : List Name) (whileVar : Option Name)
    (bn : List Node) (brkCond : Option Name) : M (Locals × List Node) :=
  match loopCondName L2 whileVar condIn with
  | none => failM .translation
  | some onnxCond => do
    let (condOut, cns) ← condNodes whileVar brkCond onnxCond
    let (os, ns3) ← loopOutputs L2 state (bn ++ cns) [condOut]
    let (inits, ns4) ← loopInits L state
    let outs ← genUniques state
    pure (bindVals L state outs,
      ns4 ++ [.loop bound cond inits outs (iv :: condIn :: ps) (bn ++ (cns ++ ns3)) (condOut :: os)])

/-- (fc696f7) a loop that carries no state — nothing assigned in its body is read in a later iteration or after
the loop — is refused (before, the `Loop` node was emitted without outputs and `_emit` died with IndexError). -/
def needState {α : Type} (state : List Name) (a : α) : M α :=
  if state.isEmpty then failM .translation else pure a

/-- `cond_in` of a `for` loop; then (9b326d7) a loop whose variable is read after the loop is refused: the
translation binds it only inside the body, Python leaves the last index in it; then the state check. -/
def forCondIn (i : Name) (lo : VSet) (state : List Name) : M Name := do
  let c ← genUnique "cond_in"
  if lo.contains i then failM .translation else needState state c

/-- The condition value of a `while` loop before the loop, then the state check. -/
def whileCond (L : Locals) (t : Name) (state : List Name) : M (Name × List Node) := do
  let r ← pyVar L t
  needState state r

/-- (9f69276) a `return` must be the last statement of the function body. -/
def onlyLast {α : Type} (last : Bool) (m : M α) : M α :=
  if last then m else failM .translation

mutual
/-- `_translate_stmt(node)` for a statement that is *not* directly a `return` of the function
body; `lo` = `live_out(stmt)`. -/
def convStmt (L : Locals) : Stmt → VSet → M (Locals × List Node)
  | .assign x e, _ => do
    let (t, ns) ← convExpr L e (some x)
    pure (bindVar L x (.val t), ns)
  | .par xs es, _ =>
    if xs.length ≠ es.length then failM .translation
    else convPar L xs es
  | .tuple xs e, _ =>
    match e with
    | .call dom op sig args attrs => do
      let (as, ns1) ← convArgs L args
      let attrs' ← liftE (convAttrs L attrs)
      let (as', ns2) ← castInputs sig as
      let outs ← genUniques xs
      pure (bindVals L xs outs, ns1 ++ (ns2 ++ [.op dom op (as'.map some) outs attrs']))
    | _ => failM .translation
  | .badAssign _ _, _ => failM .translation
  | .ite c t e, lo =>
    match assignedStmt (.ite c t e) with
    | none => failM .value
    | some defs => do
      let liveDefs := vinter lo defs
      let (test, ns0) ← convExpr L c (some "cond")
      -- `_translate_block(stmt.body, …, live_defs)`
      let (Lt, tn) ← convStmts ([] :: L) t lo
      let (to, tn2) ← blockOutputs Lt liveDefs tn []
      let (Le, en) ← convStmts ([] :: L) e lo
      let (eo, en2) ← blockOutputs Le liveDefs en []
      let renamed ← genUniques liveDefs
      if renamed.isEmpty then failM .translation
      else if renamed == [test] then failM .translation
      else pure (bindVals L liveDefs renamed,
        ns0 ++ [.ifN test renamed (tn ++ tn2) to (en ++ en2) eo])
  | .for_ i okIter bound body, lo =>
    if !okIter then failM .translation
    else
      match loopState body lo with
      | none => failM .value
      | some state => do
        let (ob, ns0) ← convExpr L bound (some "loop_bound")
        let condIn ← forCondIn i lo state
        let (L1, iv, ps) ← loopEnter L i true state
        let (L2, bn, bc) ← convLoopBody L1 body (loopBodyLo (.for_ i okIter bound body) lo)
        let (L', nl) ← loopFinish L L2 state (some ob) none condIn iv ps none bn bc
        pure (L', ns0 ++ nl)
  | .while_ c body, lo =>
    match c with
    | .var t =>
      match loopState body lo with
      | none => failM .value
      | some state => do
        let condIn ← genUnique t
        let (oc, ns0) ← whileCond L t state
        -- (0fa00ae) the iteration-number input is no longer bound to the Python name `infinite_loop`
        let (L1, iv, ps) ← loopEnter L "infinite_loop" false state
        let (L2, bn, bc) ← convLoopBody L1 body (loopBodyLo (.while_ c body) lo)
        let (L', nl) ← loopFinish L L2 state none (some oc) condIn iv ps (some t) bn bc
        pure (L', ns0 ++ nl)
    | _ => failM .translation
  | .brk _, _ => failM .value
  | .ret _ _, _ => failM .value
  | .skip, _ => pure (L, [])
  | .unsupported, _ => failM .value
/-- Statements of a block, each with its own live-out. -/
def convStmts (L : Locals) : List Stmt → VSet → M (Locals × List Node)
  | [], _ => pure (L, [])
  | s :: ss, lo => do
    let (L1, ns1) ← convStmt L s (liveInBlock ss lo)
    let (L2, ns2) ← convStmts L1 ss lo
    pure (L2, ns1 ++ ns2)
/-- Loop body statements: a trailing `if c: break` is intercepted, everything else translated.
Returns the scope, the nodes and the break condition (if any). -/
def convLoopBody (L : Locals) : List Stmt → VSet → M (Locals × List Node × Option Name)
  | [], _ => pure (L, [], none)
  | .brk c :: ss, _ =>
    match c with
    | .var t =>
      if !ss.isEmpty then failM .translation
      else
        match currentScopeFind L t with
        | some (.val n) => pure (L, [], some n)
        | _ => failM .translation
    | _ => failM .translation
  | s :: ss, lo => do
    let (L1, ns1) ← convStmt L s (liveInBlock ss lo)
    let (L2, ns2, bc) ← convLoopBody L1 ss lo
    pure (L2, ns1 ++ ns2, bc)
end

/-! ## Function level -/

/-- `str(ir.Value)` of an untyped value, as used (by accident) in `f"{return_var}_copy"`. -/
def valueRepr (n : Name) : String := "%\"" ++ n ++ "\"<?,?>"

/-- `return_var.is_graph_input()`: the returned value itself is a function input. -/
def returnsInput (inputs : List Name) (rv : Name) : Bool := inputs.contains rv

/-- One returned expression of `_translate_return_stmt` (`ret(exp, i, suffix)`). -/
def convRetOne (L : Locals) (inputs : List Name) (e : Expr) (preferred : Name)
    (outs : List Name) : M (Name × List Node) := do
  let (rv, ns1) ← convExpr L e (some preferred)
  let (rv2, ns2) ← (if returnsInput inputs rv then emitCopy rv preferred else pure (rv, []) : M (Name × List Node))
  if outs.contains rv2 then do
    let (rv3, ns3) ← emitCopy rv2 (valueRepr rv2 ++ "_copy")
    pure (rv3, ns1 ++ (ns2 ++ ns3))
  else pure (rv2, ns1 ++ ns2)

def convRetAll (L : Locals) (inputs : List Name) (single : Bool) :
    List Expr → Nat → List Name → M (List Name × List Node)
  | [], _, outs => pure (outs, [])
  | e :: es, i, outs => do
    let preferred := if single then "return_val" else "return_val" ++ toString i
    let (o, ns1) ← convRetOne L inputs e preferred outs
    let (outs', ns2) ← convRetAll L inputs single es (i + 1) (outs ++ [o])
    pure (outs', ns1 ++ ns2)

/-- `_translate_return_stmt(stmt)` at the top level of the function body. -/
def convRetStmt (L : Locals) (inputs : List Name) (retCount : Option Nat) (es : List Expr)
    (bare : Bool) (outs : List Name) : M (List Name × List Node) :=
  if bare then failM .translation
  else
    match retCount with
    | some k =>
      if k ≠ es.length then failM .syntax
      else convRetAll L inputs (es.length == 1) es 0 outs
    | none => convRetAll L inputs (es.length == 1) es 0 outs

/-- Function body: `for i, s in enumerate(fn.body): self._translate_stmt(s, index_of_stmt=i)`. -/
def convTop (inputs : List Name) (retCount : Option Nat) (L : Locals) :
    List Stmt → List Name → M (List Node × List Name)
  | [], outs => pure ([], outs)
  | .ret es bare :: ss, outs => do
    let (outs1, ns1) ← onlyLast ss.isEmpty (convRetStmt L inputs retCount es bare outs)
    let (ns2, outs2) ← convTop inputs retCount L ss outs1
    pure (ns1 ++ ns2, outs2)
  | s :: ss, outs => do
    let (L1, ns1) ← convStmt L s (liveInBlock ss [])
    let (ns2, outs') ← convTop inputs retCount L1 ss outs
    pure (ns1 ++ ns2, outs')

def paramFrame : List Param → Frame
  | [] => []
  | .tensor x :: ps => paramFrame ps ++ [(x, .val x)]
  | .attr x ty :: ps => paramFrame ps ++ [(x, .attr x ty)]

def tensorParams (ps : List Param) : List Name :=
  ps.filterMap (fun p => match p with | .tensor x => some x | .attr _ _ => none)

def attrParams (ps : List Param) : List Name :=
  ps.filterMap (fun p => match p with | .attr x _ => some x | .tensor _ => none)

/-- The translation proper (`_translate_function_def_common`): tensor parameters enter `used` (attribute
parameters do not), the body is translated statement by statement. -/
def convertCore (f : Func) : Except Err Graph :=
  let ins := tensorParams f.params
  let s0 : St := { used := ins.reverse, next := 0, castable := [] }
  match convTop ins f.retCount [paramFrame f.params] f.body [] s0 with
  | .error e => .error e
  | .ok ((ns, outs), _) =>
    .ok { inputs := ins, attrs := attrParams f.params, nodes := ns, outputs := outs }

/-- `Converter.translate_function_def`: the analyser runs first (an unsupported statement is a ValueError
before anything is translated); a call that takes a default-domain operator from an opset of another version
than `default_opset` is refused (`_set_default_opset`: "Two distincts opset were used", TranslationError —
its precedence relative to other errors of the same program is not modelled). -/
def convert (f : Func) : Except Err Graph :=
  match assignedBlock f.body with
  | none => .error .value
  | some _ => if opsetsOK f then convertCore f else .error .translation

theorem convert_core {f : Func} {g : Graph} (h : convert f = .ok g) :
    convertCore f = .ok g ∧ opsetsOK f = true ∧ ∃ d, assignedBlock f.body = some d := by
  unfold convert at h
  cases ha : assignedBlock f.body with
  | none => rw [ha] at h; cases h
  | some d =>
    rw [ha] at h
    simp only at h
    by_cases ho : opsetsOK f = true
    · rw [if_pos ho] at h; exact ⟨h, ho, d, rfl⟩
    · rw [if_neg ho] at h; cases h

end OV.C01
