import OV.Model.C08Onnx
import OV.Model.C08Term
/-!
# C08 — view algebra: flatten, unflatten, view, reshape, permute, transpose, t, squeeze(.dim),
unsqueeze, expand, broadcast_to

For every function `f`:
* `f.model` — the trace-time Python branching of `aten_f` (core.py) composed with the ONNX
  operators' shape semantics (`OV.C08` in `C08Onnx.lean`); `none` = the runtime refuses the graph;
* `f.term`  — the dataflow term `aten_f` emits for those arguments (same branching);
* `f.spec`  — PyTorch's result shape (`none` = PyTorch raises), from the operator's documentation
  and `ATen/native/TensorShape.cpp`.
-/
namespace OV.C08

/-- PyTorch `maybe_wrap_dim`: a rank-0 tensor is treated as rank 1 for dim checking. -/
def torchDim (r : Nat) (d : Int) : Option Nat := normAxis (if r = 0 then 1 else r) d

/-- ONNX `Slice` of the 1-D tensor `Shape(x)` with step 1 (used to cut head/tail of a shape). -/
def sliceShape (s : Shape) (start stop : Int) : Shape :=
  let d : Int := s.length
  let sn := sliceNorm d start stop 1
  (s.drop sn.1.toNat).take (sn.2 - sn.1).toNat

namespace flatten

/-- Python slice bounds `l[a:b]` on a list of length `r` (step 1). -/
def pyBound (r : Nat) (a : Int) : Nat :=
  if a < 0 then (a + (r : Int)).toNat else min a.toNat r

/-- The target computed at trace time for a static shape (fix ad30c36):
`[*shape[:start], prod(shape[start:end+1]), *shape[end+1:]]` with Python slicing. -/
def staticTarget (s : Shape) (sd ed : Int) : Shape :=
  let r := s.length
  let a := pyBound r sd
  let b := pyBound r (ed + 1)
  s.take a ++ [numel ((s.take b).drop a)] ++ s.drop b

def model (s : Shape) (sd ed : Int) : Option Shape :=
  let dim : Int := s.length
  if dim = 1 then some s
  else if sd = 1 ∧ (ed = -1 ∨ ed = dim - 1) then flattenOp s sd
  else if sd = 0 ∧ (ed = -2 ∨ ed = dim - 2) then flattenOp s (ed + 1)
  else
    let ed' := if ed < 0 then dim + ed else ed
    let tgt := staticTarget s sd ed'
    reshape true s (tgt.map (Int.ofNat ·))

def term (s : Shape) (sd ed : Int) : String :=
  let dim : Int := s.length
  if dim = 1 then tOp "Identity" ["x0"]
  else if sd = 1 ∧ (ed = -1 ∨ ed = dim - 1) then tOp "Flatten" ["x0"] [("axis", tI sd)]
  else if sd = 0 ∧ (ed = -2 ∨ ed = dim - 2) then tOp "Flatten" ["x0"] [("axis", tI (ed + 1))]
  else
    let ed' := if ed < 0 then dim + ed else ed
    tOp "Reshape" ["x0", tNats (staticTarget s sd ed')] [("allowzero", "1")]

/-- `torch.flatten(x, start_dim, end_dim)`. -/
def spec (s : Shape) (sd ed : Int) : Option Shape :=
  match torchDim s.length sd, torchDim s.length ed with
  | some a, some b =>
    if a > b then none
    else if s.length = 0 then some [1]
    else some (s.take a ++ [numel ((s.drop a).take (b - a + 1))] ++ s.drop (b + 1))
  | _, _ => none

end flatten

namespace unflatten

/-- fix 6c44051: with static sizes a `-1` is resolved at trace time from `self.shape[dim]` (Python indexing)
when the product of the other entries is positive. -/
def resolveNeg1 (s : Shape) (dim : Int) (sizes : List Int) : List Int :=
  if sizes.contains (-1) then
    let known := (sizes.filter (· != -1)).foldl (· * ·) 1
    if known > 0 then
      let d : Int := (s.getD dim.toNat 0 : Nat)
      sizes.map (fun z => if z == -1 then d / known else z)
    else sizes
  else sizes

def model (s : Shape) (dim : Int) (sizes0 : List Int) : Option Shape :=
  let r : Int := s.length
  let dim := if dim < 0 then r + dim else dim
  let sizes := resolveNeg1 s dim sizes0
  let head := (sliceShape s 0 dim).map (Int.ofNat ·)
  let tail := (sliceShape s (dim + 1) INT64_MAX).map (Int.ofNat ·)
  let tgt := if dim = 0 then sizes ++ tail
             else if dim = r - 1 then head ++ sizes
             else head ++ sizes ++ tail
  reshape true s tgt

def term (s : Shape) (dim : Int) (sizes0 : List Int) : String :=
  let r := s.length
  let rk : Int := r
  let dim := if dim < 0 then rk + dim else dim
  let sizes := resolveNeg1 s dim sizes0
  let shp := tOp "Shape" ["x0"] [("start", "0")]
  let one (i : Int) := tOp "Reshape" [tI i, "[1]"] [("allowzero", "0")]
  let head := tOp "Slice" [shp, "[0]", one dim]
  let tail := tOp "Slice" [shp, one (dim + 1), tInts [INT64_MAX]]
  let sz := sizes.map one
  let parts := if dim = 0 then sz ++ [tail]
               else if dim = rk - 1 then head :: sz
               else head :: sz ++ [tail]
  tOp "Reshape" ["x0", tOp "Concat" parts [("axis", "0")]] [("allowzero", "1")]

/-- PyTorch `infer_size` (c10/core/TensorImpl / `infer_size_impl`). -/
def inferSize (n : Nat) (tgt : List Int) : Option Shape :=
  if tgt.any (· < -1) then none
  else if countNeg1 tgt > 1 then none
  else
    let k := (knownProd tgt).toNat
    if countNeg1 tgt = 1 then
      if k > 0 ∧ n % k = 0 then some (tgt.map (fun t => if t == -1 then n / k else t.toNat)) else none
    else if k = n then some (tgt.map Int.toNat) else none

/-- `torch.unflatten(x, dim, sizes)`: `sizes` non-empty, must multiply (with one `-1` inferred) to
`x.shape[dim]`. -/
def spec (s : Shape) (dim : Int) (sizes : List Int) : Option Shape :=
  if sizes.isEmpty then none else
  match (if s.length = 0 then none else normAxis s.length dim) with
  | none => none
  | some a =>
    match inferSize (s.getD a 0) sizes with
    | none => none
    | some mid => some (s.take a ++ mid ++ s.drop (a + 1))

end unflatten

namespace view

def model (s : Shape) (size : List Int) : Option Shape := reshape true s size

def term (size : List Int) : String :=
  tOp "Reshape" ["x0", tMergeDims size] [("allowzero", "1")]

/-- `x.view(size)` / `_unsafe_view`: `infer_size` against the element count. -/
def spec (s : Shape) (size : List Int) : Option Shape := unflatten.inferSize (numel s) size

end view

namespace reshape_

/-- fix 5bf0068: `Reshape(allowzero=1)`, as `aten_view`. -/
def model (s : Shape) (size : List Int) : Option Shape := reshape true s size

def term (size : List Int) : String :=
  tOp "Reshape" ["x0", tMergeDims size] [("allowzero", "1")]

def spec (s : Shape) (size : List Int) : Option Shape := unflatten.inferSize (numel s) size

end reshape_

namespace permute

def model (s : Shape) (dims : List Int) : Option Shape :=
  if dims.isEmpty then some (transposeDefault s)
  else
    let n : Int := dims.length
    let p := dims.map (fun a => if a < 0 then a + n else a)
    if p.any (· < 0) then none else transposeOp s (p.map Int.toNat)

def term (dims : List Int) : String :=
  if dims.isEmpty then tOp "Transpose" ["x0"]
  else
    let n : Int := dims.length
    tOp "Transpose" ["x0"] [("perm", tInts (dims.map (fun a => if a < 0 then a + n else a)))]

/-- `x.permute(dims)`: `dims` is a permutation of the axes (after wrapping against the rank). -/
def spec (s : Shape) (dims : List Int) : Option Shape :=
  if dims.length ≠ s.length then none else
  match normAxes s.length dims with
  | none => none
  | some p => if hasDup p then none else some (p.map (fun i => s.getD i 0))

end permute

namespace transpose

/-- Python `dims[i], dims[j] = dims[j], dims[i]` on `list(range(r))` with negative indexing. -/
def swapRange (r : Nat) (i j : Nat) : List Nat :=
  ((List.range r).set i j).set j i

def model (s : Shape) (d0 d1 : Int) : Option Shape :=
  if s.length = 0 then some s
  else
    match normAxis s.length d0, normAxis s.length d1 with
    | some i, some j => transposeOp s (swapRange s.length i j)
    | _, _ => none   -- Python IndexError at trace time

def term (r : Nat) (d0 d1 : Int) : String :=
  if r = 0 then "x0"
  else
    match normAxis r d0, normAxis r d1 with
    | some i, some j => tOp "Transpose" ["x0"] [("perm", tNats (swapRange r i j))]
    | _, _ => "ERR"

/-- `x.transpose(d0, d1)`: the two sizes trade places. -/
def spec (s : Shape) (d0 d1 : Int) : Option Shape :=
  match torchDim s.length d0, torchDim s.length d1 with
  | some i, some j => some ((s.set i (s.getD j 0)).set j (s.getD i 0))
  | _, _ => none

end transpose

namespace t

def model (s : Shape) : Option Shape :=
  if s.length = 2 then transposeOp s [1, 0] else some s

def term (r : Nat) : String :=
  if r = 2 then tOp "Transpose" ["x0"] [("perm", "[1,0]")] else "x0"

/-- `x.t()`: rank ≤ 2 only; rank 2 swaps. -/
def spec (s : Shape) : Option Shape :=
  match s with
  | [] => some []
  | [a] => some [a]
  | [a, b] => some [b, a]
  | _ => none

end t

namespace squeeze

def model (s : Shape) : Option Shape := some (squeezeAll s)
def term : String := tOp "Squeeze" ["x0"]
def spec (s : Shape) : Option Shape := some (s.filter (· != 1))

end squeeze

namespace squeeze_dim

/-- `self.shape[dim]` in Python: `dim` in `[-r, r)`, negative wraps; otherwise IndexError. -/
def pyIndex (s : Shape) (dim : Int) : Option Nat :=
  let r : Int := s.length
  if 0 ≤ dim ∧ dim < r then some (s.getD dim.toNat 0)
  else if -r ≤ dim ∧ dim < 0 then some (s.getD (dim + r).toNat 0)
  else none

/-- fix 3fa9486: a (static) dimension of size ≠ 1 is left alone (`Identity`), as in PyTorch; only a size-1 axis reaches `Squeeze`. -/
def model (s : Shape) (dim : Int) : Option Shape :=
  if s.length = 0 then some s
  else match pyIndex s dim with
    | none => none
    | some d => if d ≠ 1 then some s else squeezeOp s [dim]

def term (s : Shape) (dim : Int) : String :=
  if s.length = 0 then tOp "Identity" ["x0"]
  else match pyIndex s dim with
    | some d => if d ≠ 1 then tOp "Identity" ["x0"] else tOp "Squeeze" ["x0", tInts [dim]]
    | none => "IndexError"

/-- `x.squeeze(dim)`: removes the axis only if its size is 1, otherwise a no-op. -/
def spec (s : Shape) (dim : Int) : Option Shape :=
  match torchDim s.length dim with
  | none => none
  | some a => if s.length = 0 then some s
              else if s.getD a 0 = 1 then some (removeIdxs s [a]) else some s

end squeeze_dim

namespace unsqueeze

def model (s : Shape) (dim : Int) : Option Shape := unsqueeze1 s dim
def term (dim : Int) : String := tOp "Unsqueeze" ["x0", tInts [dim]]

/-- `x.unsqueeze(dim)`: `dim` in `[-r-1, r]`; negative `dim` counts from `r + 1`. -/
def spec (s : Shape) (dim : Int) : Option Shape :=
  let r : Int := s.length
  if -(r + 1) ≤ dim ∧ dim ≤ r then
    let a := (if dim < 0 then dim + r + 1 else dim).toNat
    some (s.take a ++ [1] ++ s.drop a)
  else none

end unsqueeze

namespace expand

def model (s : Shape) (size : List Int) : Option Shape :=
  let sz := size.map (fun d => if d == -1 then 1 else d)
  if sz.any (· < 0) then none else expandOp s (sz.map Int.toNat)

def term (size : List Int) : String :=
  tOp "Expand" ["x0", tMergeDims (size.map (fun d => if d == -1 then 1 else d))]

/-- Right-aligned walk of `torch.expand` (`inferExpandGeometry`): new leading dims may not be
`-1`; an existing dim must equal the requested one or be 1; `-1` keeps the existing dim. -/
def specRev : List Nat → List Int → Option (List Nat)
  | [], [] => some []
  | [], t :: ts => if t < 0 then none else (specRev [] ts).map (t.toNat :: ·)
  | _ :: _, [] => none
  | a :: s, t :: ts =>
    if t == -1 then (specRev s ts).map (a :: ·)
    else if t < 0 then none
    else if (a : Int) == t then (specRev s ts).map (a :: ·)
    else if a == 1 then (specRev s ts).map (t.toNat :: ·)
    else none

def spec (s : Shape) (size : List Int) : Option Shape :=
  (specRev s.reverse size.reverse).map List.reverse

end expand

namespace broadcast_to

/-- fix fe4fd65: `-1 ↦ 1` as in `aten_expand`. -/
def model (s : Shape) (size : List Int) : Option Shape := expand.model s size

def term (size : List Int) : String := expand.term size

def spec (s : Shape) (size : List Int) : Option Shape := expand.spec s size

end broadcast_to

end OV.C08
