import OV.Model.C08View
/-!
# C08 — replication family: repeat, tile, stack, cat (with the legacy empty-tensor rule)
-/
namespace OV.C08

namespace repeat_

def model (s : Shape) (reps : List Int) : Option Shape :=
  if reps.isEmpty then some s
  else
    match expandOp s (List.replicate reps.length 1) with
    | none => none
    | some e => tileOp e reps

def term (reps : List Int) : String :=
  if reps.isEmpty then "x0"
  else tOp "Tile" [tOp "Expand" ["x0", tInts (List.replicate reps.length 1)], tInts reps]

/-- `x.repeat(*reps)`: at least `rank` non-negative entries; the shape is left-padded with ones
and multiplied entry-wise. -/
def spec (s : Shape) (reps : List Int) : Option Shape :=
  if reps.length < s.length ∨ reps.any (· < 0) then none
  else some (List.zipWith (fun d r => d * r.toNat) (List.replicate (reps.length - s.length) 1 ++ s) reps)

end repeat_

namespace tile

def model (s : Shape) (dims : List Int) : Option Shape :=
  let r := s.length
  let n := dims.length
  if r > n then tileOp s (List.replicate (r - n) 1 ++ dims)
  else if r < n then
    match reshape true s ((List.replicate (n - r) (1 : Int)) ++ s.map (Int.ofNat ·)) with
    | none => none
    | some s1 => tileOp s1 dims
  else tileOp s dims

def term (r : Nat) (dims : List Int) : String :=
  let n := dims.length
  if r > n then tOp "Tile" ["x0", tInts (List.replicate (r - n) 1 ++ dims)]
  else if r < n then
    tOp "Tile" [tOp "Reshape" ["x0",
        tOp "Concat" [tInts (List.replicate (n - r) 1), tOp "Shape" ["x0"] [("start", "0")]] [("axis", "0")]]
        [("allowzero", "1")], tInts dims]
  else tOp "Tile" ["x0", tInts dims]

/-- `torch.tile(x, dims)`: the shorter of (shape, dims) is left-padded with ones. -/
def spec (s : Shape) (dims : List Int) : Option Shape :=
  if dims.any (· < 0) then none
  else
    let r := s.length
    let n := dims.length
    some (List.zipWith (fun d k => d * k.toNat)
      (List.replicate (n - r) 1 ++ s) (List.replicate (r - n) 1 ++ dims))

end tile

namespace stack

def model (ss : List Shape) (dim : Int) : Option Shape :=
  match ss.mapM (fun s => unsqueeze1 s dim) with
  | none => none
  | some us => concatOp us dim

def term (n : Nat) (dim : Int) : String :=
  tOp "Concat" ((List.range n).map (fun i => tOp "Unsqueeze" ["x" ++ toString i, tInts [dim]]))
    [("axis", tI dim)]

/-- `torch.stack`: non-empty list, all shapes equal, a new axis of size `n` at `dim`
(`dim` wrapped against `rank + 1`). -/
def spec (ss : List Shape) (dim : Int) : Option Shape :=
  match ss with
  | [] => none
  | s :: rest =>
    if rest.all (· == s) then
      (normAxis (s.length + 1) dim).map (fun a => s.take a ++ [ss.length] ++ s.drop a)
    else none

end stack

namespace cat

/-- `aten_cat` (after fix 68ff4be): tensors of shape `(0,)` are dropped; nothing left → `Identity` of the first tensor (fix e37a118);
one left → `Identity`; otherwise `Concat` of the remaining tensors. -/
def model (ss : List Shape) (dim : Int) : Option Shape :=
  let filtered := ss.filter (· != [0])
  match filtered with
  | [] => ss.head?          -- fix e37a118: only legacy-empty tensors → `Identity(tensors[0])`
  | [s] => some s
  | _ => concatOp filtered dim

def term (ss : List Shape) (dim : Int) : String :=
  let idx := (ss.zipIdx.filter (fun p => p.1 != [0])).map (·.2)
  match idx with
  | [] => tOp "Identity" ["x0"]
  | [i] => tOp "Identity" ["x" ++ toString i]
  | _ => tOp "Concat" (idx.map (fun i => "x" ++ toString i)) [("axis", tI dim)]

/-- `torch.cat` (TensorShape.cpp): 1-D empty tensors are skipped (legacy rule); the rest must have
equal rank and equal sizes off `dim`; if everything is skipped the result is `[0]`. -/
def spec (ss : List Shape) (dim : Int) : Option Shape :=
  if ss.isEmpty then none else
  match ss.filter (· != [0]) with
  | [] => some [0]
  | s :: rest =>
    match (if s.length = 0 then none else normAxis s.length dim) with
    | none => none
    | some a =>
      if rest.all (sameExcept a s) then
        some (setAt s a ((s :: rest).foldl (fun acc t => acc + t.getD a 0) 0))
      else none

end cat

end OV.C08
