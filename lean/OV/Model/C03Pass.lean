import OV.Model.C03Fold
/-
  OV.Model.C03Pass — `FoldConstantsPass.process_node` (gate cascade in the code's order),
  `replace_node`, `visit_graph` (with the graph-output replacement rule), `if_op`,
  `split_to_sequence`, and the `optimize_ir` pipeline with the onnx_ir passes as parameters.
-/
namespace OV.C03

/-! ### deep renaming (only needed when an `If` branch is inlined) -/

def renName (r : List (Name × Name)) (x : Name) : Name := (lookupA r x).getD x

def renNode : Nat → List (Name × Name) → Node → Node
  | 0, _, n => n
  | d + 1, r, n =>
    .mk n.op n.domain (n.inputs.map (·.map (renName r))) (n.outputs.map (renName r)) n.attrs
      (n.subs.map fun (k, g) =>
        (k, Graph.mk g.inputs (g.inits.map fun (x, t) => (renName r x, t))
              (g.nodes.map (renNode d r)) (g.outputs.map (renName r))))

/-- Depth bound used for deep traversals (nesting deeper than this is not generated). -/
def maxDepth : Nat := 8

/-! ### SplitToSequence -/

def staticShape (st : St) (x : Name) : Option (List Int) := ((st.getInfo x).shape).bind allKnown

def freshNames (st : St) : Nat → List Name × St
  | 0 => ([], st)
  | k + 1 => let (x, st) := st.freshName; let (xs, st) := freshNames st k; (x :: xs, st)

/-- `[f"{base}{i}{suffix}" for i in range(k)]` as explicit output names -/
def freshNamedList (st : St) (base suffix : String) (k : Nat) : List Name × St :=
  (List.range k).foldl (fun (acc : List Name × St) i =>
    let (x, s) := acc.2.freshNamed (base ++ toString i ++ suffix)
    (acc.1 ++ [x], s)) ([], st)

def ceilDiv (a b : Int) : Int := (a + b - 1) / b

def evSplitToSequence (st : St) (n : Node) : EvRes × St :=
  match n.inputs with
  | [] => (.error "split_to_sequence: IndexError", st)
  | [_] => (.none, st)
  | x? :: s? :: _ =>
    match x?, s?, getOutput n 0 with
    | some x, some s, some out0 =>
      let oname := st.display out0
      match intAttr n "axis" (some 0) with
      | none => (.none, st)
      | some axis0 =>
        match (st.getInfo x).shape with
        | none => (.none, st)
        | some shape =>
          let rank : Int := shape.length
          let axis := if axis0 < 0 then axis0 + rank else axis0
          if axis < 0 || axis ≥ rank then (.none, st) else
          let splitValue := numpyValue st (some s)
          let splitShape := staticShape st s
          if splitValue.isNone && splitShape.isNone then (.none, st) else
          -- (number of outputs, Split node builder given output names, extra leading nodes)
          let plan : Except String (Option (Nat × List Node × (List Name → Node)) × St) :=
            match splitShape with
            | some [k] => .ok (some (k.toNat, [], fun outs => mkNode "Split" [some x, some s] outs [("axis", .int axis)]), st.note "sts:shape1d")
            | _ =>
              match splitValue with
              | none => .ok (none, st.note "sts:novalue")
              | some c =>
                if c.shape.length == 1 then
                  .ok (some (c.size, [], fun outs => mkNode "Split" [some x, some s] outs [("axis", .int axis)]), st.note "sts:value1d")
                else if c.shape.length == 0 then
                  match pyGet shape axis, c.ints with
                  | some (.known d), some [sz] =>
                    if sz ≤ 0 then .ok (none, st.note "sts:badsize") else
                    let k := (ceilDiv d sz).toNat
                    if d % sz != 0 then
                      let rem := d - ((k : Int) - 1) * sz
                      let (e, st) := st.freshNamed (oname ++ "_split_sizes")
                      let cst := mkNode "Constant" [] [e] [("value_ints", .ints (List.replicate (k - 1) sz ++ [rem]))]
                      .ok (some (k, [cst], fun outs => mkNode "Split" [some x, some e] outs [("axis", .int axis)]), st.note "sts:uneven")
                    else
                      .ok (some (k, [], fun outs => mkNode "Split" [some x] outs [("axis", .int axis), ("num_outputs", .int k)]), st.note "sts:even")
                  | some (.known _), _ => .error "split_to_sequence: non-integer split"
                  | _, _ => .ok (none, st.note "sts:symdim")
                else .ok (none, st)
          match plan with
          | .error e => (.error e, st)
          | .ok (none, st) => (.none, st)
          | .ok (some (k, pre, mkSplit), st) =>
            if k == 0 then (.error "unmodelled: SplitToSequence with zero outputs", st) else
            let (outs, st) := freshNamedList st (oname ++ "_split_") "" k
            match intAttr n "keepdims" (some 1) with
            | none => (.none, st)
            | some keepdims =>
              let (mid, vals, st) :=
                if keepdims == 0 then
                  let (av, st) := st.freshNamed (oname ++ "_axis")
                  let (sq, st) := freshNamedList st (oname ++ "_split_") "_squeeze" k
                  ([mkNode "Constant" [] [av] [("value_ints", .ints [axis])]] ++
                     (List.zipWith (fun o q => mkNode "Squeeze" [some o, some av] [q]) outs sq), sq, st.note "sts:squeeze")
                else ([], outs, st)
              let (o, st) := st.freshName
              (.repl { newNodes := pre ++ [mkSplit outs] ++ mid ++ [mkNode "SequenceConstruct" (vals.map some) [o]],
                       newOuts := [o] }, st)
    | _, _, _ => (.none, st)

/-! ### If -/

def evIf (st : St) (n : Node) : EvRes × St :=
  match boolValue st (getInput n 0) with
  | none => (.none, st)
  | some b =>
    match n.sub (if b then "then_branch" else "else_branch") with
    | none => (.none, st)
    | some g =>
      (.repl { newNodes := g.nodes, newOuts := g.outputs, inits := g.inits, inlinedIf := true },
       st.note (if b then "if:then" else "if:else"))

/-- `_use_tensor_valued_constants` (commit 3291a6e): `value_int` / `value_ints` of Constant exist from opset 12 on; below,
the new Constant nodes carry the same integers under `value` (a tensor-valued attribute with that payload). -/
def downgradeConst (n : Node) : Node :=
  if n.op == "Constant" && n.isOnnxDomain then
    .mk n.op n.domain n.inputs n.outputs
      (n.attrs.map fun (k, a) =>
        match a with
        | .int i => if k == "value_int" || k == "value" then ("value", Attr.int i) else (k, a)
        | .ints l => if k == "value_ints" || k == "value" then ("value", Attr.ints l) else (k, a)
        | _ => (k, a)) n.subs
  else n

/-- an evaluator as `process_node` sees it at opset `version`: below 12 its new Constant nodes are tensor-valued -/
def atVersion (version : Nat) (f : St → Node → EvRes × St) (st : St) (n : Node) : EvRes × St :=
  let r := f st n
  if version < 12 then
    (match r.1 with
      | .repl rp => .repl { rp with newNodes := rp.newNodes.map downgradeConst }
      | e => e, r.2)
  else r

/-- `registry.lookup_evaluators(domain, op, version)` — registration is for domain `""`.  The evaluators that create
integer constants are wrapped with `atVersion`. -/
def lookupEvaluator (n : Node) (version : Nat) : Option (St → Node → EvRes × St) :=
  if n.domain != "" then none else
  match n.op with
  | "Add" => some evAdd
  | "Abs" => some evAbs
  | "Gather" => some (atVersion version evGather)
  | "Reshape" => some evReshape
  | "Squeeze" => some propagateShapeValue
  | "Cast" => some evCast
  | "CastLike" => some evCastLike
  | "Shape" => some (atVersion version evShape)
  | "Size" => some (atVersion version evSize)
  | "If" => some evIf
  | "Identity" => some evIdentity
  | "SequenceConstruct" => some evSequenceConstruct
  | "Concat" => some evConcat
  | "Dropout" => if version ≥ 12 then some evDropout else none
  | "Expand" => some evExpand
  | "ConcatFromSequence" => some (atVersion version evConcatFromSequence)
  | "SplitToSequence" => if version ≥ 18 then some evSplitToSequence else none
  | "SequenceAt" => some evSequenceAt
  | _ => none

/-! ### process_node -/

def nonDeterministicOps : List String :=
  ["RandomUniform", "RandomNormal", "RandomUniformLike", "RandomNormalLike", "Multinomial"]

def foldBlacklist : List String :=
  ["ConstantOfShape", "DequantizeLinear", "DynamicQuantizeLinear", "QuantizeLinear"]

def alwaysFoldOps : List (String × String) := [("", "Transpose")]

def isControlFlow (n : Node) : Bool := !n.subs.isEmpty

def showInts (l : List Int) : String := ",".intercalate (l.map toString)

def showAttr : String × Attr → String
  | (k, .int i) => k ++ "=i:" ++ toString i
  | (k, .ints l) => k ++ "=is:" ++ showInts l
  | (k, .tensor t) => k ++ "=t:" ++ t
  | (k, .opaque o) => k ++ "=o:" ++ o
  | (k, .ref r) => k ++ "=r:" ++ r

def lookupTok (ctx : Ctx) (t : String) : Option CInfo :=
  match lookupA ctx.toks t with
  | some c => some c
  | none => ctx.oracle.findSome? fun (_, o) => match o with | .single c => if c.tok == t then some c else none | .fail => none

/-- `_process_constant_node` -/
def processConstant (ctx : Ctx) (st : St) (n : Node) : St :=
  if !n.isOp "Constant" then st else
  if n.attrs.length + n.subs.length != 1 then st else
  match n.outputs, n.attrs with
  | [o], [(k, a)] =>
    let c? : Option CInfo :=
      match a with
      | .tensor t =>
        if k == "value" || k == "value_float" || k == "value_floats" || k == "value_string" || k == "value_strings"
        then lookupTok ctx t else none
      | .ints l => if k == "value_ints" then
          some { tok := "ints:" ++ showInts l, dtype := DT_INT64, shape := [l.length], ints := some l,
                 isZero := match l with | [v] => some (v == 0) | _ => none }
        else none
      | .int i => if k == "value_int" then
          some { tok := "int:" ++ toString i, dtype := DT_INT64, shape := [], ints := some [i], isZero := some (i == 0) }
        else none
      | .opaque _ => none
      | .ref _ => none
    match c? with
    | none => st
    | some c => st.setInfo o { dtype := some c.dtype, shape := some (c.shape.map fun (d : Nat) => Dim.known (Int.ofNat d)), const := some c }
  | _, _ => st

inductive PRes where
  | keep (n : Node)
  | repl (n : Node) (r : Repl)
  | error (msg : String)
  deriving Inhabited

/-- one step of the alias substitution loop -/
def substStep (acc : List (Option Name) × St) (x : Option Name) : List (Option Name) × St :=
  match x with
  | none => (acc.1 ++ [none], acc.2)
  | some x =>
    match acc.2.getSym (some x) with
    | some (.alias y) => (acc.1 ++ [some y], { ((acc.2.decUse x).incUse y) with modified := true }.note "subst:alias")
    | _ => (acc.1 ++ [some x], acc.2)

/-- alias substitution on the node's inputs (first loop of `process_node`) -/
def substInputs (st : St) (n : Node) : Node × St :=
  let r := n.inputs.foldl substStep ([], st)
  (n.setInputs r.1, r.2)

def oracleKey (st : St) (n : Node) (version : Nat) : String :=
  n.op ++ "|" ++ n.domain ++ "|" ++ toString version ++ "|" ++
    "&".intercalate (n.inputs.map fun x => match x with
      | none => "-"
      | some x => match st.constOf x with | some c => c.tok | none => "?") ++ "|" ++
    ";".intercalate (n.attrs.map showAttr)

/-- `should_fold` / blacklist / `input_size_limit` with the `_DEFAULT_ALWAYS_FOLD_OPS`
single-consumer exception: may the node be evaluated? -/
def gateProceed (ctx : Ctx) (st : St) (n : Node) : Bool × St :=
  match ctx.shouldFold with
  | some false => (false, st.note "gate:shouldfold_false")
  | some true => (true, st.note "gate:shouldfold_true")
  | none =>
    if foldBlacklist.any (n.isOp ·) then (false, st.note "gate:blacklist") else
    let large := n.inputs.map fun x => match x with
      | none => false
      | some x => match st.constOf x with | some c => decide (c.size > ctx.inLimit) | none => false
    if large.any id then
      if alwaysFoldOps.contains (n.domain, n.op) &&
         (List.zip n.inputs large).all (fun (x, isLarge) => match x with
            | none => true
            | some x => st.usesOf x == 1 || !isLarge)
      then (true, st.note "gate:alwaysfold")
      else (false, st.note "gate:inputsize")
    else (true, st)

/-- first of `nm_k, nm_(k+1), …` that is not taken (`while f"{name}_{counter}" in graph.initializers: counter += 1`); among
`|taken| + 1` candidates one is free, so the fuel `|taken|` suffices -/
def uniqueSuffix (taken : List String) (nm : String) : Nat → Nat → String
  | 0, k => nm ++ "_" ++ toString k
  | f + 1, k => if taken.contains (nm ++ "_" ++ toString k) then uniqueSuffix taken nm f (k + 1) else nm ++ "_" ++ toString k

/-- `_make_initializer_name_unique(graph, folded_value, new_initializer)` (commit 6fc3d91): when the name of the value that is
being folded is already held by a registered initializer, the folded value takes a fresh name `<n>_<k>`; a graph output keeps
its name and the initializer registered earlier is renamed instead.  Only display names, the registry of registered names
and the log change. -/
def makeRoom (st : St) (o : Name) : St :=
  let nm := st.display o
  let clash := st.initDisplay.contains nm
  let fresh := uniqueSuffix st.initDisplay nm st.initDisplay.length 1
  let isOut := st.gouts.contains o
  let holder := st.initNames.find? fun x => !st.removed.contains x && x != o && st.display x == nm
  { st with
    dname := if clash then
               (if isOut then (match holder with | some e => insertA st.dname e fresh | none => st.dname)
                else insertA st.dname o fresh)
             else st.dname,
    initDisplay := if clash then (if isOut then fresh :: st.initDisplay.erase nm else st.initDisplay) else st.initDisplay,
    hist := if clash then "fold:rename" :: st.hist else st.hist }

/-- After the reference evaluator answered `c`: single output, `output_size_limit` with
removed-input compensation (`_prepare_folded_tensor`), then `new_constant` / `new_initializer`. -/
def emitFold (ctx : Ctx) (st : St) (n : Node) (c : CInfo) : PRes × St :=
  let ins := n.inputs.filterMap id
  if n.outputs.length != 1 then (.keep n, st.note "gate:multiout") else
  let removed := ins.foldl (fun acc x =>
    if st.usesOf x == 1 then (match st.constOf x with | some ci => acc + ci.size | none => acc) else acc) 0
  if c.size > ctx.outLimit && c.size > removed then (.keep n, st.note "gate:outputsize") else
  let st := if c.size > ctx.outLimit then st.note "gate:outputsize_compensated" else st
  let (v, st) := st.freshName
  let st := st.setInfo v { dtype := some c.dtype, shape := some (c.shape.map fun (d : Nat) => Dim.known (Int.ofNat d)), const := some c }
  if ctx.isFunction then
    -- a new Constant node; its output has no const_value until the node is visited
    let st := st.setInfo v {}
    (.repl n { newNodes := [mkNode "Constant" [] [v] [("value", .tensor c.tok)]], newOuts := [v] }, st.note "fold:constant")
  else
    -- `_make_initializer_name_unique` (commit 6fc3d91) and then `graph.register_initializer`: the name is free by now
    let st := makeRoom st (n.outputs.headD "")
    let nm := st.display (n.outputs.headD "")
    (.repl n { newNodes := [], newOuts := [v], inits := [(v, c.tok)] },
     { st with initDisplay := nm :: st.initDisplay }.note "fold:initializer")

/-- `ReferenceEvaluator.get_evaluator` answers None without consulting onnx.reference: the opset-13
implementations of these operators are not valid below opset 13 (commit 9d7b9e7). -/
def refEvaluatorMissing (n : Node) (version : Nat) : Bool :=
  n.domain == "" && decide (version < 13) && ["Softmax", "LogSoftmax", "Hardmax"].contains n.op

/-- the reference evaluator's answer for the node (the table is only consulted when an evaluator exists) -/
def oracleAnswer (ctx : Ctx) (st : St) (n : Node) (version : Nat) : Option Oracle :=
  if refEvaluatorMissing n version then some .fail else lookupA ctx.oracle (oracleKey st n version)

/-- a node carrying an attribute reference (`attr.is_ref()`; only inside function bodies) -/
def hasRefAttr (n : Node) : Bool := n.attrs.any fun a => match a.2 with | .ref _ => true | _ => false

/-- The gate cascade of `process_node` (everything after the partial evaluators), in the code's
order: Constant / control flow / non-deterministic / graph-input guard / all inputs constant /
`gateProceed` / reference evaluation / `emitFold`. -/
def gateCascade (ctx : Ctx) (st : St) (n : Node) (version : Nat) : PRes × St :=
  if n.isOp "Constant" then (.keep n, st.note "gate:constant")
  else if isControlFlow n then (.keep n, st.note "gate:controlflow")
  else if nonDeterministicOps.contains n.op && n.isOnnxDomain then (.keep n, st.note "gate:nondeterministic")
  else if (n.inputs.filterMap id).any st.isGraphInput then (.keep n, st.note "gate:graphinput")
  else if (n.inputs.filterMap id).any (fun x => (st.constOf x).isNone) then (.keep n, st.note "gate:nonconst")
  else
    match gateProceed ctx st n with
    | (false, st) => (.keep n, st)
    | (true, st) =>
      match oracleAnswer ctx st n version with
      | none => (.keep n, { st with need := oracleKey st n version :: st.need })
      | some .fail => (.keep n, st.note "gate:evalfail")
      | some (.single c) => emitFold ctx st n c

/-- Run a partial evaluator.  An evaluator sees the whole state but can only write what the real
evaluators can reach: value annotations (`info`), the symbolic map, the tape (fresh names, explicit
output names) and the log.  Graph inputs/outputs, use counts, registered and popped initializers
are out of its reach. -/
def runEvaluator (f : St → Node → EvRes × St) (st : St) (n : Node) : EvRes × St :=
  let r := f st n
  (r.1, { st with info := r.2.info, sym := r.2.sym, fresh := r.2.fresh, hist := r.2.hist, dname := r.2.dname })

/-- registry lookup + evaluator call (`for optimizer in op_optimizers: …`) -/
def evalPartial (n : Node) (version : Nat) (st : St) : EvRes × St :=
  match lookupEvaluator n version with
  | some f => runEvaluator f st n
  | none => (EvRes.none, st)

/-- what `process_node` does with the evaluator's answer -/
def finishNode (ctx : Ctx) (n : Node) (version : Nat) : EvRes × St → PRes × St
  | (.error m, st) => (.error m, st)
  | (.repl r, st) => (.repl n r, st)
  | (.none, st) => gateCascade ctx st n version

def processNode (ctx : Ctx) (st : St) (n0 : Node) : PRes × St :=
  let p := substInputs st n0
  -- a reference attribute's value is only known at the call site: leave the node alone (commit 1825327)
  if hasRefAttr p.1 then (.keep p.1, p.2.note "gate:refattr") else
  let st1 := if p.1.isOp "Constant" then processConstant ctx p.2 p.1 else p.2
  match lookupA ctx.imports p.1.domain with
  | none => (.keep p.1, st1.note "gate:noimport")
  | some version => finishNode ctx p.1 version (evalPartial p.1 version st1)

/-! ### replace_node -/

def orElse {α} (a b : Option α) : Option α := match a with | some x => some x | none => b

/-- `replace_nodes_and_values`, first loop: the new value inherits type/shape/const of the old one
where the old one has them, and takes over its identity. -/
def inheritInfo (st : St) (pairs : List (Name × Name)) : St :=
  pairs.foldl (fun st (o, v) =>
    let old := st.getInfo o
    let new := st.getInfo v
    let st := st.setInfo o { dtype := orElse old.dtype new.dtype, shape := orElse old.shape new.shape,
                             const := orElse old.const new.const }
    let st := st.clearSym o
    -- uses recorded under the new value's own identity move to the old name
    let st := { st with uses := insertA (eraseA st.uses v) o (st.usesOf o + st.usesOf v) }
    { st with info := eraseA st.info v }) st

def countNewUses (st : St) (newNodes : List Node) : St :=
  newNodes.foldl (fun st m => st.incUses m.inputs) st

/-- `_clear_unused_initializers(node_inputs)` -/
def clearUnused (st : St) (ins : List Name) : St :=
  ins.foldl (fun st x =>
    if st.isInit x && st.usesOf x == 0 && !st.gouts.contains x && !st.isGraphInput x
    then { st with removed := x :: st.removed, initDisplay := st.initDisplay.erase (st.display x) }.note "clear:initializer"
    else st) st

/-- `replace_node`: returns the (renamed) new nodes to splice in and the initializers to
register in the current graph. -/
def applyRepl (ctx : Ctx) (st : St) (n : Node) (r : Repl) : Except String (List Node × List (Name × String) × St) :=
  if n.outputs.length != r.newOuts.length then .error "replace: number of values and replacements must match" else
  let pairs := List.zip n.outputs r.newOuts
  let rmap : List (Name × Name) := pairs.map fun (o, v) => (v, o)
  let st := inheritInfo st pairs
  let newNodes := r.newNodes.map (renNode maxDepth rmap)
  let inits := r.inits.map fun (x, t) => (renName rmap x, t)
  let st := st.decUses n.inputs
  let st := if r.inlinedIf then
      { st with gouts := st.gouts.filter (fun x => !(r.newOuts.contains x) || n.outputs.contains x) }
    else countNewUses st newNodes
  let newInitNames : List Name := (inits.map (fun (p : Name × String) => p.1)).filter (fun x => !st.initNames.contains x)
  let st := { st with initNames := st.initNames ++ newInitNames }
  let st := if ctx.isFunction then st else clearUnused st (n.inputs.filterMap id)
  .ok (newNodes, inits, { st with modified := true })

/-! ### visit_graph -/

def visitSubs (vg : St → Graph → St × Graph) (st : St) : List (String × Graph) → St × List (String × Graph)
  | [] => (st, [])
  | (k, g) :: rest =>
    let (st, g') := vg st g
    let (st, rest') := visitSubs vg st rest
    (st, (k, g') :: rest')

/-- The node loop of `visit_graph`.  New nodes of a replacement are inserted right after the
replaced node and are therefore visited next (onnx_ir's linked list iterates over insertions). -/
def visitNodes (ctx : Ctx) (vg : St → Graph → St × Graph) :
    Nat → St → List Node → List Node → List (Name × String) → St × List Node × List (Name × String)
  | 0, st, todo, acc, ai => ({ st with err := some "unmodelled: step fuel exhausted" }, acc.reverse ++ todo, ai)
  | _ + 1, st, [], acc, ai => (st, acc.reverse, ai)
  | f + 1, st, n :: rest, acc, ai =>
    if st.err.isSome then (st, acc.reverse ++ n :: rest, ai) else
    match processNode ctx st n with
    | (.error m, st) => ({ st with err := some m }, acc.reverse ++ n :: rest, ai)
    | (.keep n', st) =>
      let (st, subs') := visitSubs vg st n'.subs
      visitNodes ctx vg f st rest (n'.setSubs subs' :: acc) ai
    | (.repl n' r, st) =>
      match applyRepl ctx st n' r with
      | .error m => ({ st with err := some m }, acc.reverse ++ n :: rest, ai)
      | .ok (newNodes, inits, st) => visitNodes ctx vg f st (newNodes ++ rest) acc (ai ++ inits)

/-- `_sym_value_can_replace_graph_output` + the output loop of `visit_graph`. -/
def replaceOutputs (st : St) (nodes : List Node) : List Name → St × List Name
  | [] => (st, [])
  | o :: rest =>
    let cont (st : St) (o' : Name) : St × List Name :=
      let (st, rest') := replaceOutputs st nodes rest
      (st, o' :: rest')
    match st.getSym (some o) with
    | some (.alias y) =>
      if !(nodes.any (·.outputs.contains y)) then cont (st.note "out:noproducer") o
      else if st.gouts.contains y then cont (st.note "out:alreadyoutput") o
      else cont ({ st with gouts := y :: st.gouts.erase o, modified := true }.note "out:replaced") y
    | _ => cont st o

def stepFuel (g : Graph) : Nat := 64 + 16 * g.nodes.length

def visitGraph (ctx : Ctx) : Nat → St → Graph → St × Graph
  | 0, st, g => ({ st with err := some "unmodelled: nesting deeper than maxDepth" }, g)
  | d + 1, st, g =>
    let (st, nodes, added) := visitNodes ctx (visitGraph ctx d) (stepFuel g + 16 * st.uses.length) st g.nodes [] []
    if st.err.isSome then (st, Graph.mk g.inputs (g.inits ++ added) nodes g.outputs) else
    let (st, outs) := replaceOutputs st nodes g.outputs
    (st, Graph.mk g.inputs (g.inits ++ added) nodes outs)

def pruneInits (removed : List Name) : Nat → Graph → Graph
  | 0, g => g
  | d + 1, g =>
    Graph.mk g.inputs (g.inits.filter fun (x, _) => !removed.contains x)
      (g.nodes.map fun n => n.setSubs (n.subs.map fun (k, sg) => (k, pruneInits removed d sg))) g.outputs

/-! ### initial state -/

def collect (f : Graph → List Name) : Nat → Graph → List Name
  | 0, _ => []
  | d + 1, g => f g ++ g.nodes.flatMap fun n => n.subs.flatMap fun (_, sg) => collect f d sg

def initialState (g : Graph) (info : List (Name × VInfo)) : St :=
  let uses := (collect (fun g => g.nodes.flatMap fun n => n.inputs.filterMap id) maxDepth g)
  let st : St := { info := info,
                   gins := collect Graph.inputs maxDepth g,
                   gouts := collect Graph.outputs maxDepth g,
                   initNames := collect (fun g => g.inits.map (·.1)) maxDepth g,
                   initDisplay := collect (fun g => g.inits.map (·.1)) maxDepth g }
  uses.foldl (fun st x => st.incUse x) st

/-- `FoldConstantsPass.call` on a model's main graph (before `NameFixPass`). -/
def foldGraph (ctx : Ctx) (info : List (Name × VInfo)) (g : Graph) : St × Graph :=
  let (st, g') := visitGraph ctx maxDepth (initialState g info) g
  (st, pruneInits st.removed maxDepth g')

/-- does any node (at any depth) read `x`? (`Value.uses()`) -/
def readsName : Nat → Graph → Name → Bool
  | 0, _, _ => false
  | d + 1, g, x => g.nodes.any fun n => n.inputs.contains (some x) || n.subs.any fun (_, sg) => readsName d sg x

/-- `visit_function`, after the node loop (commits 26dd9fc, a9715ec): a function body cannot hold initializers; whatever an inlined
If branch brought along and is still read — or is an output of the body — becomes a `Constant` node at the top of the body,
under the same name. -/
def initsToConstants (st : St) (g : Graph) : St × Graph :=
  let live := g.inits.filter fun (x, _) => readsName maxDepth g x || g.outputs.contains x
  if g.inits.isEmpty then (st, g) else
  (if live.isEmpty then st else { st with modified := true },
   Graph.mk g.inputs [] (live.map (fun (x, t) => mkNode "Constant" [] [x] [("value", .tensor t)]) ++ g.nodes) g.outputs)

/-- `FoldConstantsPass.visit_function` on a function body (before `NameFixPass`) -/
def foldFunction (ctx : Ctx) (info : List (Name × VInfo)) (g : Graph) : St × Graph :=
  let (st, g') := foldGraph ctx info g
  if st.err.isSome then (st, g') else initsToConstants st g'

/-! ### node-level shape inference (`_do_inference`): which constants it may be given -/

/-- `_do_inference.get_constant_value`: the constant data handed to `onnx.shape_inference.infer_node_outputs`
for an input — `_get_numpy_value(x, size_limit=20)`. -/
def inferenceConstant (st : St) (x : Name) : Option CInfo := numpyValue st (some x) none (some 20)

/-- the `input_data` dictionary of one `_do_inference` call -/
def inferenceData (st : St) (n : Node) : List (Name × CInfo) :=
  (n.inputs.filterMap id).filterMap fun x => (inferenceConstant st x).map fun c => (x, c)

/-! ### optimize_ir pipeline (onnx_ir passes and the rewrite pass are parameters) -/

structure IrPasses where
  inline : Graph → Graph
  rewrite : Graph → Graph × Bool          -- RewritePass(default rules): result, modified
  dce : Graph → Graph × Bool              -- RemoveUnusedNodes
  liftConstants : Graph → Graph
  liftSubgraphInits : Graph → Graph
  dedup : Graph → Graph
  cse : Graph → Graph
  outputFix : Graph → Graph
  nameFix : Graph → Graph

structure OptOpts where
  numIterations : Nat
  stopIfNoChange : Bool
  inline : Bool

/-- `PassManager([Fold, Rewrite, DCE, …], steps=n, early_stop)`; `fold` is the folding pass with
whatever annotations the current graph carries. -/
def iterStep (P : IrPasses) (fold : Graph → Graph × Bool) (g : Graph) : Graph × Bool :=
  let r1 := fold g
  let r2 := P.rewrite (if r1.2 then P.nameFix r1.1 else r1.1)
  let r3 := P.dce r2.1
  (r3.1, r1.2 || r2.2 || r3.2)

def iterate (P : IrPasses) (fold : Graph → Graph × Bool) (earlyStop : Bool) : Nat → Graph → Graph
  | 0, g => g
  | k + 1, g =>
    let r := iterStep P fold g
    if earlyStop && !r.2 then r.1 else iterate P fold earlyStop k r.1

def optimizeIr (P : IrPasses) (fold : Graph → Graph × Bool) (o : OptOpts) (g : Graph) : Graph :=
  let g := if o.inline then P.inline g else g
  let g := iterate P fold o.stopIfNoChange o.numIterations g
  P.nameFix (P.outputFix (P.cse (P.dedup (P.liftSubgraphInits (P.liftConstants (P.dce g).1)))))

end OV.C03
