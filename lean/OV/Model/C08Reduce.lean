import OV.Model.C08View
/-!
# C08 — reductions' bookkeeping: which axes disappear / become 1.  The reduction itself
(sum, max, …) is an uninterpreted operator (assumption A-op); only the output *shape* is modelled.
-/
namespace OV.C08

/-- PyTorch reduction over a dim list: dims wrapped (rank 0 counts as rank 1), no duplicates, empty
list = all axes. -/
def torchReduce (s : Shape) (dims : List Int) (keepdim : Bool) : Option Shape :=
  match dims.mapM (torchDim s.length) with
  | none => none
  | some ax =>
    if hasDup ax then none
    else
      let ax := if ax.isEmpty then List.range s.length else ax
      if keepdim then some (s.zipIdx.map (fun p => if ax.contains p.2 then 1 else p.1))
      else some (removeIdxs s ax)

/-- A constant `axes` input on a rank-0 tensor is rejected by ONNX shape inference; a *computed*
axes input (`Reshape(dim,[-1])`) is accepted by onnxruntime's kernels when it is 0 or -1. -/
def reduceDyn (s : Shape) (axes : List Int) (keepdims : Bool) : Option Shape :=
  if s.length = 0 then (if axes.all (fun a => a == 0 || a == -1) then some [] else none)
  else reduceOp s axes keepdims

/-- Conversion of the INT64 reduction back to BOOL: `all` casts, `any` compares with 0 (fix a29f9e1: the
`ReduceMax` of an empty set is INT64_MIN, which would cast to True). -/
def boolOf (red x : String) : String :=
  if red == "ReduceMax" then tOp "Greater" [x, "0"] else tOp "Cast" [x] [("to", "9")]

namespace sum
def model (s : Shape) : Option Shape := if s.length = 0 then some s else reduceOp s [] false
/-- `dtype` given (`cast` = ONNX dtype code) → the INPUT is cast before reducing (fix 309482c; the result was cast before that). -/
def castIn (cast : Option Nat) : String :=
  match cast with | some d => tOp "Cast" ["x0"] [("to", toString d)] | none => "x0"
def term (r : Nat) (cast : Option Nat := none) : String :=
  if r = 0 then tOp "Identity" [castIn cast]
  else tOp "ReduceSum" [castIn cast] [("keepdims", "0"), ("noop_with_empty_axes", "0")]
def spec (_ : Shape) : Option Shape := some []
end sum

namespace sum_dim
/-- `dims = none` is Python `None`. -/
def model (s : Shape) (dims : Option (List Int)) (keep : Bool) : Option Shape :=
  if s.length = 0 then some s
  else match dims with
    | none => reduceOp s [] keep
    | some ds => reduceOp s ds keep
def term (r : Nat) (dims : Option (List Int)) (keep : Bool) (cast : Option Nat := none) : String :=
  let x := sum.castIn cast
  if r = 0 then tOp "Identity" [x]
  else match dims with
    | none => tOp "ReduceSum" [x] [("keepdims", tB keep), ("noop_with_empty_axes", "0")]
    | some ds => tOp "ReduceSum" [x, tInts ds] [("keepdims", tB keep), ("noop_with_empty_axes", "0")]
def spec (s : Shape) (dims : Option (List Int)) (keep : Bool) : Option Shape :=
  torchReduce s (dims.getD []) keep
end sum_dim

namespace mean_dim
def model (s : Shape) (dims : List Int) (keep : Bool) : Option Shape :=
  if s.length = 0 then some s else reduceOp s dims keep
def term (r : Nat) (dims : List Int) (keep : Bool) (cast : Option Nat := none) : String :=
  let x := sum.castIn cast
  if r = 0 then x
  else tOp "ReduceMean" [x, tOp "Reshape" [tInts dims, "[-1]"] [("allowzero", "0")]]
    [("keepdims", tB keep), ("noop_with_empty_axes", "0")]
def spec (s : Shape) (dims : List Int) (keep : Bool) : Option Shape := torchReduce s dims keep
end mean_dim

namespace amax
/-- `aten_amax` / `aten_amin` are scripted: one call node whose body is `ReduceMax(self, dim, keepdims)` (they were trace-only between
d6091ac and b7dc1f9). -/
def model (s : Shape) (dims : List Int) (keep : Bool) : Option Shape := reduceOp s dims keep
/-- `torch.amax/amin` refuse a reduction over a zero-size axis. -/
def specOk (s : Shape) (dims : List Int) : Bool :=
  match dims.mapM (torchDim s.length) with
  | none => false
  | some ax => if ax.isEmpty then numel s != 0 else ax.all (fun a => s.length = 0 || s.getD a 0 != 0)
def term (name : String) (dims : List Int) (keep : Bool) : String :=
  tOp ("pkg.onnxscript.torch_lib::" ++ name) ["x0", tInts dims] [("keepdim", tB keep)]
def spec (s : Shape) (dims : List Int) (keep : Bool) : Option Shape :=
  if specOk s dims then torchReduce s dims keep else none
end amax

namespace all_
/-- `aten_all` / `aten_any` (no dim). -/
def model (s : Shape) : Option Shape := if s.length = 0 then some s else reduceOp s [] false
def term (red : String) (r : Nat) : String :=
  if r = 0 then tOp "Cast" ["x0"] [("to", "9")]
  else boolOf red (tOp red [tOp "Cast" [tOp "Cast" ["x0"] [("to", "9")]] [("to", "7")]]
      [("keepdims", "0"), ("noop_with_empty_axes", "0")])
def spec (_ : Shape) : Option Shape := some []
end all_

namespace all_dim
def model (s : Shape) (dim : Int) (keep : Bool) : Option Shape := reduceDyn s [dim] keep
def termOn (red x : String) (dim : Int) (keep : Bool) : String :=
  boolOf red (tOp red [tOp "Cast" [tOp "Cast" [x] [("to", "9")]] [("to", "7")],
      tOp "Reshape" [tI dim, "[-1]"] [("allowzero", "0")]]
      [("keepdims", tB keep), ("noop_with_empty_axes", "0")])
def term (red : String) (dim : Int) (keep : Bool) : String := termOn red "x0" dim keep
def spec (s : Shape) (dim : Int) (keep : Bool) : Option Shape := torchReduce s [dim] keep
end all_dim

namespace all_dims
/-- fix 1822ee3: `dim is None` reduces everything, an explicit empty list returns `Cast(self, BOOL)`. -/
def model (s : Shape) (dims : Option (List Int)) (keep : Bool) : Option Shape :=
  match dims with
  | none => if s.length = 0 then some s else reduceOp s [] keep
  | some [] => some s
  | some ds =>
    match ds.foldlM (fun acc d => reduceDyn acc [d] true) s with
    | none => none
    | some r => if keep ∨ s.length = 0 then some r else squeezeOp r ds   -- fix f89de7f: no Squeeze on a 0-d input
def term (red : String) (r : Nat) (dims : Option (List Int)) (keep : Bool) : String :=
  match dims with
  | none =>
    (if r = 0 then tOp "Cast" ["x0"] [("to", "9")]
     else boolOf red (tOp red [tOp "Cast" [tOp "Cast" ["x0"] [("to", "9")]] [("to", "7")]]
      [("keepdims", tB keep), ("noop_with_empty_axes", "0")]))
  | some [] => tOp "Cast" ["x0"] [("to", "9")]
  | some ds =>
    let body := ds.foldl (fun acc d => all_dim.termOn red acc d true) "x0"
    if keep ∨ r = 0 then body else tOp "Squeeze" [body, tInts ds]
/-- `aten::all.dims(x, int[]? dim=None)`: `None` reduces everything; an explicit empty list reduces
nothing (`allow_empty_dims` in ReduceOps.cpp). -/
def spec (s : Shape) (dims : Option (List Int)) (keep : Bool) : Option Shape :=
  match dims with
  | none => torchReduce s [] keep
  | some [] => some s
  | some ds => torchReduce s ds keep
end all_dims

namespace argmax
/-- `dim = none` is Python `None`. -/
def model (s : Shape) (dim : Option Int) (keep : Bool) : Option Shape :=
  match dim with
  | none =>
    match reshape false s [-1] with
    | none => none
    | some flat =>
      match argOp flat 0 keep with
      | none => none
      | some r =>
        if s.length = 0 then some (squeezeAll r)
        else if keep then reshape false r (List.replicate s.length 1)   -- fix 3081284: [1] * rank
        else some r
  | some d =>
    if s.length = 0 then
      match reshape false s [-1] with
      | none => none
      | some flat => (argOp flat d keep).map squeezeAll
    else argOp s d keep
def term (name : String) (r : Nat) (dim : Option Int) (keep : Bool) : String :=
  let flat := tOp "Reshape" ["x0", "[-1]"] [("allowzero", "0")]
  let arg (x : String) (a : Int) := tOp name [x] [("axis", tI a), ("keepdims", tB keep), ("select_last_index", "0")]
  match dim with
  | none =>
    if r = 0 then tOp "Squeeze" [arg flat 0]
    else if keep then tOp "Reshape" [arg flat 0, tInts (List.replicate r 1)] [("allowzero", "0")]
    else arg flat 0
  | some d => if r = 0 then tOp "Squeeze" [arg flat d] else arg "x0" d
/-- `torch.argmax(x, dim=None, keepdim)`: no dim → the flattened index, shape `[]` (or all ones with
keepdim); with dim → that axis reduced; an empty reduction is an error. -/
def spec (s : Shape) (dim : Option Int) (keep : Bool) : Option Shape :=
  match dim with
  | none =>
    if numel s = 0 then none
    else if keep then some (List.replicate s.length 1) else some []
  | some d =>
    match torchDim s.length d with
    | none => none
    | some a =>
      if s.length = 0 then some []
      else if s.getD a 0 = 0 then none
      else if keep then some (setAt s a 1) else some (removeIdxs s [a])
end argmax

namespace prod
def model (s : Shape) : Option Shape := reduceOp s [] false
/-- `dtype` given → the input is cast to it first; otherwise integer inputs are first cast to INT64. -/
def term (isInt : Bool) (cast : Option Nat := none) : String :=
  let x := match cast with
    | some d => tOp "Cast" ["x0"] [("to", toString d)]
    | none => if isInt then tOp "Cast" ["x0"] [("to", "7")] else "x0"
  tOp "ReduceProd" [x] [("keepdims", "0"), ("noop_with_empty_axes", "0")]
def spec (_ : Shape) : Option Shape := some []
end prod

namespace prod_dim
/-- fix f89de7f: a 0-d input returns `Identity(self)` (ONNX rejects every axis for rank 0). -/
def model (s : Shape) (dim : Int) (keep : Bool) : Option Shape :=
  if s.length = 0 then some s else reduceOp s [dim] keep
def term (r : Nat) (dim : Int) (keep : Bool) (cast : Option Nat := none) : String :=
  let x := match cast with | some d => tOp "Cast" ["x0"] [("to", toString d)] | none => "x0"
  if r = 0 then tOp "Identity" [x]
  else tOp "ReduceProd" [x, tInts [dim]] [("keepdims", tB keep), ("noop_with_empty_axes", "0")]
def spec (s : Shape) (dim : Int) (keep : Bool) : Option Shape := torchReduce s [dim] keep
end prod_dim

namespace cumsum
def model (s : Shape) (dim : Int) : Option Shape :=
  if s.length = 0 then some s else (normAxis s.length dim).map (fun _ => s)
/-- `dtype` given → the input is cast BEFORE accumulating (`cast` is the ONNX dtype code). -/
def term (r : Nat) (dim : Int) (cast : Option Nat := none) : String :=
  let x := match cast with | some d => tOp "Cast" ["x0"] [("to", toString d)] | none => "x0"
  if r = 0 then tOp "Identity" [x] else tOp "CumSum" [x, tI dim] [("exclusive", "0"), ("reverse", "0")]
def spec (s : Shape) (dim : Int) : Option Shape := (torchDim s.length dim).map (fun _ => s)
end cumsum

end OV.C08
