/-!
# C12 — which arguments of an operator call are inputs, and at which position (core Lean only)

Restates `onnxscript/_internal/param_manipulation.py: separate_input_attributes_from_arguments` as of /repo commit
b7afd5e: the loop over `op_signature.params` (inputs first, then attributes, as `OpSignature.from_op_schema` builds
them); positional arguments, then arguments given by keyword; the variadic input exhausting the remaining positional
arguments; positional arguments beyond the inputs becoming attributes in schema order; an omitted optional input
leaving a `None` placeholder so that a later input given by keyword keeps its own position (`op.Clip(x, max=hi)` is
`Clip(x, None, hi)`), placeholders remaining at the end being dropped; the "Required input … was not provided"
error; and the `allow_extra_args=False` check used by the graph builder
(`BuilderBase._partition_inputs_attributes`) — the converter (`Converter._translate_call_expr`) passes the default
`allow_extra_args=True`, i.e. silently drops surplus positional arguments.  (`fill_defaults=False` as both callers
pass it; unknown keywords are not modelled.)
-/
namespace OV.Call

inductive Param
  | input (variadic : Bool) (required : Bool)
  | attr (required : Bool) (hasDefault : Bool)
  deriving DecidableEq, Repr

inductive PErr | missing | tooMany
  deriving DecidableEq, Repr

/-- Where an argument came from: the `i`-th positional argument, or the keyword argument naming parameter `i`. -/
inductive Src
  | pos (i : Nat)
  | kw (i : Nat)
  deriving DecidableEq, Repr

/-- Loop state: `onnx_inputs` (`none` = the `None` placeholder of an omitted optional input), `onnx_attributes` as
`(parameter index, source)`, and `trailing_placeholders`. -/
structure Sep where
  inputs : List (Option Src)
  attrs : List (Nat × Src)
  pending : Nat
  deriving DecidableEq, Repr

/-- The loop body over `enumerate(op_signature.params)` from parameter index `i` on; `n` is `len(args)` as the loop
sees it (it becomes 0 after a variadic input: `args = []`); `kws` are the parameter indices given by keyword. -/
def sepFrom (kws : List Nat) : List Param → Nat → Nat → Sep → Except PErr Sep
  | [], _, _, acc => .ok acc
  | .input true _ :: rest, i, n, acc =>
    sepFrom kws rest (i + 1) 0
      { acc with inputs := acc.inputs ++ (List.range (n - i)).map (fun k => some (.pos (k + i))),
                 pending := if n - i = 0 then acc.pending else 0 }
  | .input false req :: rest, i, n, acc =>
    if i < n then sepFrom kws rest (i + 1) n { acc with inputs := acc.inputs ++ [some (.pos i)], pending := 0 }
    else if kws.contains i then
      sepFrom kws rest (i + 1) n { acc with inputs := acc.inputs ++ [some (.kw i)], pending := 0 }
    else if req then .error .missing
    else sepFrom kws rest (i + 1) n { acc with inputs := acc.inputs ++ [none], pending := acc.pending + 1 }
  | .attr req dflt :: rest, i, n, acc =>
    if i < n then sepFrom kws rest (i + 1) n { acc with attrs := acc.attrs ++ [(i, .pos i)] }
    else if kws.contains i then sepFrom kws rest (i + 1) n { acc with attrs := acc.attrs ++ [(i, .kw i)] }
    else if dflt then sepFrom kws rest (i + 1) n acc
    else if req then .error .missing
    else sepFrom kws rest (i + 1) n acc

def hasVariadic (ps : List Param) : Bool :=
  ps.any (fun p => match p with | .input true _ => true | _ => false)

/-- `separate_input_attributes_from_arguments(op_signature, args, kwargs, fill_defaults=False, allow_extra_args=…)`:
the inputs with the trailing placeholders dropped, and the attributes. -/
def separate (ps : List Param) (n : Nat) (kws : List Nat) (allowExtra : Bool) :
    Except PErr (List (Option Src) × List (Nat × Src)) :=
  match sepFrom kws ps 0 n ⟨[], [], 0⟩ with
  | .error e => .error e
  | .ok r =>
    if !allowExtra && !hasVariadic ps && decide (ps.length < n) then .error .tooMany
    else .ok (r.inputs.take (r.inputs.length - r.pending), r.attrs)

end OV.Call
