/-!
# C12 — which positional arguments of an operator call are inputs (core Lean only)

Restates `onnxscript/_internal/param_manipulation.py: separate_input_attributes_from_arguments` for calls with
positional arguments only (the form in which literals reach `cast_inputs`): the loop over `op_signature.params`
(inputs first, then attributes, as `OpSignature.from_op_schema` builds them), the variadic input exhausting the
remaining arguments, positional arguments beyond the inputs becoming attributes in schema order, the
"Required input … was not provided" error, and the `allow_extra_args=False` check used by the graph builder
(`BuilderBase._partition_inputs_attributes`); the converter (`Converter._translate_call_expr`) passes the default
`allow_extra_args=True`, i.e. silently drops surplus positional arguments.
-/
namespace OV.Call

inductive Param
  | input (variadic : Bool) (required : Bool)
  | attr (required : Bool) (hasDefault : Bool)
  deriving DecidableEq, Repr

inductive PErr | missing | tooMany
  deriving DecidableEq, Repr

/-- Result: the argument indices taken as inputs (in order) and the `(parameter index, argument index)` pairs
taken as attributes. -/
structure Sep where
  inputs : List Nat
  attrs : List (Nat × Nat)
  deriving DecidableEq, Repr

/-- The loop body over `enumerate(op_signature.params)` from parameter index `i` on; `n` is `len(args)` as the loop
sees it (it becomes 0 after a variadic input: `args = []`). -/
def sepFrom : List Param → Nat → Nat → Sep → Except PErr Sep
  | [], _, _, acc => .ok acc
  | .input true _ :: rest, i, n, acc =>
    sepFrom rest (i + 1) 0 { acc with inputs := acc.inputs ++ (List.range (n - i)).map (· + i) }
  | .input false req :: rest, i, n, acc =>
    if i < n then sepFrom rest (i + 1) n { acc with inputs := acc.inputs ++ [i] }
    else if req then .error .missing
    else sepFrom rest (i + 1) n acc
  | .attr req dflt :: rest, i, n, acc =>
    if i < n then sepFrom rest (i + 1) n { acc with attrs := acc.attrs ++ [(i, i)] }
    else if dflt then sepFrom rest (i + 1) n acc
    else if req then .error .missing
    else sepFrom rest (i + 1) n acc

def hasVariadic (ps : List Param) : Bool :=
  ps.any (fun p => match p with | .input true _ => true | _ => false)

/-- `separate_input_attributes_from_arguments(op_signature, args, {}, fill_defaults=False, allow_extra_args=…)`. -/
def separate (ps : List Param) (n : Nat) (allowExtra : Bool) : Except PErr Sep :=
  match sepFrom ps 0 n ⟨[], []⟩ with
  | .error e => .error e
  | .ok r => if !allowExtra && !hasVariadic ps && decide (ps.length < n) then .error .tooMany else .ok r

end OV.Call
