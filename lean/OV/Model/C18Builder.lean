import OV.Model.C18NN
/-!
# C18 — model of `GraphBuilder` / `OpBuilder` naming and structure

Core Lean only (the driver `drv_c18` is compiled from this file).

What is restated here, and from where (`/repo/onnxscript/_internal/`):

* A *trace* (`List Item`) is what a user program does to one root `GraphBuilder`: declare an input
  (`GraphBuilder.input`), call an operator (`OpBuilder.__getattr__` → `BuilderBase.call_op`,
  `tape_builder.py:333`), push/pop a module scope, call a function as a node (`GraphBuilder.call`,
  `builder.py:704`), inline it (`call_inline`, `builder.py:751` + `_inliner.instantiate`), open and
  close a subgraph (`GraphBuilder.subgraph` → `build_graph`, `builder.py:211`: the trace function runs
  against a *child* builder whose scope stack is a copy of the parent's), declare an output
  (`add_output`).
* Values are objects with a mutable `name` (`ir.Value`): the state keeps `vnames : id ↦ name`;
  nodes refer to value ids, so a later rename (declared subgraph output, `_outputs=` of
  `call_inline`, the re-qualification of inlined outputs) is seen by every use — as in Python.
* `outNames` — `GraphBuilder._adapt_outputs` (`builder.py:493`): `count = self._node_count()` = nodes of the root graph
  **and of all subgraphs of the builder tree** (commit e9794aa; before it the builder's own graph only); one output `"{op}_{count}"`, several `"{op}_{count}_{i}"`, explicit strings as
  given; all passed through `_qualify_value_name` (`"v_" + ".".join(non-empty scopes) + "." + name`).
* node names — `_generate_node_name` (`"{op}_node_{count}"` through `_qualify_node_name`, `/`-joined),
  an explicit `_name=` is taken as is.
* literals — `_get_or_create_constant` (`builder.py:598`): root-owned cache keyed by `(repr(value), dtype)` (commit 610a39a),
  names `const_{value}_{dtype}` / `const_1d_{len(cache)}` (`tape_builder._constant_name`), registered as
  initializers of the **root** graph, never scope-qualified.  *Which* dtype a literal gets is C12's
  business: the trace carries the resolved dtype suffix and the numeric identity of the value
  (kept in the wire format; unused since the key is the `repr`).  List literals here are homogeneous
  `int` lists (`Lit.ints`); lists mixing Python types (commit fa769b8: cached with dtype `None`, element type left to
  NumPy) are C12's subject and are not generated.
* `doInline` — `_inliner.instantiate` (`prefix + node.name`, `prefix + output.name`, formals ↦ actuals)
  followed by `call_inline`'s renaming: non-final outputs `_qualify_value_name(name)`, final outputs the
  qualified `_outputs` names or `_qualify_value_name(current name)` — only for values produced by the
  inlined nodes (commit e7b46e0; before it a function output that is one of the caller's own values, a
  function returning its input, was renamed in place).
-/
namespace OV.C18

inductive Lit
  | num (repr : String) (key : Int) (dt : String)
  | ints (vals : List Int) (dt : String)
  deriving DecidableEq, Repr

inductive Arg
  | ref (h : Nat)
  | lit (l : Lit)
  | none
  deriving DecidableEq, Repr

inductive Outs
  | auto (n : Nat)
  | named (ns : List String)
  deriving DecidableEq, Repr

/-- attribute values are carried as canonical text (`i:0`, `f:0.5`, `is:1;2`, `s:…`, `t` for a tensor). -/
abbrev AVal := String

/-- an attribute of a body node: a value, or a reference to an attribute parameter of the function. -/
inductive FAttr
  | val (v : AVal)
  | ref (param : String)
  deriving DecidableEq, Repr

/-- a node of a function body, over value *names* local to the body. -/
structure FNode where
  name : String
  domain : String
  op : String
  ins : List (Option String)
  outs : List String
  attrs : List (String × FAttr)
  deriving DecidableEq, Repr

structure Fn where
  name : String
  domain : String
  overload : String
  formals : List String
  nodes : List FNode
  outputs : List String
  /-- declared attribute parameters with their default (`none`: required). -/
  attrParams : List (String × Option AVal)
  deriving DecidableEq, Repr

inductive Item
  | input (name : String)
  | op (opType : String) (args : List Arg) (outs : Outs) (nodeName : Option String) (graphs : List Nat)
      (attrs : List (String × AVal))
  | push (name : String)
  | pop
  | call (f : Nat) (args : List Arg) (outs : Option Outs) (attrs : List (String × AVal))
  | inline (f : Nat) (args : List Arg) (outs : Option (List String)) (pfx : String) (attrs : List (String × AVal))
  | beginSub (gname : String) (inputs : List String)
  | endSub (rets : List Nat) (declared : List String)
  | output (h : Nat) (name : Option String)
  /-- the trace function of the innermost open `subgraph(...)` raises; the caller catches the exception outside
      `subgraph` and goes on using the enclosing builder. -/
  | abortSub
  deriving DecidableEq, Repr

structure Node where
  name : String
  domain : String
  op : String
  ins : List (Option Nat)
  outs : List Nat
  graphs : List Nat
  overload : String
  attrs : List (String × AVal)
  deriving DecidableEq, Repr

/-- one `GraphBuilder` with its `ir.Graph`. -/
structure Frame where
  gname : String
  inputs : List Nat
  nodes : List Node
  scope : List String
  outputs : List Nat
  deriving DecidableEq, Repr

/-- cache key `(repr(value), dtype)` (commit 610a39a; before it `(value, dtype)`, under which
    `2 == 2.0 == True·2` shared an entry). -/
inductive CKey
  | num (repr : String) (dt : String)
  | ints (vals : List Int) (dt : String)
  deriving DecidableEq, Repr

/-- how a value's name was made: automatically from (scope, op, per-graph node count, output index), or
    any other way (`raw`: user-given, constant, inlined). -/
inductive VKey
  | raw (s : String)
  | auto (parts : List String) (op : String) (count : Nat) (idx : Option Nat)
  deriving DecidableEq, Repr

structure St where
  vnames : List String
  vkeys : List VKey
  handles : List (Option Nat)
  cur : Frame
  stack : List Frame
  cache : List (CKey × Nat)
  inits : List Nat
  done : List Frame
  funcs : List String
  err : Option String
  deriving Repr

def St.init : St :=
  { vnames := [], vkeys := [], handles := [], cur := ⟨"main", [], [], [], []⟩, stack := [], cache := [],
    inits := [], done := [], funcs := [], err := none }

/-! ## qualification -/

def scopeParts (f : Frame) : List String := f.scope.filter (· ≠ "")

def qualifyParts (parts : List String) (n : String) : String :=
  if parts.isEmpty then "v_" ++ n else "v_" ++ joinWith "." parts ++ "." ++ n

def qualifyValue (f : Frame) (n : String) : String := qualifyParts (scopeParts f) n

def qualifyNode (f : Frame) (n : String) : String :=
  let parts := scopeParts f
  if parts.isEmpty then n else joinWith "/" parts ++ "/" ++ n

/-! ## values -/

def autoBase (op : String) (count : Nat) : String :=
  if op = "" then toString count else op ++ "_" ++ toString count

/-- the rendering with the output index last (`{op}_{count}_{i}`): /repo before the fix C18-D20f. -/
def VKey.renderOld : VKey → String
  | .raw s => s
  | .auto parts op c none => qualifyParts parts (autoBase op c)
  | .auto parts op c (some i) => qualifyParts parts (autoBase op c ++ "_" ++ toString i)

/-- `"v_"` + the dotted scope + `"."` (what `_qualify_value_name` puts in front of a name). -/
def qualifyHead (parts : List String) : String :=
  if parts.isEmpty then "v_" else "v_" ++ joinWith "." parts ++ "."

/-- `"{op}_"` (nothing for an empty op type). -/
def opHead (op : String) : String := if op = "" then "" else op ++ "_"

/-- the rendering with the node count **last** (`{op}_{count}`, `{op}_{i}_{count}`; proposed fix C18-D20f). -/
def VKey.renderNew : VKey → String
  | .raw s => s
  | .auto parts op c none => qualifyHead parts ++ opHead op ++ toString c
  | .auto parts op c (some i) => qualifyHead parts ++ opHead op ++ toString i ++ "_" ++ toString c

/-- which order `_adapt_outputs` of the pinned /repo uses for multi-output names (`true`: count last). -/
def countLast : Bool := true

def VKey.render (k : VKey) : String := if countLast then k.renderNew else k.renderOld

def newValueK (st : St) (k : VKey) : St × Nat :=
  ({ st with vnames := st.vnames ++ [k.render], vkeys := st.vkeys ++ [k] }, st.vnames.length)

def newValue (st : St) (name : String) : St × Nat := newValueK st (.raw name)

def newValuesK (st : St) : List VKey → St × List Nat
  | [] => (st, [])
  | k :: r =>
    let (st1, id) := newValueK st k
    let (st2, ids) := newValuesK st1 r
    (st2, id :: ids)

def newValues (st : St) (names : List String) : St × List Nat := newValuesK st (names.map .raw)

def renameValue (st : St) (id : Nat) (f : String → String) : St :=
  { st with vnames := st.vnames.modify id f }

def nameOf (st : St) (id : Nat) : String := st.vnames.getD id ""

/-! ## literals -/

def litKey : Lit → CKey
  | .num r _ dt => .num r dt
  | .ints v dt => .ints v dt

def constName (l : Lit) (cacheLen : Nat) : String :=
  match l with
  | .num r _ dt => if dt = "" then "const_" ++ r else "const_" ++ r ++ "_" ++ dt
  | .ints _ _ => "const_1d_" ++ toString cacheLen

def cacheFind (c : List (CKey × Nat)) (k : CKey) : Option Nat :=
  (c.find? (fun e => e.1 = k)).map (·.2)

def promote (st : St) (l : Lit) : St × Nat :=
  match cacheFind st.cache (litKey l) with
  | some id => (st, id)
  | none =>
    let (st1, id) := newValue st (constName l st.cache.length)
    ({ st1 with cache := st1.cache ++ [(litKey l, id)], inits := st1.inits ++ [id] }, id)

def resolveArgs (st : St) : List Arg → St × List (Option Nat)
  | [] => (st, [])
  | .ref h :: r =>
    let (st1, ins) := resolveArgs st r
    (st1, (st.handles.getD h none) :: ins)
  | .none :: r =>
    let (st1, ins) := resolveArgs st r
    (st1, none :: ins)
  | .lit l :: r =>
    let (st1, id) := promote st l
    let (st2, ins) := resolveArgs st1 r
    (st2, some id :: ins)

/-! ## outputs and node names -/

/-- `_adapt_outputs`: one automatic output `{op}_{count}`, several `{op}_{count}_{i}`, explicit names
    qualified; `count` is the node count of the builder's **own** graph. -/
def outKeys (f : Frame) (count : Nat) (op : String) : Outs → List VKey
  | .auto n =>
    if n = 1 then [.auto (scopeParts f) op count none]
    else (List.range n).map (fun i => .auto (scopeParts f) op count (some i))
  | .named ns => ns.map (fun s => .raw (qualifyValue f s))

def autoNodeName (f : Frame) (count : Nat) (op : String) : String :=
  qualifyNode f (op ++ "_node_" ++ toString count)

def sumNodes (fs : List Frame) : Nat := (fs.map (·.nodes.length)).sum

/-- `GraphBuilder._node_count` (commit e9794aa): nodes of the root graph and of every subgraph built
    through this builder tree so far.  `total = false` is the behaviour before that commit
    (`self.graph.num_nodes()`, the builder's own graph only), kept for the refutation witnesses; the same
    flag also selects the `call_inline` output renaming before commit e7b46e0 (see `renameFinals`). -/
def nodeCount (total : Bool) (st : St) : Nat :=
  if total then st.cur.nodes.length + sumNodes st.stack + sumNodes st.done else st.cur.nodes.length

def addNode (st : St) (n : Node) : St :=
  { st with cur := { st.cur with nodes := st.cur.nodes ++ [n] } }

/-- a refusal (the builder raises).  The caller may catch the exception and go on: the trace continues on the
    state the raising call left behind; `err` lists the refusals in order. -/
def fail (st : St) (e : String) : St :=
  match st.err with
  | some p => { st with err := some (p ++ "," ++ e) }
  | none => { st with err := some e }

/-! ## the operations -/

def doOp (total : Bool) (st : St) (opType : String) (args : List Arg) (outs : Outs) (nodeName : Option String)
    (graphs : List Nat) (attrs : List (String × AVal)) : St :=
  let (st1, ins) := resolveArgs st args
  let keys := outKeys st1.cur (nodeCount total st1) opType outs
  let nname := nodeName.getD (autoNodeName st1.cur (nodeCount total st1) opType)
  let (st2, ids) := newValuesK st1 keys
  let st3 := addNode st2 ⟨nname, "", opType, ins, ids, graphs, "", attrs⟩
  { st3 with handles := st3.handles ++ ids.map some }

def doCall (total : Bool) (fns : List Fn) (st : St) (fi : Nat) (args : List Arg) (outs : Option Outs)
    (attrs : List (String × AVal)) : St :=
  match fns[fi]? with
  | none => fail st "no-such-function"
  | some f =>
    let keys := outKeys st.cur (nodeCount total st) f.name (outs.getD (.auto f.outputs.length))
    let (st1, ids) := newValuesK st keys
    let (st2, ins) := resolveArgs st1 args
    let nname := autoNodeName st2.cur (nodeCount total st2) f.name
    let st3 := addNode st2 ⟨nname, f.domain, f.name, ins, ids, [], f.overload, attrs⟩
    let fid := f.domain ++ ":" ++ f.name ++ ":" ++ f.overload
    { st3 with handles := st3.handles ++ ids.map some,
               funcs := if fid ∈ st3.funcs then st3.funcs else st3.funcs ++ [fid] }

abbrev VMap := List (String × Option Nat)

def vmapGet (m : VMap) (n : String) : Option Nat :=
  match m.find? (fun e => e.1 = n) with
  | some e => e.2
  | none => none

/-- an input of a body node through the value map (`Cloner`: a mapped value, else absent). -/
def mapIn (m : VMap) : Option String → Option Nat
  | some x => vmapGet m x
  | none => none

/-! ### attributes of an inlined body -/

def attrGet (am : List (String × AVal)) (p : String) : Option AVal :=
  (am.find? (fun e => e.1 = p)).map (·.2)

/-- `Cloner.clone_attr` with `resolve_ref_attrs=True`: a reference attribute takes the mapped value under the
    node's own attribute name; an unmapped reference is dropped. -/
def resolveAttr (am : List (String × AVal)) : String × FAttr → Option (String × FAttr)
  | (k, .val v) => some (k, .val v)
  | (k, .ref p) => (attrGet am p).map (fun v => (k, .val v))

def resolveNode (am : List (String × AVal)) (n : FNode) : FNode :=
  { n with attrs := n.attrs.filterMap (resolveAttr am) }

/-- the function with every reference attribute of its body resolved under `am`. -/
def resolveFn (am : List (String × AVal)) (f : Fn) : Fn :=
  { f with nodes := f.nodes.map (resolveNode am) }

/-- the attributes a cloned node carries: the (resolved) values. -/
def plainAttrs (as : List (String × FAttr)) : List (String × AVal) :=
  as.filterMap (fun e => match e.2 with
    | .val v => some (e.1, v)
    | .ref _ => none)

/-- the attribute map `call_inline` hands to the inliner (commit 1ed6700): the passed values, then the declared
    default of every attribute parameter that was not passed and *has* a default — whatever its value (a default
    of `0`, `0.0`, `""` or `[]` counts).  Before that commit (`total = false`): the passed values only. -/
def effectiveAttrs (total : Bool) (f : Fn) (passed : List (String × AVal)) : List (String × AVal) :=
  passed ++ (if total then
    f.attrParams.filterMap (fun e => if (attrGet passed e.1).isSome then none else e.2.map (fun v => (e.1, v)))
  else [])

/-- clone one body node (`Cloner.clone_node` + `rename`): inputs through the value map, fresh outputs
    named `prefix + name`, node name `prefix + name`. -/
def cloneNode (st : St) (m : VMap) (np : String) (n : FNode) : St × VMap × Node :=
  let ins := n.ins.map (mapIn m)
  let (st1, ids) := newValues st (n.outs.map (fun o => if o = "" then "" else np ++ o))
  let m1 := (n.outs.zip (ids.map some)) ++ m
  (st1, m1, ⟨if n.name = "" then "" else np ++ n.name, n.domain, n.op, ins, ids, [], "", plainAttrs n.attrs⟩)

def cloneNodes (st : St) (m : VMap) (np : String) : List FNode → St × VMap × List Node
  | [] => (st, m, [])
  | n :: r =>
    let (st1, m1, nd) := cloneNode st m np n
    let (st2, m2, nds) := cloneNodes st1 m1 np r
    (st2, m2, nd :: nds)

/-- the loop of `call_inline` over the cloned nodes: re-qualify non-final outputs, append the node. -/
def addInlined (st : St) (finals : List Nat) : List Node → St
  | [] => st
  | n :: r =>
    let st1 := n.outs.foldl (fun s o =>
      if nameOf s o ≠ "" ∧ o ∉ finals then renameValue s o (qualifyValue s.cur) else s) st
    addInlined (addNode st1 n) finals r

/-- final outputs of `call_inline`: the qualified `_outputs` names, or the re-qualified current name.
    `guard id` = "the value was produced by the inlined nodes" (commit e7b46e0): a function output that is
    one of the caller's own values keeps its name.  Before that commit every final output was renamed. -/
def renameFinals (guard : Nat → Bool) (st : St) : List (Option Nat) → Option (List String) → St
  | outs, some desired =>
    (outs.zip desired).foldl (fun s x => match x.1 with
      | some id => if guard id then renameValue s id (fun _ => x.2) else s
      | none => s) st
  | outs, none =>
    outs.foldl (fun s o => match o with
      | some id => if guard id && (nameOf s id != "") then renameValue s id (qualifyValue s.cur) else s
      | none => s) st

def pushScope (st : St) (n : String) : St := { st with cur := { st.cur with scope := st.cur.scope ++ [n] } }
def popScope (st : St) : St :=
  if st.cur.scope.isEmpty then fail st "pop-empty"
  else { st with cur := { st.cur with scope := st.cur.scope.dropLast } }

def isRef : Arg → Bool
  | .lit _ => false
  | _ => true

/-- the clones `call_inline` makes of the body of `f` (formals ↦ actuals, names prefixed with the qualified
    `"{f}_node_{count}/"`), with the state and the value map after cloning. -/
def inlineClones (total : Bool) (st0 : St) (f : Fn) (actuals : List (Option Nat)) : St × VMap × List Node :=
  cloneNodes st0 (f.formals.zip actuals) (autoNodeName st0.cur (nodeCount total st0) f.name ++ "/") f.nodes

/-- `_outputs=` given with the wrong number of names. -/
def outsMismatch (outs : Option (List String)) (f : Fn) : Bool :=
  match outs with
  | some o => o.length != f.outputs.length
  | none => false

/-- clone the body, append the clones (re-qualifying non-final outputs), rename the final outputs; returns
    the state and the values the function's outputs are mapped to. -/
def inlineRun (total : Bool) (st0 : St) (f : Fn) (actuals : List (Option Nat)) (desired : Option (List String)) :
    St × List (Option Nat) :=
  let c := inlineClones total st0 f actuals
  let finalsO := f.outputs.map (vmapGet c.2.1)
  let st2 := addInlined c.1 (finalsO.filterMap id) c.2.2
  let produced := c.2.2.flatMap (·.outs)
  (renameFinals (fun id => !total || produced.contains id) st2 finalsO desired, finalsO)

/-- does `call_inline` adapt its operands like `call` (`_input_to_ir_value`: literals become initializers)?
    Pinned /repo: yes (commit 06b8334); before it a literal operand made the cloner raise (finding D20i). -/
def inlineAdapts : Bool := true

/-- is the `_prefix` scope of `call_inline` left on the scope stack when `_inliner.instantiate` raises
    ("Too many inputs")?  Pinned /repo: **no** — the pushed section runs under `try/finally` (commit 15c1bb3).
    `true` = the code before that commit (`push_module(_prefix)` … `pop_module()` on the success path only;
    finding D20j), kept for the regression statement `scopes_kept_prefix_refuted`. -/
def prefixLeaks : Bool := false

def doInlineWith (leak : Bool) (total : Bool) (fns : List Fn) (st : St) (fi : Nat) (args : List Arg)
    (outs : Option (List String)) (pfx : String) (attrs : List (String × AVal)) : St :=
  match fns[fi]? with
  | none => fail st "no-such-function"
  | some f =>
    if !inlineAdapts && !(args.all isRef) then fail st "inline-literal-arg"
    else if outsMismatch outs f then
      -- raised before anything is touched (`builder.py:801-806`)
      fail st "outputs-mismatch"
    else
      let desired := outs.map (fun o => o.map (qualifyValue st.cur))
      let st0 := if pfx = "" then st else pushScope st pfx
      -- operands: values as they are; Python literals promoted to initializers when `inlineAdapts`
      -- (`resolveArgs` leaves the state alone when every operand is a value)
      let ra := resolveArgs st0 args
      if args.length > f.formals.length then
        -- `_inliner.instantiate` raises *after* the prefix was pushed and the operands were adapted: the promoted
        -- literals stay (harmless); the prefix scope is popped by the `finally` (15c1bb3) — before it (`leak`) it stayed
        fail (if leak || pfx = "" then ra.1 else popScope ra.1) "too-many-inputs"
      else
        let rr := inlineRun total ra.1 (resolveFn (effectiveAttrs total f attrs) f) ra.2 desired
        let st4 := if pfx = "" then rr.1 else popScope rr.1
        { st4 with handles := st4.handles ++ rr.2 }

def doInline (total : Bool) (fns : List Fn) (st : St) (fi : Nat) (args : List Arg) (outs : Option (List String))
    (pfx : String) (attrs : List (String × AVal)) : St :=
  doInlineWith prefixLeaks total fns st fi args outs pfx attrs

def doBeginSub (st : St) (gname : String) (inputs : List String) : St :=
  let (st1, ids) := newValues st inputs
  { st1 with cur := ⟨gname, ids, [], st.cur.scope, []⟩, stack := st.cur :: st.stack,
             handles := st1.handles ++ ids.map some }

/-- the sub-builder is dropped (its trace function raised, or `build_graph` raised after it returned): back in the
    enclosing builder, whose scope stack was never touched (the sub-builder worked on a *copy*).  The dropped graph
    stays in `_root._all_graphs` — its nodes keep counting for `_node_count()` — so it joins `done` (never attached
    to a node). -/
def abandon (st : St) : St :=
  match st.stack with
  | [] => st
  | parent :: rest => { st with done := st.done ++ [st.cur], cur := parent, stack := rest }

def doAbortSub (st : St) : St :=
  match st.stack with
  | [] => fail st "abort-at-root"
  | _ :: _ => abandon st

def doEndSub (st : St) (rets : List Nat) (declared : List String) : St :=
  match st.stack with
  | [] => fail st "endsub-at-root"
  | parent :: rest =>
    if rets.length ≠ declared.length then
      -- `build_graph` raises ValueError *after* the trace function ran (`builder.py:277-281`): the sub-builder is dropped
      fail (abandon st) "outputs-mismatch"
    else
      let ids := rets.filterMap (fun h => st.handles.getD h none)
      let st1 := (ids.zip declared).foldl (fun s (id, d) =>
        if d = "" then s else renameValue s id (fun _ => d)) st
      { st1 with done := st1.done ++ [{ st1.cur with outputs := ids }], cur := parent, stack := rest }

def doOutput (st : St) (h : Nat) (name : Option String) : St :=
  match st.handles.getD h none with
  | none => fail st "output-none"
  | some id =>
    let st1 := match name with
      | some n => if n = "" then st else renameValue st id (fun _ => n)
      | none => st
    { st1 with cur := { st1.cur with outputs := st1.cur.outputs ++ [id] } }

def doInput (st : St) (name : String) : St :=
  let (st1, id) := newValue st name
  { st1 with cur := { st1.cur with inputs := st1.cur.inputs ++ [id] }, handles := st1.handles ++ [some id] }

def step (total : Bool) (fns : List Fn) (st : St) : Item → St
  | .input n => doInput st n
  | .op t a o nn g as => doOp total st t a o nn g as
  | .push n => pushScope st n
  | .pop => popScope st
  | .call f a o as => doCall total fns st f a o as
  | .inline f a o p as => doInline total fns st f a o p as
  | .beginSub g i => doBeginSub st g i
  | .endSub r d => doEndSub st r d
  | .output h n => doOutput st h n
  | .abortSub => doAbortSub st

/-- the state after the whole trace; the root graph is `cur` when every `beginSub` was closed. -/
def buildWith (total : Bool) (fns : List Fn) (tr : List Item) : St := tr.foldl (step total fns) St.init

/-- the current code (names count nodes across the whole builder tree). -/
def build (fns : List Fn) (tr : List Item) : St := buildWith true fns tr

/-- the code before commits e9794aa (per-graph counter) and e7b46e0 (pass-through outputs renamed). -/
def buildPrefix (fns : List Fn) (tr : List Item) : St := buildWith false fns tr

/-! ## observations -/

/-- all graphs: the root first, then finished subgraphs in completion order. -/
def St.graphs (st : St) : List Frame := st.cur :: st.done

/-- names of all values ever created (each is defined at exactly one site: a graph input, a root
    initializer or one node output). -/
def St.valueNames (st : St) : List String := st.vnames

def St.nodeNames (st : St) : List String :=
  (st.graphs.flatMap (·.nodes)).map (·.name)

def isSub : Item → Bool
  | .beginSub _ _ => true
  | .endSub _ _ => true
  | .abortSub => true
  | _ => false

end OV.C18
