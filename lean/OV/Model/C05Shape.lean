/-!
# C05 — shape / index rules of `_basic_rules.py`, `_collapse_slices.py`, `_materialize_reshape_shape.py`,
`_redundant_scatter_nd.py`: permutations, axes, reshape family, slices, scatter.

Each `…Check`/`…Build` restates the rule's `check()`/`rewrite()`; the `spec…` functions are the ONNX
operator specification the theorems compare against.  Core Lean only.
-/
namespace OV.C05.Shape

/-- A dimension of a shape annotation (`ir.Shape`): `int`, named `SymbolicDim`, or `SymbolicDim(None)`. -/
inductive Dim where
  | known (n : Nat)
  | sym (name : String)
  | unknown
  deriving Repr, DecidableEq

def Dim.isInt : Dim → Bool
  | .known _ => true
  | _ => false

def Dim.nat? : Dim → Option Nat
  | .known n => some n
  | _ => none

abbrev Shape := List Dim

def prodNat (l : List Nat) : Nat := l.foldl (· * ·) 1

def allKnown (s : Shape) : Option (List Nat) := s.mapM Dim.nat?

inductive Outcome (β : Type) where
  | nofire
  | raises
  | fire (r : β)
  deriving Repr, DecidableEq

/-! ## Transpose rules -/

/-- `TransposeIdentity.check` (`perm` is an INTS attribute, not a reference). -/
def noOpTransposeCheck (perm : List Int) : Bool :=
  perm == (List.range perm.length).map Int.ofNat

/-- `TransposeTranspose._apply_transpose`: `res[i] = on[perm[i]]`. -/
def applyTranspose (perm : List Nat) (on : List Nat) : List Nat :=
  perm.map (fun p => on.getD p 0)

/-- `_apply_transposes([perm1, perm2])` starting from `range(len(perm1))`. -/
def composePerms (p1 p2 : List Nat) : List Nat :=
  applyTranspose p2 (applyTranspose p1 (List.range p1.length))

inductive TTRepl where
  | identity
  | transpose (perm : List Nat)
  deriving Repr, DecidableEq

/-- `TransposeTranspose.rewrite` (the `assert len(perm) == len(on)` raises on a length mismatch). -/
def transposeTransposeRun (p1 p2 : List Nat) : Outcome TTRepl :=
  if p1.length != p2.length then .raises
  else
    let last := composePerms p1 p2
    if last == List.range p1.length then .fire .identity else .fire (.transpose last)

/-- ONNX `Transpose`: `out.shape[i] = in.shape[perm[i]]`. -/
def specTransposeShape (perm : List Nat) (s : List Nat) : List Nat :=
  perm.map (fun p => s.getD p 0)

def validPerm (perm : List Nat) (n : Nat) : Bool :=
  perm.length == n && perm.all (· < n)

/-! ## Unsqueeze ∘ Unsqueeze, Squeeze→Reshape([-1]) -/

/-- `UnsqueezeUnsqueeze.check` + `rewrite`; `v1`,`v2` = `get_singleton_value(axes)` (none: not a one-element constant). -/
def unsqueezeUnsqueezeRun (v1 v2 : Option Int) : Outcome (List Int) :=
  match v1, v2 with
  | some a, some b =>
    if a < 0 || b < 0 then .nofire
    else .fire (if a < b then [a, b] else [b, a + 1])
  | _, _ => .nofire

/-- ONNX `Unsqueeze` with one non-negative axis on a shape. -/
def specUnsqueeze1 (s : List Nat) (axis : Nat) : List Nat :=
  s.take axis ++ [1] ++ s.drop axis

/-- ONNX `Unsqueeze` with a list of distinct non-negative axes (positions in the *output*),
processed in ascending order. -/
def specUnsqueezeSorted : List Nat → List Nat → List Nat
  | s, [] => s
  | s, a :: rest => specUnsqueezeSorted (specUnsqueeze1 s a) rest

/-- `SqueezeReshape.check`: `has_rank(x, 1)`. -/
def squeezeReshape1dCheck (rank : Option Nat) : Bool := rank == some 1

/-- ONNX `Squeeze` without axes on a shape. -/
def specSqueezeAll (s : List Nat) : List Nat := s.filter (· != 1)

/-! ## Reshape family -/

/-- ONNX `Reshape` target-shape resolution: `0` copies the input dim (unless `allowzero`), one `-1` is
inferred; total size must be preserved.  `none` = runtime error. -/
def specReshape (inShape : List Nat) (target : List Int) (allowzero : Bool) : Option (List Nat) :=
  if target.any (· < -1) then none
  else if (target.filter (· == -1)).length > 1 then none
  else if allowzero && target.any (· == 0) && target.any (· == -1) then none
  else
    -- resolve zeros
    let step : Option (List Int) := (List.range target.length).mapM (fun i =>
      let t := target.getD i 0
      if t == 0 && !allowzero then
        (if i < inShape.length then some (Int.ofNat (inShape.getD i 0)) else none)
      else some t)
    match step with
    | none => none
    | some ts =>
      let total := prodNat inShape
      let knownProd := prodNat ((ts.filter (· != -1)).map Int.toNat)
      if ts.any (· == -1) then
        if knownProd == 0 then none     -- `-1` beside a zero dim cannot be inferred (onnxruntime and NumPy refuse)
        else if total % knownProd != 0 then none
        else some (ts.map (fun t => if t == -1 then total / knownProd else t.toNat))
      else if knownProd == total then some (ts.map Int.toNat) else none

/-- ONNX `Flatten(axis)` on a shape (`0 ≤ axis ≤ rank`). -/
def specFlatten (s : List Nat) (axis : Nat) : List Nat :=
  [prodNat (s.take axis), prodNat (s.drop axis)]

def setAt (l : List Int) (i : Nat) (v : Int) : List Int := l.set i v

/-- `Flatten2Reshape.check`: the `[d0, d1]` it will hand to `Reshape` (allowzero = 0), or no match. -/
def flattenToReshapeRun (xShape : Option Shape) (axisAttr : Int) (outShape : Option Shape) : Outcome (List Int) :=
  let inputRank : Option Nat := xShape.map List.length
  let axis : Int := match inputRank with
    | some r => if axisAttr < 0 then axisAttr + r else axisAttr
    | none => axisAttr
  let ns : List Int := [-1, -1]
  let ns := if axis == 0 then setAt ns 0 1
            else if axis == 1 then setAt ns 0 0
            else if inputRank.map Int.ofNat == some axis then setAt ns 1 1
            else ns
  -- output annotation: every int dim overrides (annotation of rank > 2 would raise IndexError)
  match outShape with
  | some os =>
    if os.length > 2 && (os.drop 2).any Dim.isInt then .raises else
    let ns := (List.range os.length).foldl (fun acc i =>
      match os.getD i .unknown with
      | .known n => if i < 2 then setAt acc i n else acc
      | _ => acc) ns
    finish xShape axis ns
  | none => finish xShape axis ns
where
  finish (xShape : Option Shape) (axis : Int) (ns : List Int) : Outcome (List Int) :=
    -- commit 02f546a (finding D6, fixed): a statically zero-size input dim refuses the rewrite
    if ((xShape.map (fun s => s.any (· == .known 0))).getD false) then .nofire else
    let ns := match xShape with
      | some s =>
        -- Python slicing `s[:axis]`, `s[axis:]` (axis already normalised when the rank is known)
        let k : Nat := if axis < 0 then (s.length - (-axis).toNat) else axis.toNat
        let lead := s.take k
        let trail := s.drop k
        let ns := match allKnown lead with
          | some l => setAt ns 0 (prodNat l)
          | none => ns
        match allKnown trail with
          | some l => setAt ns 1 (prodNat l)
          | none => ns
      | none => ns
    if (ns.filter (· == -1)).length > 1 then .nofire else .fire ns

structure RRRepl where
  shape : List Int
  allowzero : Option Int      -- attribute passed to the new Reshape (`None` = omitted)
  deriving Repr, DecidableEq

/-- `ReshapeReshape.check`: `shape` = constant value of the second Reshape's shape input. -/
def reshapeReshapeRun (shape : Option (List Int)) (outShape : Option Shape) (allowzeroAttr : Int) : Outcome RRRepl :=
  match shape with
  | none => .nofire
  | some sh =>
    let oob := match outShape with
      | some os => (List.range os.length).any (fun i =>
          match os.getD i .unknown with | .known n => n > 0 && i ≥ sh.length | _ => false)
      | none => false
    if oob then .raises else
    let ns := match outShape with
      | some os => (List.range os.length).foldl (fun acc i =>
          match os.getD i .unknown with
          | .known n => if n > 0 then setAt acc i n else acc
          | _ => acc) sh
      | none => sh
    let zeros := (ns.filter (· == 0)).length
    let negs := ns.any (· < 0)
    if allowzeroAttr == 1 && zeros > 0 then .fire { shape := ns, allowzero := some allowzeroAttr }
    else if zeros > 0 && negs then .nofire
    else if zeros > 1 then .nofire
    else .fire { shape := ns.map (fun v => if v == 0 then -1 else v), allowzero := none }

/-- `ExpandIdentity.check`: constant `shape`, known `x.shape`, `x_shape.dims == tuple(shape)`. -/
def noOpExpandCheck (xShape : Option Shape) (shape : Option (List Int)) : Bool :=
  match shape, xShape with
  | some sh, some xs =>
    xs.length == sh.length &&
    (List.zip xs sh).all (fun (d, v) => match d with | .known n => Int.ofNat n == v | _ => false)
  | _, _ => false

/-- Multidirectional broadcast of two concrete shapes (ONNX `Expand` output shape); `none` = incompatible. -/
def specBroadcast (a b : List Nat) : Option (List Nat) :=
  let n := max a.length b.length
  let pa := List.replicate (n - a.length) 1 ++ a
  let pb := List.replicate (n - b.length) 1 ++ b
  (List.zip pa pb).mapM (fun (x, y) => if x == y then some x else if x == 1 then some y else if y == 1 then some x else none)

/-- `MaterializeReshapeShape.check`/`rewrite`: `shapeIsConst` = `get_numpy_value(shape) is not None`. -/
def materializeReshapeRun (shapeIsConst : Bool) (outShape : Option Shape) : Outcome RRRepl :=
  if shapeIsConst then .nofire
  else match outShape with
    | none => .nofire
    | some os =>
      let symCount := (os.filter (fun d => !d.isInt)).length
      -- guard added by commit 49df852 (D16c2): no `-1` beside a static zero dim
      if symCount == 1 && os.any (fun d => d == .known 0) then .nofire
      else if symCount ≤ 1 then
        .fire { shape := os.map (fun d => match d with | .known n => Int.ofNat n | _ => -1), allowzero := some 1 }
      else .nofire

/-! ## Slices -/

def int64Max : Int := 9223372036854775807

/-- A one-element constant operand (`some v`), a constant with another element count (`sizeOther`), or not constant. -/
inductive Scalar1 where
  | one (v : Int)
  | sizeOther
  | dynamic
  deriving Repr, DecidableEq

/-- Python `shape[axis]` for a possibly negative index: `none` = IndexError. -/
def pyIndex {α : Type} (l : List α) (i : Int) : Option α :=
  if 0 ≤ i then l[i.toNat]? else if (-i).toNat ≤ l.length then l[l.length - (-i).toNat]? else none

/-- `_check_if_redundant_slice`. -/
def collapseSliceRun (dataShape : Option Shape) (starts ends axes steps : Scalar1) : Outcome Unit :=
  match starts, ends, axes, steps with
  | .dynamic, _, _, _ | _, .dynamic, _, _ | _, _, .dynamic, _ | _, _, _, .dynamic => .nofire
  | .one st, .one en, .one ax, .one sp =>
    if sp != 1 then .nofire
    else if st != 0 then .nofire
    else if en == int64Max then .fire ()
    else match dataShape with
      | none => .nofire
      | some s =>
        match pyIndex s ax with
        | none => .raises
        | some (.known d) => if en < d then .nofire else .fire ()
        | some _ => .nofire
  | _, _, _, _ => .nofire

/-- `same_shape`: no `SymbolicDim(None)` on either side and equal dims. -/
def sameShape (a b : Option Shape) : Bool :=
  match a, b with
  | some x, some y => !(x.any (· == .unknown)) && !(y.any (· == .unknown)) && x == y
  | _, _ => false

/-- `_same_shape` (rule `collapse_slice2`): `steps` = constant values if constant. -/
def collapseSlice2Check (dataShape outShape : Option Shape) (steps : Option (List Int)) : Bool :=
  match dataShape, outShape with
  | some _, some _ =>
    (match steps with
     | some l => l.all (· == 1)
     | none => false) && sameShape dataShape outShape
  | _, _ => false

/-- ONNX `Slice` on one axis of length `d`, `step = 1`, `start = 0`: resulting length. -/
def specSliceLen01 (d : Nat) (en : Int) : Nat :=
  let e : Int := if en < 0 then en + d else en
  let e := if e < 0 then 0 else if e > d then (d : Int) else e
  e.toNat

/-! ## ScatterND with static full-range indices -/

/-- `ScatterAllStatic.check`; `indices` = constant value as nested lists (rank-2 int tensor). -/
def staticScatterRunPrefix (dataShape updShape : Option Shape) (indices : Option (List (List Int))) : Outcome Unit :=
  match dataShape, updShape with
  | some ds, some _ =>
    if !sameShape dataShape updShape then .nofire
    else match indices with
      | none => .nofire
      | some idx =>
        match ds with
        | [] => .raises                        -- `data.shape[0]` IndexError
        | .known n :: _ =>
          if idx == (List.range n).map (fun i => [Int.ofNat i]) then .fire () else .nofire
        | _ :: _ => .nofire                    -- `not isinstance(data.shape[0], int)` (guard added by fix F6 for D17)
  | _, _ => .nofire

/-- `ScatterAllStatic.check` as it is now (commit 396bc06): a `reduction` attribute other than `"none"` refuses first;
`staticScatterRunPrefix` is the pre-fix check (finding C05-N4, fixed). -/
def staticScatterRun (reductionIsNone : Bool) (dataShape updShape : Option Shape) (indices : Option (List (List Int))) : Outcome Unit :=
  if !reductionIsNone then .nofire else staticScatterRunPrefix dataShape updShape indices

/-- ONNX `ScatterND` over the leading axis with `indices = [[i₀],[i₁],…]`, on lists of rows:
`out = data; for k: out[i_k] = f out[i_k] updates[k]` (`f` = the reduction; `fun _ u => u` for `none`). -/
def specScatterRows {ρ : Type} (f : ρ → ρ → ρ) (data : List ρ) (idx : List Nat) (upd : List ρ) : List ρ :=
  (List.zip idx upd).foldl (fun out (i, u) =>
    match out[i]? with
    | some old => out.set i (f old u)
    | none => out) data

end OV.C05.Shape
