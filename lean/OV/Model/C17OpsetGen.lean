/-!
# C17 — model of the generated opset classes and of the ONNX schema registry

Core Lean only.  *Names are natural numbers*: `enc "Abs"` = the big-endian number of the bytes
`0x01 ++ utf8 "Abs"` (injective; `harness/extract_opsets.py: enc/dec`).  The kernel of Lean 4.33
reduces `String` equality through UTF-8 byte arrays (milliseconds per comparison), `Nat` equality
is one GMP call, and the table theorems below are evaluated by the kernel.

What is restated here
* `Schema`  — what `onnx.defs` says about one operator version (name, domain, since_version,
  deprecated, inputs with their option, attributes with required/default).
* `Method`  — what one generated method of `onnxscript/onnx_opset/_impl/*.py` says, read off its AST:
  the literal `get_schema(name, since, domain)` call, the `Op(self, name, schema)` name, the parameter
  list with defaults, what is forwarded to `self._prepare_inputs(schema, …)` and as keyword attributes.
* `lookup`  — `onnx.defs.get_schema(name, N, domain)`: the schema of that name and domain with the
  largest `since_version ≤ N` (this is what `Opset.__getitem__/__getattr__/__contains__` call).
* `resolve` — Python attribute lookup `OpsetN.name` along the single-inheritance chain
  `OpsetN(OpsetN-1) … Opset1(Opset)`: the definition in the class with the largest version `≤ N`.
* `mirrors` — the rule of `opgen/onnx_opset_builder.py::_make_function` as a predicate.
* `prepareInputs` — `Opset._prepare_inputs`.
* `eagerNode` — the node an eager call through a generated method hands to the evaluator
  (Python parameter binding, forwarding, `Op.__call__`, and the `value is not None` filter of
  `evaluator._prepare_model_and_inputs_for_eager`).
-/
namespace OV.C17

/-- `enc`: the number a name is stored as. -/
def enc (s : String) : Nat := s.toUTF8.foldl (fun a b => a * 256 + b.toNat) 1

/-- `dec`: back to text (driver output only). -/
def dec (n : Nat) : String :=
  let rec go (fuel n : Nat) (acc : List Char) : List Char :=
    match fuel with
    | 0 => acc
    | fuel + 1 => if n ≤ 1 then acc else go fuel (n / 256) (Char.ofNat (n % 256) :: acc)
  String.ofList (go 4096 n [])

/-- scalar attribute values: an integer, a float32 (by bit pattern), a string (by code) -/
inductive Sc where
  | int (i : Int)
  | flt (bits : Nat)
  | str (code : Nat)
  deriving Repr, Inhabited

/-- A default as written in a `def` (or as an attribute value): `absent` = the parameter has no default
(required); `pyNone` = `None`; scalars; tuples of scalars; anything else by the code of its dump. -/
inductive Dflt where
  | absent
  | pyNone
  | sc (s : Sc)
  | list (l : List Sc)
  | other (code : Nat)
  deriving Repr, Inhabited

def Sc.beq : Sc → Sc → Bool
  | .int a, .int b => a == b
  | .flt a, .flt b => a == b
  | .str a, .str b => a == b
  | _, _ => false

def scListBeq : List Sc → List Sc → Bool
  | [], [] => true
  | a :: as, b :: bs => a.beq b && scListBeq as bs
  | _, _ => false

def Dflt.beq : Dflt → Dflt → Bool
  | .absent, .absent => true
  | .pyNone, .pyNone => true
  | .sc a, .sc b => a.beq b
  | .list a, .list b => scListBeq a b
  | .other a, .other b => a == b
  | _, _ => false

structure Attr where
  name : Nat
  required : Bool
  /-- `pyNone` when the schema gives no default value -/
  dflt : Dflt
  deriving Repr, Inhabited

/-- input option: 0 Single, 1 Optional, 2 Variadic -/
structure Schema where
  name : Nat
  domain : Nat
  since : Nat
  deprecated : Bool
  inputs : List (Nat × Nat)
  attrs : List Attr
  deriving Repr, Inhabited

structure Method where
  name : Nat
  /-- the literal arguments of `get_schema(name, since_version, domain)` -/
  call : Nat × Nat × Nat
  /-- the literal name in `Op(self, name, schema)` -/
  opName : Nat
  /-- positional parameters after `self`, with defaults -/
  pos : List (Nat × Dflt)
  vararg : Option Nat
  kwonly : List (Nat × Dflt)
  /-- arguments of `self._prepare_inputs(schema, …)`: (variable, starred) -/
  fwdInputs : List (Nat × Bool)
  /-- keyword arguments of `op(…, kw=var)` -/
  fwdAttrs : List (Nat × Nat)
  usesPrepare : Bool
  /-- the body is exactly `schema = get_schema(lit, lit, lit); op = Op(self, lit, schema); return op(…)` -/
  shapeOk : Bool
  /-- `def Op(self, *args, **kwargs): raise NotImplementedError("…")`: shadows an inherited definition of an
  operator that is deprecated from this class's version on (all other fields are empty then) -/
  stub : Bool
  deriving Repr, Inhabited

structure Cls where
  name : Nat
  base : Nat
  /-- the literals of `Opset.__new__(cls, domain, version)` -/
  domain : Nat
  version : Nat
  /-- one class per file, single base, undecorated, imports `get_schema`/`Op`/`Opset` from the right modules -/
  ok : Bool
  methods : List Method
  deriving Repr, Inhabited

structure Export where
  exportName : Nat
  cls : Nat
  module : Nat
  domain : Nat
  version : Nat
  top : Bool
  deriving Repr, Inhabited

def Schema.key (s : Schema) : Nat × Nat × Nat := (s.name, s.since, s.domain)

/-! ## `get_schema` and attribute resolution -/

/-- schemas of one (domain, name), continuation-passing so that the kernel evaluates the selection once -/
def selectS (d n : Nat) : List Schema → List Schema → (List Schema → β) → β
  | [], acc, k => k acc
  | s :: ss, acc, k =>
    if s.domain == d && s.name == n then selectS d n ss (s :: acc) k else selectS d n ss acc k

/-- own definitions of one (domain, name) over all classes, tagged with the class version -/
def selectM (d n : Nat) : List Cls → List (Nat × Method) → (List (Nat × Method) → β) → β
  | [], acc, k => k acc
  | c :: cs, acc, k =>
    if c.domain == d then
      match c.methods.find? (fun m => m.name == n) with
      | some m => selectM d n cs ((c.version, m) :: acc) k
      | none => selectM d n cs acc k
    else selectM d n cs acc k

/-- the entry with the largest version `≤ N` -/
def pick (ver : α → Nat) (N : Nat) : List α → Option α → Option α
  | [], best => best
  | x :: xs, best =>
    if ver x ≤ N then
      match best with
      | none => pick ver N xs (some x)
      | some b => if ver b < ver x then pick ver N xs (some x) else pick ver N xs (some b)
    else pick ver N xs best

/-- `onnx.defs.get_schema(n, N, d)` -/
def lookup (schemas : List Schema) (d N n : Nat) : Option Schema :=
  selectS d n schemas [] (fun S => pick Schema.since N S none)

/-- `getattr(OpsetN instance of domain d, n)` resolved on the generated classes -/
def resolve (classes : List Cls) (d N n : Nat) : Option Method :=
  selectM d n classes [] (fun M => (pick Prod.fst N M none).map Prod.snd)

/-! ## the generator's rule -/

def hasVariadic (s : Schema) : Bool := s.inputs.any (fun i => i.2 == 2)

/-- a variadic input may only be the last one -/
def variadicLast : List (Nat × Nat) → Bool
  | [] => true
  | [_] => true
  | i :: is => i.2 != 2 && variadicLast is

/-- `_make_input_arg_name`: an input named like an attribute gets a trailing underscore (`Split(1)`) -/
def paramName (s : Schema) (n : Nat) : Nat :=
  if s.attrs.any (fun a => a.name == n) then n * 256 + 95 else n

/-- default of the positional parameter for an input: `None` iff optional — but none at all when a
variadic input follows (`Loop`, `Scan`), exactly as `_make_function_input_args` clears them -/
def posDefault (s : Schema) (opt : Nat) : Dflt :=
  if hasVariadic s then .absent else if opt == 1 then .pyNone else .absent

def posOk (s : Schema) : List (Nat × Nat) → List (Nat × Dflt) → Bool
  | [], [] => true
  | i :: is, p :: ps => p.1 == paramName s i.1 && p.2.beq (posDefault s i.2) && posOk s is ps
  | _, _ => false

def varargOk (s : Schema) (v : Option Nat) : Bool :=
  match s.inputs.find? (fun i => i.2 == 2), v with
  | none, none => true
  | some i, some v => v == paramName s i.1
  | _, _ => false

/-- keyword-only default for an attribute: none when required, the schema default, else `None` -/
def attrDefault (a : Attr) : Dflt := if a.required then .absent else a.dflt

def findKw (k : Nat) : List (Nat × Dflt) → Option Dflt
  | [] => none
  | p :: ps => if p.1 == k then some p.2 else findKw k ps

def attrsOk (s : Schema) (kw : List (Nat × Dflt)) : Bool :=
  kw.length == s.attrs.length &&
  s.attrs.all (fun a => match findKw a.name kw with
    | some d => d.beq (attrDefault a)
    | none => false)

def expectedFwdInputs (m : Method) : List (Nat × Bool) :=
  m.pos.map (fun p => (p.1, false)) ++ (match m.vararg with | some v => [(v, true)] | none => [])

def natPairListBeq : List (Nat × Nat) → List (Nat × Nat) → Bool
  | [], [] => true
  | a :: as, b :: bs => a.1 == b.1 && a.2 == b.2 && natPairListBeq as bs
  | _, _ => false

def natBoolListBeq : List (Nat × Bool) → List (Nat × Bool) → Bool
  | [], [] => true
  | a :: as, b :: bs => a.1 == b.1 && a.2 == b.2 && natBoolListBeq as bs
  | _, _ => false

/-- **The rule.**  Method `m` is what `_make_function` generates for schema `s`. -/
def mirrors (m : Method) (s : Schema) : Bool :=
  m.shapeOk &&
  m.name == s.name && m.opName == s.name &&
  m.call.1 == s.name && m.call.2.1 == s.since && m.call.2.2 == s.domain &&
  variadicLast s.inputs &&
  posOk s (s.inputs.filter (fun i => i.2 != 2)) m.pos &&
  varargOk s m.vararg &&
  attrsOk s m.kwonly &&
  natBoolListBeq m.fwdInputs (expectedFwdInputs m) &&
  (m.usesPrepare || m.fwdInputs.isEmpty) &&
  natPairListBeq m.fwdAttrs (m.kwonly.map (fun p => (p.1, p.1)))

/-! ## the (domain, operator, class) grid -/

/-- One cell: class of version `N` in domain `d`, operator `n`.
* nothing in force, no method: fine;
* a non-deprecated schema in force: a live (non-stub) method must resolve and mirror it — unless the whole
  domain is a documented ungenerated domain;
* a deprecated schema in force: nothing callable — no method resolves, or a raising stub does (what `opgen`
  emits since 52a48cf to shadow the inherited definition of the last live version);
* a method without a schema in force: never. -/
def cellOk (ungen : Bool) : Option Schema → Option Method → Bool
  | none, none => true
  | some s, some m => if s.deprecated then m.stub else !m.stub && mirrors m s
  | some s, none => s.deprecated || ungen
  | none, some _ => false

def rowOk (schemas : List Schema) (classes : List Cls) (ungen : List Nat) (d n : Nat) : Bool :=
  selectS d n schemas [] fun S =>
  selectM d n classes [] fun M =>
  classes.all fun c =>
    c.domain != d ||
      cellOk (ungen.contains d) (pick Schema.since c.version S none)
        ((pick Prod.fst c.version M none).map Prod.snd)

def gridOk (schemas : List Schema) (classes : List Cls) (ungen : List Nat) (d : Nat) (ns : List Nat) : Bool :=
  ns.all (rowOk schemas classes ungen d)

/-- membership of (domain, name) in the chunks -/
def inGrid (chunks : List (Nat × List Nat)) (d n : Nat) : Bool :=
  chunks.any (fun g => g.1 == d && g.2.contains n)

def schemasCovered (chunks : List (Nat × List Nat)) (schemas : List Schema) : Bool :=
  schemas.all (fun s => inGrid chunks s.domain s.name)

def methodsCovered (chunks : List (Nat × List Nat)) (classes : List Cls) : Bool :=
  classes.all (fun c => c.methods.all (fun m => inGrid chunks c.domain m.name))

/-- the classes of one domain form the chain `Opset_d1(Opset) ← Opset_d2 ← …` with consecutive versions,
so that Python's MRO is "largest version ≤ N" — what `resolve` computes -/
def chainOk (opsetBase : Nat) (classes : List Cls) : Bool :=
  classes.all (fun c =>
    c.ok && 1 ≤ c.version &&
    (if c.version == 1 then c.base == opsetBase
     else classes.any (fun b => b.name == c.base && b.domain == c.domain && b.version + 1 == c.version)) &&
    -- no second class with the same (domain, version) or the same name
    classes.all (fun c' => (c'.name == c.name) == (c'.domain == c.domain && c'.version == c.version)))

/-- `all_opsets[(d, N)] = opset…` is an instance of the class whose `__new__` says `(d, N)`; every class
is exported exactly so -/
def exportsOk (classes : List Cls) (exports : List Export) : Bool :=
  exports.all (fun e => classes.any (fun c =>
    c.name == e.cls && c.domain == e.domain && c.version == e.version)) &&
  classes.all (fun c => exports.any (fun e =>
    c.name == e.cls && c.domain == e.domain && c.version == e.version)) &&
  exports.length == classes.length

/-- static and dynamic resolution of one name agree: both absent; or the same live schema; or — for a schema
marked deprecated — the class offers nothing callable (no method, or a raising stub) -/
def agrees : Option Schema → Option Method → Bool
  | none, none => true
  | some s, some m =>
    if s.deprecated then m.stub
    else !m.stub && (m.call.1 == s.name && m.call.2.1 == s.since && m.call.2.2 == s.domain)
  | some s, none => s.deprecated
  | none, some _ => false

/-- the generated body forwards the method's own parameters, in order, under their own names -/
def forwardsOwnParams (m : Method) : Bool :=
  m.stub ||
    (natBoolListBeq m.fwdInputs (expectedFwdInputs m) && (m.usesPrepare || m.fwdInputs.isEmpty) &&
      natPairListBeq m.fwdAttrs (m.kwonly.map (fun p => (p.1, p.1))))

/-! ## `Opset._prepare_inputs` -/

/-- `while input_list and input_list[-1] is None: input_list.pop()` -/
def prepareInputs (xs : List (Option α)) : List (Option α) :=
  (xs.reverse.dropWhile Option.isNone).reverse

/-! ## an eager call through a generated method -/

/-- bind positional parameters: supplied arguments first, then defaults; `none` = TypeError
(a parameter without default left unsupplied, or too many arguments without a `*vararg`) -/
def bindPos : List (Nat × Dflt) → List (Option α) → Option (List (Nat × Option α) × List (Option α))
  | [], rest => some ([], rest)
  | p :: ps, a :: as => (bindPos ps as).map (fun r => ((p.1, a) :: r.1, r.2))
  | p :: ps, [] =>
    match p.2 with
    | .pyNone => (bindPos ps []).map (fun r => ((p.1, none) :: r.1, r.2))
    | _ => none

/-- bind keyword-only parameters from the caller's keywords, else the default; `none` = TypeError -/
def bindKw : List (Nat × Dflt) → List (Nat × Dflt) → Option (List (Nat × Dflt))
  | [], _ => some []
  | p :: ps, kw =>
    match findKw p.1 kw, p.2 with
    | some v, _ => (bindKw ps kw).map (fun r => (p.1, v) :: r)
    | none, .absent => none
    | none, d => (bindKw ps kw).map (fun r => (p.1, d) :: r)

def findPos (k : Nat) : List (Nat × Option α) → Option (Option α)
  | [] => none
  | p :: ps => if p.1 == k then some p.2 else findPos k ps

/-- the node handed to the runtime -/
structure Node (α : Type) where
  key : Nat × Nat × Nat
  inputs : List (Option α)
  /-- the keyword arguments `Op.__call__` receives (a `None` value is dropped later, by
  `if value is not None` in `_prepare_model_and_inputs_for_eager`; `attrMeaning` reads it as absent) -/
  attrs : List (Nat × Dflt)

def dropNone : List (Nat × Dflt) → List (Nat × Dflt)
  | [] => []
  | p :: ps => match p.2 with
    | .pyNone => dropNone ps
    | _ => p :: dropNone ps

/-- forwarded positional expressions, `*vararg` expanded in place -/
def fwdValues (pos : List (Nat × Option α)) (extra : List (Option α)) : List (Nat × Bool) → Option (List (Option α))
  | [] => some []
  | (v, false) :: rest =>
    match findPos v pos, fwdValues pos extra rest with
    | some x, some r => some (x :: r)
    | _, _ => none
  | (_, true) :: rest => (fwdValues pos extra rest).map (fun r => extra ++ r)

def fwdKw (bound : List (Nat × Dflt)) : List (Nat × Nat) → Option (List (Nat × Dflt))
  | [] => some []
  | (k, v) :: rest =>
    match findKw v bound, fwdKw bound rest with
    | some x, some r => some ((k, x) :: r)
    | _, _ => none

/-- `opsetN.Name(*args, **kw)` in eager mode, up to the node: bind, forward through
`_prepare_inputs` (when the method uses it), `Op(self, name, schema)(…)`.
`none` = the call raises before reaching the runtime. -/
def eagerNode (m : Method) (args : List (Option α)) (kw : List (Nat × Dflt)) : Option (Node α) :=
  match bindPos m.pos args with
  | none => none
  | some (pos, extra) =>
    if m.vararg.isNone && !extra.isEmpty then none else
    if !(kw.all (fun p => (findKw p.1 m.kwonly).isSome)) then none else
    match bindKw m.kwonly kw with
    | none => none
    | some bound =>
      match fwdValues pos extra m.fwdInputs, fwdKw bound m.fwdAttrs with
      | some ins, some attrs =>
        some ⟨m.call, if m.usesPrepare then prepareInputs ins else ins, attrs⟩
      | _, _ => none

/-- what a node denotes for attribute `a` of its schema: the explicit value, else the schema default;
a keyword whose value is `None` never becomes an attribute (`value is not None` in the evaluator,
likewise in `onnx.helper.make_node`) -/
def attrMeaning (attrs : List (Nat × Dflt)) (a : Attr) : Dflt :=
  match findKw a.name attrs with
  | some .pyNone => a.dflt
  | some v => v
  | none => a.dflt

/-- the attribute valuation a node denotes under schema `s` -/
def meaning (s : Schema) (attrs : List (Nat × Dflt)) : List (Nat × Dflt) :=
  s.attrs.map (fun a => (a.name, attrMeaning attrs a))

/-! ## `param_manipulation.separate_input_attributes_from_arguments` (the translation path)

`Converter._translate_call_expr` and `tape_builder` split the written call `op.X(*args, **kwargs)` into
ONNX inputs and attributes with `fill_defaults=False`.  Values are opaque tokens. -/

/-- one parameter of an `OpSignature`: inputs (`is_param()`) may be variadic; attributes may have a default -/
structure SigParam where
  name : Nat
  isInput : Bool
  variadic : Bool
  required : Bool
  /-- `isinstance(param, AttributeParameter) and param.has_default()`: the default's token -/
  dflt : Option Nat
  deriving Repr, Inhabited

inductive SepErr where
  | unexpectedKw
  | missingRequired
  | tooManyArgs
  deriving Repr, DecidableEq

def findTok (k : Nat) : List (Nat × Nat) → Option Nat
  | [] => none
  | p :: ps => if p.1 == k then some p.2 else findTok k ps

/-- the `for i, param in enumerate(op_signature.params)` loop; `rest` = `args[i:]` (emptied by a variadic
parameter, as `args = []` does), accumulators in call order.  Inputs are `Option`: since /repo b7afd5e an
omitted optional input leaves a `None` placeholder, so that a later input given by keyword keeps its
position; `tp` counts the placeholders currently at the end (`trailing_placeholders`). -/
def sepLoop (kwargs : List (Nat × Nat)) (fill : Bool) :
    List SigParam → List Nat → List (Option Nat) → List (Nat × Nat) → Bool → Nat →
      Except SepErr (List (Option Nat) × List (Nat × Nat) × Bool × List Nat × Nat)
  | [], rest, ins, attrs, hasVar, tp => .ok (ins, attrs, hasVar, rest, tp)
  | p :: ps, rest, ins, attrs, hasVar, tp =>
    if p.isInput && p.variadic then
      sepLoop kwargs fill ps [] (ins ++ rest.map some) attrs true (if rest.isEmpty then tp else 0)
    else
      match rest with
      | a :: rest' =>
        if p.isInput then sepLoop kwargs fill ps rest' (ins ++ [some a]) attrs hasVar 0
        else sepLoop kwargs fill ps rest' ins (attrs ++ [(p.name, a)]) hasVar tp
      | [] =>
        match findTok p.name kwargs with
        | some v =>
          if p.isInput then sepLoop kwargs fill ps [] (ins ++ [some v]) attrs hasVar 0
          else sepLoop kwargs fill ps [] ins (attrs ++ [(p.name, v)]) hasVar tp
        | none =>
          match (if p.isInput then none else p.dflt) with
          | some d =>
            if fill then sepLoop kwargs fill ps [] ins (attrs ++ [(p.name, d)]) hasVar tp
            else sepLoop kwargs fill ps [] ins attrs hasVar tp
          | none =>
            if p.required then .error .missingRequired
            else if p.isInput then sepLoop kwargs fill ps [] (ins ++ [none]) attrs hasVar (tp + 1)
            else sepLoop kwargs fill ps [] ins attrs hasVar tp

/-- `separate_input_attributes_from_arguments(op_signature, args, kwargs, fill_defaults, allow_extra_kwargs,
allow_extra_args)`; `del onnx_inputs[-trailing_placeholders:]` = keep all but the last `tp` -/
def separate (params : List SigParam) (args : List Nat) (kwargs : List (Nat × Nat))
    (fill allowExtraKw allowExtraArgs : Bool) : Except SepErr (List (Option Nat) × List (Nat × Nat)) :=
  if !allowExtraKw && kwargs.any (fun kv => !(params.any (fun p => p.name == kv.1))) then .error .unexpectedKw
  else
    match sepLoop kwargs fill params args [] [] false 0 with
    | .error e => .error e
    | .ok (ins, attrs, hasVar, rest, tp) =>
      -- `len(args) > len(op_signature.params)` with no variadic parameter = arguments left over
      if !allowExtraArgs && !hasVar && !rest.isEmpty then .error .tooManyArgs
      else .ok (ins.take (ins.length - tp), attrs)

/-- an eager call on whatever the class exposes under the name: a stub raises -/
def eagerCall (m : Method) (args : List (Option α)) (kw : List (Nat × Dflt)) : Option (Node α) :=
  if m.stub then none else eagerNode m args kw

/-! ## `Opset.__new__` with its class-level cache, and dynamic lookups, as a state machine over histories

`Opset.cache : dict[(cls, domain, version) -> instance]`; `__new__` returns the cached instance or creates
one, sets `instance.domain/version`, and records it.  `__getitem__/__contains__/__getattr__` read
`self.version`, `self.domain` and the (immutable) schema registry — nothing else. -/

structure Inst where
  cls : Nat
  domain : Nat
  version : Nat
  deriving Repr, DecidableEq, Inhabited

structure OState where
  /-- key ↦ index into `insts` -/
  cache : List ((Nat × Nat × Nat) × Nat)
  insts : List Inst
  deriving Repr, Inhabited

inductive Cmd where
  /-- `cls(domain, version)` (for a generated class: `OpsetN()` with its literals) -/
  | new (cls d v : Nat)
  | getitem (i n : Nat)
  | contains (i n : Nat)
  | getattr (i n : Nat)
  deriving Repr, Inhabited

inductive Resp where
  /-- the instance returned, with the `domain`/`version` it carries -/
  | inst (i d v : Nat)
  /-- `Op(self, n, schema)`'s schema key, or `None` -/
  | op (k : Option (Nat × Nat × Nat))
  | bool (b : Bool)
  | attributeError
  | noSuchInstance
  deriving Repr, DecidableEq, Inhabited

def cacheGet (k : Nat × Nat × Nat) : List ((Nat × Nat × Nat) × Nat) → Option Nat
  | [] => none
  | e :: es => if e.1 == k then some e.2 else cacheGet k es

def step (schemas : List Schema) (st : OState) : Cmd → OState × Resp
  | .new c d v =>
    match cacheGet (c, d, v) st.cache with
    | some i =>
      match st.insts[i]? with
      | some x => (st, .inst i x.domain x.version)
      | none => (st, .noSuchInstance)
    | none =>
      let i := st.insts.length
      (⟨((c, d, v), i) :: st.cache, st.insts ++ [⟨c, d, v⟩]⟩, .inst i d v)
  | .getitem i n =>
    match st.insts[i]? with
    | some x => (st, .op ((lookup schemas x.domain x.version n).map Schema.key))
    | none => (st, .noSuchInstance)
  | .contains i n =>
    match st.insts[i]? with
    | some x => (st, .bool (lookup schemas x.domain x.version n).isSome)
    | none => (st, .noSuchInstance)
  | .getattr i n =>
    match st.insts[i]? with
    | some x =>
      match lookup schemas x.domain x.version n with
      | some s => (st, .op (some s.key))
      | none => (st, .attributeError)
    | none => (st, .noSuchInstance)

def run (schemas : List Schema) : OState → List Cmd → OState × List Resp
  | st, [] => (st, [])
  | st, c :: cs =>
    let r := step schemas st c
    let rest := run schemas r.1 cs
    (rest.1, r.2 :: rest.2)

def OState.empty : OState := ⟨[], []⟩

/-! ## which opset a translated function is exported under

`Converter._set_default_opset`, `_find_onnx_opset`, `IRFunction.append_node` (first version of a domain wins,
a different one later only warns) and the `opset_imports` computation of `OnnxFunction._to_model_proto` (for a
function that calls no other script function).  Domain `''` is `enc "" = 1`. -/

/-- what the body does, in order: a call `opsetX.Op(...)` of an opset object with (domain, version), or a
construct the converter translates with `self.default_opset` (operators `-x`, `x + y`, constants, …) -/
inductive Ev where
  | call (d v : Nat)
  | implicit
  deriving Repr, DecidableEq, Inhabited

inductive ConvErr where
  /-- "Two distincts opset were used" -/
  | twoOpsets
  /-- "default_opset must be specified in script for functions that do not contain any use of an ONNX opset" -/
  | noDefault
  deriving Repr, DecidableEq, Inhabited

structure ConvState where
  /-- `Converter.default_opset_` -/
  dflt : Option (Nat × Nat)
  /-- `IRFunction.opset_imports`, in insertion order -/
  imports : List (Nat × Nat)
  /-- "Version conflict" warnings: (domain, existing, new) -/
  conflicts : List (Nat × Nat × Nat)
  deriving Repr, DecidableEq, Inhabited

/-- `IRFunction.append_node` as far as `opset_imports` goes -/
def appendNode (st : ConvState) (d v : Nat) : ConvState :=
  match findTok d st.imports with
  | none => { st with imports := st.imports ++ [(d, v)] }
  | some v0 => if v0 == v then st else { st with conflicts := st.conflicts ++ [(d, v0, v)] }

/-- `Converter._set_default_opset` -/
def setDefault (st : ConvState) (d v : Nat) : Except ConvErr ConvState :=
  if d != 1 then .ok st
  else
    match st.dflt with
    | some (d0, v0) => if d != d0 || v != v0 then .error .twoOpsets else .ok st
    | none => .ok { st with dflt := some (d, v) }

def convStep (st : ConvState) : Ev → Except ConvErr ConvState
  | .call d v =>
    match setDefault st d v with
    | .error e => .error e
    | .ok st' => .ok (appendNode st' d v)
  | .implicit =>
    match st.dflt with
    | none => .error .noDefault
    | some (d0, v0) => .ok (appendNode st d0 v0)

def convRun : ConvState → List Ev → Except ConvErr ConvState
  | st, [] => .ok st
  | st, e :: es =>
    match convStep st e with
    | .error err => .error err
    | .ok st' => convRun st' es

/-- `_find_onnx_opset`: the first opset of domain `''` called in the body -/
def findOnnxOpset : List Ev → Option (Nat × Nat)
  | [] => none
  | .call d v :: es => if d == 1 then some (d, v) else findOnnxOpset es
  | .implicit :: es => findOnnxOpset es

/-- `script(default_opset=declared)` on a function whose body is `evs` -/
def convert (declared : Option (Nat × Nat)) (evs : List Ev) : Except ConvErr ConvState :=
  convRun ⟨(match declared with | some x => some x | none => findOnnxOpset evs), [], []⟩ evs

/-- `_to_model_proto(opset_version=opt)`: the option (else `onnx_opset_version()` = `current`) is used only
when no `''` import was inferred from the body -/
def exportImports (g : List (Nat × Nat)) (opt : Option Nat) (current : Nat) : List (Nat × Nat) :=
  match findTok 1 g with
  | some _ => g
  | none => g ++ [(1, match opt with | some k => k | none => current)]

/-! ## the one-node model an eager call is run as

`Op.__call__ → BaseEvaluator.eval_op → ORTEvaluator._eval → _call_ort →
evaluator._prepare_model_and_inputs_for_eager(schema, args, kwargs, …)`: the schema object the generated method
obtained from `get_schema(<literals>)` decides `op_type`, `domain` and the single `opset_import`
`(schema.domain, schema.since_version)`; an argument that is `None` becomes the empty input name and is not fed;
a keyword whose value is `None` is not made an attribute; `ir_version = values.select_ir_version(since, domain)`. -/

/-- `enc "ai.onnx"` -/
def aiOnnx : Nat := 99476314937781880

/-- `onnx.helper.OP_SET_ID_VERSION_MAP.get((domain, version))` -/
def findIr (d v : Nat) : List ((Nat × Nat) × Nat) → Option Nat
  | [] => none
  | e :: es => if e.1.1 == d && e.1.2 == v then some e.2 else findIr d v es

/-- `max(v for k, v in OP_SET_ID_VERSION_MAP.items() if k[0] == "ai.onnx")` -/
def maxIrOf (d : Nat) : List ((Nat × Nat) × Nat) → Nat
  | [] => 0
  | e :: es => if e.1.1 == d then max e.2 (maxIrOf d es) else maxIrOf d es

/-- `values.select_ir_version(version, domain)`: `''` reads as `ai.onnx`; an unlisted (domain, version) gets the
newest `ai.onnx` ir_version, a listed one `max(required, 10)` -/
def selectIrVersion (irMap : List ((Nat × Nat) × Nat)) (version domain : Nat) : Nat :=
  let d := if domain == 1 then aiOnnx else domain
  match findIr d version irMap with
  | none => maxIrOf aiOnnx irMap
  | some r => max r 10

structure EagerModel (α : Type) where
  opType : Nat
  domain : Nat
  /-- `node.input`: `some i` = the name `input{i}`; `none` = `""` (`_rename_io` of a `None` argument) -/
  inputNames : List (Option Nat)
  /-- the `AttributeProto`s: keyword arguments in call order whose value `is not None` -/
  attrs : List (Nat × Dflt)
  /-- the model's only `opset_import` -/
  opsetImport : Nat × Nat
  irVersion : Nat
  /-- `session_run_input`, in order: `input{i}` ↦ value -/
  feeds : List (Nat × α)

/-- `[_rename_io("input", i, arg) for i, arg in enumerate(args)]`, counting from `i` -/
def renameFrom : Nat → List (Option α) → List (Option Nat)
  | _, [] => []
  | i, none :: xs => none :: renameFrom (i + 1) xs
  | i, some _ :: xs => some i :: renameFrom (i + 1) xs

/-- `{name: arg for name, arg in zip(inputs, args) if name != ""}`, counting from `i` -/
def feedsFrom : Nat → List (Option α) → List (Nat × α)
  | _, [] => []
  | i, none :: xs => feedsFrom (i + 1) xs
  | i, some v :: xs => (i, v) :: feedsFrom (i + 1) xs

/-- `_prepare_model_and_inputs_for_eager(schema, inputs, attributes, …)` -/
def modelOf (irMap : List ((Nat × Nat) × Nat)) (s : Schema) (inputs : List (Option α))
    (attrs : List (Nat × Dflt)) : EagerModel α :=
  ⟨s.name, s.domain, renameFrom 0 inputs, dropNone attrs, (s.domain, s.since),
    selectIrVersion irMap s.since s.domain, feedsFrom 0 inputs⟩

/-- pairwise distinct (Boolean, for the kernel) -/
def distinctNat : List Nat → Bool
  | [] => true
  | x :: xs => !xs.contains x && distinctNat xs

/-- strictly increasing (Boolean, for the kernel) -/
def increasing : List Nat → Bool
  | [] => true
  | [_] => true
  | a :: b :: r => decide (a < b) && increasing (b :: r)

/-- per (domain, name) of the chunks, the registered `since_version`s are pairwise distinct: a key
(name, since_version, domain) names one schema -/
def keysUnique (reg : List Schema) (chunks : List (Nat × List Nat)) : Bool :=
  chunks.all (fun g => g.2.all (fun n => selectS g.1 n reg [] (fun S => distinctNat (S.map Schema.since))))

/-- the parameter names of a generated `def` are pairwise distinct (anything else is a `SyntaxError`) -/
def paramsDistinct (m : Method) : Bool :=
  distinctNat (m.pos.map Prod.fst ++ (match m.vararg with | some v => [v] | none => []) ++ m.kwonly.map Prod.fst)

/-- the whole eager path of `opsetN.Name(*args, **kw)` up to the model handed to the runtime: Python binding and
forwarding (`eagerCall`), `schema = get_schema(<the method's literals>)` against the registry (raises when nothing
is registered under them), then the one-node model for *that schema object*.  `none` = the call raises. -/
def eagerRun (reg : List Schema) (irMap : List ((Nat × Nat) × Nat)) (m : Method) (args : List (Option α))
    (kw : List (Nat × Dflt)) : Option (EagerModel α) :=
  match eagerCall m args kw with
  | none => none
  | some node =>
    match lookup reg node.key.2.2 node.key.2.1 node.key.1 with
    | none => none
    | some s => some (modelOf irMap s node.inputs node.attrs)

end OV.C17
