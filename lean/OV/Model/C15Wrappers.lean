/-!
# C15 — the ModelProto / ir.Model wrappers as record algebra

A model — in either representation — is a record of *carriers*.  Serde (`onnx_ir`, third party) is an
abstract pair `de`/`ser`; every dual-entry API of `/repo` is transcribed as the composition its source
performs on the proto entry and on the IR entry, together with *which object* ends up holding the result
(the argument, mutated in place, or a fresh object) and what is returned.

Transcribed from (line numbers of the pinned tree + fix 4aa0d5c):
* `onnxscript/optimizer/__init__.py`   `optimize` 30-84, `inline` 87-90, `fold_constants` 93-108,
  `remove_unused_nodes` 111-120, `remove_unused_functions` 123-132
* `onnxscript/rewriter/__init__.py`    `rewrite` 95-136
* `onnxscript/version_converter/__init__.py` `convert_version` 165-193
* `onnxscript/utils/replace.py`        `replace_functions_inplace` 12-32, `replace_functions` 35-49

Core Lean only.  What the IR-level transformation `T f` *computes* is a parameter (C03/C05/C07/C10 are
about that); this file is only about the plumbing around it.
-/
namespace OV.C15

/-- The carriers of a model.  `otherGraph` / `otherModel` collect the proto fields the carriers above do
not cover (`graph.sparse_initializer`, `graph.quantization_annotation` / `training_info`, `configuration`). -/
inductive Carrier
  | irVersion | producerName | producerVersion | domain | modelVersion | docString | metadataProps
  | opsetImports | functions
  | graphName | graphDoc | graphInputs | graphOutputs | valueInfo | initializers | nodes | graphMeta
  | otherGraph | otherModel
  deriving DecidableEq, Repr

def Carrier.all : List Carrier :=
  [.irVersion, .producerName, .producerVersion, .domain, .modelVersion, .docString, .metadataProps,
   .opsetImports, .functions, .graphName, .graphDoc, .graphInputs, .graphOutputs, .valueInfo,
   .initializers, .nodes, .graphMeta, .otherGraph, .otherModel]

def Carrier.name : Carrier → String
  | .irVersion => "irVersion" | .producerName => "producerName" | .producerVersion => "producerVersion"
  | .domain => "domain" | .modelVersion => "modelVersion" | .docString => "docString"
  | .metadataProps => "metadataProps" | .opsetImports => "opsetImports" | .functions => "functions"
  | .graphName => "graphName" | .graphDoc => "graphDoc" | .graphInputs => "graphInputs"
  | .graphOutputs => "graphOutputs" | .valueInfo => "valueInfo" | .initializers => "initializers"
  | .nodes => "nodes" | .graphMeta => "graphMeta" | .otherGraph => "otherGraph" | .otherModel => "otherModel"

/-- Carriers whose content holds `TensorProto`s that the IR wraps without copying (the only places a
write-through of the serde can reach). -/
def Carrier.holdsTensors : Carrier → Bool
  | .nodes | .initializers | .functions => true
  | _ => false

/-- Carriers living inside `ModelProto.graph` (what `model_proto.graph.CopyFrom(…)` overwrites). -/
def Carrier.inGraph : Carrier → Bool
  | .graphName | .graphDoc | .graphInputs | .graphOutputs | .valueInfo | .initializers | .nodes
  | .graphMeta | .otherGraph => true
  | _ => false

/-- A model is its carriers (`V` = the representation of one carrier's content). -/
abbrev Rec (V : Type) := Carrier → V

/-- `onnx_ir` serde: `de = ir.serde.deserialize_model = ir.from_proto`, `ser = serialize_model = to_proto`. -/
structure Serde (P I : Type) where
  de : Rec P → Rec I
  ser : Rec I → Rec P
  /-- content of an emptied repeated field (`del model_proto.functions[:]`) -/
  empty : P
  /-- **Aliasing.**  `de` does not copy tensors: `TensorProtoTensor` wraps the caller's `TensorProto`, and
  its `name` setter writes through.  `writeBack M m'` is the content of the source proto `M` once the IR
  model deserialised from it has been transformed into `m'`.  A serde that copies has `writeBack M _ = M`. -/
  writeBack : Rec P → Rec I → Rec P
  /-- `restore saved cur`: the caller's proto `cur` after the tensor names recorded in `saved` (the same proto,
  earlier) have been written back (`optimizer._preserve_tensor_names`, the repair of C15-ALIAS). -/
  restore : Rec P → Rec P → Rec P

/-- The normaliser `N = ser ∘ de`. -/
def Serde.N {P I : Type} (s : Serde P I) (M : Rec P) : Rec P := s.ser (s.de M)

/-- The dual-entry APIs.  `rewrite` carries the one decision it takes before touching serde:
whether the rule list it was given is empty (`elif not pattern_rewrite_rules: return model`). -/
inductive Api
  | optimize | foldConstants | removeUnusedNodes | removeUnusedFunctions
  | rewrite (emptyRules : Bool)
  | convertVersion | replaceFunctions
  deriving DecidableEq, Repr

/-- The two entry forms. -/
inductive Entry | proto | ir
  deriving DecidableEq, Repr

/-- Keyword options the wrappers forward to the IR-level implementation. -/
inductive OptKey
  | numIterations | onnxShapeInference | stopIfNoChange | inputSizeLimit | outputSizeLimit | inline  -- optimize
  | foldKwargs            -- fold_constants: `*args, **kwargs` passed through as a whole
  | rules                 -- rewrite: pattern_rewrite_rules
  | targetVersion | fallback   -- convert_version
  | functions             -- replace_functions
  deriving DecidableEq, Repr

def OptKey.all : List OptKey :=
  [.numIterations, .onnxShapeInference, .stopIfNoChange, .inputSizeLimit, .outputSizeLimit, .inline,
   .foldKwargs, .rules, .targetVersion, .fallback, .functions]

def OptKey.name : OptKey → String
  | .numIterations => "num_iterations" | .onnxShapeInference => "onnx_shape_inference"
  | .stopIfNoChange => "stop_if_no_change" | .inputSizeLimit => "input_size_limit"
  | .outputSizeLimit => "output_size_limit" | .inline => "inline" | .foldKwargs => "kwargs"
  | .rules => "rules" | .targetVersion => "target_version" | .fallback => "fallback"
  | .functions => "functions"

/-- An option tuple (`W` = the representation of one option's value). -/
abbrev Opts (W : Type) := OptKey → W

/-- **Option routing**, transcribed from the keyword lists of the wrappers: `route f e k` is the *caller's*
option whose value the entry `e` of API `f` passes as parameter `k` of the IR-level implementation.
`optimize` has two separate keyword lists (IR entry lines 60-68, proto entry lines 73-81);
`fold_constants` passes `*args, **kwargs` through on both; `convert_version` builds one
`ConvertVersionPass(target_version=target_version, fallback=fallback)` for both; `rewrite` builds one
pass list from `pattern_rewrite_rules` for both. -/
def route : Api → Entry → OptKey → OptKey
  | .optimize, .ir, .numIterations => .numIterations
  | .optimize, .ir, .onnxShapeInference => .onnxShapeInference
  | .optimize, .ir, .stopIfNoChange => .stopIfNoChange
  | .optimize, .ir, .inputSizeLimit => .inputSizeLimit
  | .optimize, .ir, .outputSizeLimit => .outputSizeLimit
  | .optimize, .ir, .inline => .inline
  | .optimize, .proto, .numIterations => .numIterations
  | .optimize, .proto, .onnxShapeInference => .onnxShapeInference
  | .optimize, .proto, .stopIfNoChange => .stopIfNoChange
  | .optimize, .proto, .inputSizeLimit => .inputSizeLimit
  | .optimize, .proto, .outputSizeLimit => .outputSizeLimit
  | .optimize, .proto, .inline => .inline
  | _, _, k => k

/-- The option tuple the IR-level implementation receives. -/
def forward {W : Type} (f : Api) (e : Entry) (o : Opts W) : Opts W := fun k => o (route f e k)

/-- What the call hands back. -/
inductive Ret (X : Type)
  | argItself          -- `return model` (the very object passed in)
  | fresh (v : X)      -- a newly built object
  | none               -- `-> None`
  | aux                -- a result record that is not a model (`FoldConstantsResult`)
  | raised             -- the call refused its argument (`raise ValueError(...)`) before touching anything

/-- Everything observable about one call: the content of the caller's object afterwards and the return. -/
structure Outcome (X : Type) where
  argAfter : X
  ret : Ret X

/-- The model the call produced: the fresh object when one is returned, otherwise the caller's object. -/
def Outcome.result {X : Type} (o : Outcome X) : X :=
  match o.ret with
  | .fresh v => v
  | _ => o.argAfter

def Outcome.argMutated {X : Type} [DecidableEq X] (o : Outcome X) (before : X) : Bool :=
  o.argAfter != before

/-- IR entry.  `T f o` is the in-place transformation the passes perform under option tuple `o` (a
parameter).  Every IR entry mutates the `ir.Model` it is given; `optimize` and `rewrite` also return that
same object. -/
def irPath {I W : Type} (T : Api → Opts W → Rec I → Rec I) (f : Api) (o : Opts W) (m : Rec I) : Outcome (Rec I) :=
  let t := T f (forward f .ir o)
  match f with
  | .optimize => ⟨t m, .argItself⟩                      -- optimize_ir(model, …); return model
  | .foldConstants => ⟨t m, .aux⟩                       -- return constant_folding.fold_constants(model, *args, **kwargs)
  | .removeUnusedNodes => ⟨t m, .none⟩
  | .removeUnusedFunctions => ⟨t m, .none⟩
  | .rewrite true => ⟨m, .argItself⟩                    -- elif not rules: return model
  | .rewrite false => ⟨t m, .argItself⟩                 -- in-place passes; `.model` is the argument
  | .convertVersion => ⟨t m, .none⟩
  | .replaceFunctions => ⟨t m, .none⟩                   -- replace_functions_inplace

/-- `convert_version`'s proto branch after fix 4aa0d5c: `graph.Clear(); graph.CopyFrom(to_proto(model.graph))`,
`del functions[:]`, `del opset_import[:]` + re-add from `model.opset_imports`; every other field of the
caller's proto is not assigned. -/
def spliceConverted {P : Type} (empty : P) (M S : Rec P) : Rec P := fun c =>
  if c.inGraph then S c
  else if c = .functions then empty
  else if c = .opsetImports then S c
  else M c

/-- The proto branch *before* fix 4aa0d5c (kept for the refutation witness of D9): opset imports kept. -/
def spliceConvertedOld {P : Type} (empty : P) (M S : Rec P) : Rec P := fun c =>
  if c.inGraph then S c
  else if c = .functions then empty
  else M c

/-- Proto entry.  The variants that return a fresh proto leave the caller's object to whatever the
serde's aliasing does to it (`writeBack`) — `optimize` writes the recorded tensor names back (`restore`);
the in-place variants overwrite it. -/
def protoPath {P I W : Type} (s : Serde P I) (T : Api → Opts W → Rec I → Rec I) (f : Api) (o : Opts W)
    (M : Rec P) : Outcome (Rec P) :=
  let m' := T f (forward f .proto o) (s.de M)
  match f with
  | .optimize => ⟨s.restore M (s.writeBack M m'), .fresh (s.ser m')⟩  -- with _preserve_tensor_names(model): …; return new_proto  (0d5ec74)
  | .foldConstants => ⟨s.ser m', .aux⟩                         -- Clear(); CopyFrom(new_proto); return result
  | .removeUnusedNodes => ⟨s.ser m', .none⟩
  | .removeUnusedFunctions => ⟨s.ser m', .none⟩
  | .rewrite true => ⟨M, .argItself⟩                           -- return model  (no serde at all)
  | .rewrite false => ⟨s.writeBack M m', .fresh (s.ser m')⟩
  | .convertVersion => ⟨spliceConverted s.empty (s.writeBack M m') (s.ser m'), .none⟩
  | .replaceFunctions => ⟨s.writeBack M m', .fresh (s.ser m')⟩

/-- `optimize`'s proto entry as it was before fix 0d5ec74 (no `_preserve_tensor_names`): the caller's proto is
left to the serde's write-through (kept for the refutation witness of C15-ALIAS). -/
def protoOptimizeOld {P I W : Type} (s : Serde P I) (T : Api → Opts W → Rec I → Rec I) (o : Opts W)
    (M : Rec P) : Outcome (Rec P) :=
  let m' := T .optimize (forward .optimize .proto o) (s.de M)
  ⟨s.writeBack M m', .fresh (s.ser m')⟩

/-- Proto entry of `convert_version` as it was before fix 4aa0d5c. -/
def protoConvertOld {P I W : Type} (s : Serde P I) (T : Api → Opts W → Rec I → Rec I) (o : Opts W) (M : Rec P) :
    Outcome (Rec P) :=
  ⟨spliceConvertedOld s.empty M (s.ser (T .convertVersion (forward .convertVersion .proto o) (s.de M))), .none⟩

/-- `optimizer.inline(model: ir.Model)`: IR entry only; `if model.functions: InlinePass()(model)`. -/
def inlinePath {I : Type} (hasFunctions : Rec I → Bool) (inl : Rec I → Rec I) (m : Rec I) : Outcome (Rec I) :=
  ⟨if hasFunctions m then inl m else m, .none⟩

/-- `replace_functions` / `replace_functions_inplace` with their guard (`utils/replace.py` 23-26):
`if len(model_functions) != 0: raise ValueError("Input model cannot have model-local functions.")` — the
implementation inlines *every* function afterwards, so a model that has functions of its own is refused
before anything is touched.  (On the proto entry the guard runs on `de M`, before any write-back can happen.) -/
def irReplace {I W : Type} (T : Api → Opts W → Rec I → Rec I) (hasFunctions : Rec I → Bool) (o : Opts W)
    (m : Rec I) : Outcome (Rec I) :=
  if hasFunctions m then ⟨m, .raised⟩ else irPath T .replaceFunctions o m

def protoReplace {P I W : Type} (s : Serde P I) (T : Api → Opts W → Rec I → Rec I) (hasFunctions : Rec I → Bool)
    (o : Opts W) (M : Rec P) : Outcome (Rec P) :=
  if hasFunctions (s.de M) then ⟨M, .raised⟩ else protoPath s T .replaceFunctions o M

/-! ## Call histories

The wrappers are used one after the other on the object the previous call produced (`optimize` then
`convert_version` then `fold_constants` …).  On the proto side the next call receives the *returned* proto
when one is returned and the (mutated) argument otherwise — `Outcome.result`; on the IR side every call is in
place on the same `ir.Model`. -/

/-- A call history: (API, option tuple) pairs, first call first. -/
abbrev History (W : Type) := List (Api × Opts W)

/-- The model a history of proto-entry calls produces from the caller's proto `M`. -/
def protoChain {P I W : Type} (s : Serde P I) (T : Api → Opts W → Rec I → Rec I) : History W → Rec P → Rec P
  | [], M => M
  | (f, o) :: h, M => protoChain s T h (protoPath s T f o M).result

/-- The model the same history of IR-entry calls produces from the `ir.Model` `m`. -/
def irChain {I W : Type} (T : Api → Opts W → Rec I → Rec I) : History W → Rec I → Rec I
  | [], m => m
  | (f, o) :: h, m => irChain T h (irPath T f o m).result

/-- Object identity along a proto history: what the *caller's original object* holds, and whether the object
the next call receives still **is** that original (`cur = none`) or a fresh proto (`cur = some content`).
`rewrite(M, [])` returns `M` itself, so a later in-place call mutates the caller's object; after the first call
that returns a fresh proto the original is out of reach of every later call. -/
structure Track (P : Type) where
  orig : Rec P
  cur : Option (Rec P)

def Track.current {P : Type} (t : Track P) : Rec P := t.cur.getD t.orig

def protoTrackStep {P I W : Type} (s : Serde P I) (T : Api → Opts W → Rec I → Rec I) (t : Track P)
    (c : Api × Opts W) : Track P :=
  let out := protoPath s T c.1 c.2 t.current
  match t.cur, out.ret with
  | none, .fresh v => ⟨out.argAfter, some v⟩          -- the original was the argument; a new object goes on
  | none, _ => ⟨out.argAfter, none⟩                   -- in place / `return model`: the original goes on
  | some _, .fresh v => ⟨t.orig, some v⟩
  | some _, _ => ⟨t.orig, some out.argAfter⟩

def protoTrack {P I W : Type} (s : Serde P I) (T : Api → Opts W → Rec I → Rec I) (h : History W) (M : Rec P) : Track P :=
  h.foldl (protoTrackStep s T) ⟨M, none⟩

/-! ## The wrappers as straight-line programs (regenerated from the source by `harness/extract_c15.py`)

The translator symbolically executes each wrapper's Python body once per entry form (resolving
`isinstance(model, …)`, the `proto` flag, aliases) and emits the sequence of *plumbing statements* below;
`OV/Gen/C15Plumbing.lean` holds the programs, and `Props/C15.lean` proves that executing them is exactly
`protoPath` / `irPath` / `protoReplace` / `irReplace` / `inlinePath`. -/

inductive Stmt
  | deser              -- x = ir.serde.deserialize_model(arg) / ir.from_proto(arg)
  | call               -- the IR-level implementation applied to the IR model in hand
  | callIfHasFunctions -- `if model.functions: <call>`
  | ser                -- new = ir.serde.serialize_model(ir) / ir.to_proto(ir)
  | serGraph           -- new = ir.to_proto(ir.graph)
  | clearArg           -- arg.Clear()
  | copyFromNew        -- arg.CopyFrom(new)
  | graphClear         -- arg.graph.Clear()
  | graphCopyFromNew   -- arg.graph.CopyFrom(new)
  | delFunctions       -- del arg.functions[:]
  | delOpsets          -- del arg.opset_import[:]
  | addOpsetsFromIr    -- for d, v in ir.opset_imports.items(): arg.opset_import.add(domain=d, version=v)
  | saveNames          -- with _preserve_tensor_names(arg):   (enter)
  | restoreNames       --                                     (exit: names recorded at entry are written back)
  | skipUnlessModified (n : Nat)  -- `if result.modified:` guarding the next n statements (result = the last call's)
  | guardEmptyRules    -- if rules is None: rules = DEFAULT  elif not rules: return arg
  | guardNoFunctions   -- if len(model.functions) != 0: raise ValueError
  | retArg | retNew | retNone | retAux
  | unknown            -- anything the translator does not recognise (no theorem about such a program checks)
  deriving DecidableEq, Repr

/-- State of the proto entry: the caller's object, the IR model in hand, the last serialised proto, and the
return once one happened. -/
structure PState (P I : Type) where
  arg : Rec P
  ir : Rec I
  new : Rec P
  saved : Rec P
  flag : Bool          -- what the last call of the IR-level implementation reported as `modified`
  skip : Nat           -- statements still to be skipped by a failed `if result.modified:`
  done : Option (Ret (Rec P))

def protoStep {P I : Type} (s : Serde P I) (t : Rec I → Rec I) (hasF : Rec I → Bool) (modified : Rec I → Bool)
    (emptyRules : Bool) (st : PState P I) (c : Stmt) : PState P I :=
  match st.done with
  | some _ => st
  | none =>
    match st.skip with
    | k + 1 => { st with skip := k }
    | 0 =>
    match c with
    | .deser => { st with ir := s.de st.arg }
    | .call => { st with ir := t st.ir, arg := s.writeBack st.arg (t st.ir), flag := modified st.ir }
    | .skipUnlessModified n => if st.flag then st else { st with skip := n }
    | .callIfHasFunctions =>
      if hasF st.ir then { st with ir := t st.ir, arg := s.writeBack st.arg (t st.ir) } else st
    | .ser => { st with new := s.ser st.ir }
    | .serGraph => { st with new := s.ser st.ir }
    | .clearArg => { st with arg := fun _ => s.empty }
    | .copyFromNew => { st with arg := st.new }
    | .graphClear => { st with arg := fun c => if c.inGraph then s.empty else st.arg c }
    | .graphCopyFromNew => { st with arg := fun c => if c.inGraph then st.new c else st.arg c }
    | .delFunctions => { st with arg := fun c => if c = .functions then s.empty else st.arg c }
    | .delOpsets => { st with arg := fun c => if c = .opsetImports then s.empty else st.arg c }
    | .addOpsetsFromIr => { st with arg := fun c => if c = .opsetImports then s.ser st.ir c else st.arg c }
    | .saveNames => { st with saved := st.arg }
    | .restoreNames => { st with arg := s.restore st.saved st.arg }
    | .guardEmptyRules => if emptyRules then { st with done := some .argItself } else st
    | .guardNoFunctions => if hasF st.ir then { st with done := some .raised } else st
    | .retArg => { st with done := some .argItself }
    | .retNew => { st with done := some (.fresh st.new) }
    | .retNone => { st with done := some .none }
    | .retAux => { st with done := some .aux }
    | .unknown => st

/-- Run a proto-entry program on the caller's proto `M`.  (`de M` as initial `ir`/`new` is a placeholder:
every generated program assigns them before use.)  Falling off the end returns `None`. -/
def protoExec {P I : Type} (s : Serde P I) (t : Rec I → Rec I) (hasF : Rec I → Bool) (modified : Rec I → Bool)
    (emptyRules : Bool) (prog : List Stmt) (M : Rec P) : Outcome (Rec P) :=
  let st := prog.foldl (protoStep s t hasF modified emptyRules) ⟨M, s.de M, M, M, true, 0, none⟩
  ⟨st.arg, st.done.getD .none⟩

structure IState (I : Type) where
  m : Rec I
  flag : Bool
  skip : Nat
  done : Option (Ret (Rec I))

def irStep {I : Type} (t : Rec I → Rec I) (hasF : Rec I → Bool) (modified : Rec I → Bool) (emptyRules : Bool)
    (st : IState I) (c : Stmt) : IState I :=
  match st.done with
  | some _ => st
  | none =>
    match st.skip with
    | k + 1 => { st with skip := k }
    | 0 =>
    match c with
    | .call => { st with m := t st.m, flag := modified st.m }
    | .skipUnlessModified n => if st.flag then st else { st with skip := n }
    | .callIfHasFunctions => if hasF st.m then { st with m := t st.m } else st
    | .guardEmptyRules => if emptyRules then { st with done := some .argItself } else st
    | .guardNoFunctions => if hasF st.m then { st with done := some .raised } else st
    | .retArg => { st with done := some .argItself }
    | .retNone => { st with done := some .none }
    | .retAux => { st with done := some .aux }
    | _ => st          -- serde / proto statements have no meaning on the IR entry

def irExec {I : Type} (t : Rec I → Rec I) (hasF : Rec I → Bool) (modified : Rec I → Bool) (emptyRules : Bool)
    (prog : List Stmt) (m : Rec I) : Outcome (Rec I) :=
  let st := prog.foldl (irStep t hasF modified emptyRules) ⟨m, true, 0, none⟩
  ⟨st.m, st.done.getD .none⟩

/-- `fold_constants`' proto branch as seeded change C15-7 had it: copy back only `if result.modified:`
(kept for the refutation: the real wrapper copies back always). -/
def foldProgConditional : List Stmt :=
  [.deser, .call, .skipUnlessModified 3, .ser, .clearArg, .copyFromNew, .retAux]

/-- A pass pipeline: the named passes applied in order under the same option tuple. -/
def pipeline {I W : Type} (P : String → Opts W → Rec I → Rec I) (ps : List String) (o : Opts W) (m : Rec I) : Rec I :=
  ps.foldl (fun acc p => P p o acc) m

/-- The passes through which the IR can write into the proto it was deserialised from: they rename a value
that carries an initializer tensor (`Value.name` propagates to `const_value.name`) or turn an aliased
attribute tensor into an initializer (named at serialisation). -/
def renamingPasses : List String :=
  ["LiftConstantsToInitializersPass", "LiftSubgraphInitializersToMainGraphPass", "NameFixPass",
   "IdentityEliminationPass", "CommonSubexpressionEliminationPass", "OutputFixPass"]

/-- A program is *recognised* when the translator understood every statement. -/
def recognised (prog : List Stmt) : Bool := !prog.contains .unknown

def Api.emptyRules : Api → Bool
  | .rewrite e => e
  | _ => false

def Api.srcName : Api → String
  | .optimize => "optimize" | .foldConstants => "fold_constants" | .removeUnusedNodes => "remove_unused_nodes"
  | .removeUnusedFunctions => "remove_unused_functions" | .rewrite _ => "rewrite"
  | .convertVersion => "convert_version" | .replaceFunctions => "replace_functions"

def Entry.srcName : Entry → String
  | .proto => "proto" | .ir => "ir"

/-- Name of the option in the wrapper's signature / at the IR-level implementation. -/
def OptKey.callerName : OptKey → String
  | .rules => "pattern_rewrite_rules" | k => k.name
def OptKey.calleeName : OptKey → String
  | .functions => "irfunctions" | k => k.name

/-- The (API, entry, option) triples whose routing the source table is checked against. -/
def checkedRoutes : List (Api × Entry × OptKey) :=
  ([Entry.proto, Entry.ir].flatMap fun e =>
    [.numIterations, .onnxShapeInference, .stopIfNoChange, .inputSizeLimit, .outputSizeLimit, .inline].map
      fun k => (Api.optimize, e, k)) ++
  [(.foldConstants, .proto, .foldKwargs), (.foldConstants, .ir, .foldKwargs),
   (.rewrite false, .proto, .rules), (.rewrite false, .ir, .rules),
   (.convertVersion, .proto, .targetVersion), (.convertVersion, .ir, .targetVersion),
   (.convertVersion, .proto, .fallback), (.convertVersion, .ir, .fallback),
   (.replaceFunctions, .proto, .functions)]

/-- APIs whose proto entry moves the *whole* serialised result into the result object. -/
def Api.wholesale : Api → Bool
  | .rewrite true => false
  | .convertVersion => false
  | _ => true

/-- APIs documented as in-place on a proto (`fold_constants`, `remove_unused_*`, `convert_version`). -/
def Api.inPlaceOnProto : Api → Bool
  | .foldConstants | .removeUnusedNodes | .removeUnusedFunctions | .convertVersion => true
  | _ => false

/-- Frame of each API: the carriers its IR transformation may change (contract on `T`, validated by
the harness: no observed change outside, every listed carrier observed changing).  The rest must survive. -/
def touches : Api → Carrier → Bool
  | .optimize, c => (c matches .functions | .opsetImports | .graphOutputs | .valueInfo | .initializers | .nodes)
  | .foldConstants, c => (c matches .functions | .graphOutputs | .valueInfo | .initializers | .nodes)
  | .removeUnusedNodes, c => (c matches .functions | .valueInfo | .initializers | .nodes)
  | .removeUnusedFunctions, c => (c matches .functions)
  | .rewrite true, _ => false
  | .rewrite false, c => (c matches .functions | .opsetImports | .graphOutputs | .valueInfo | .initializers | .nodes)
  | .convertVersion, c => (c matches .functions | .opsetImports | .valueInfo | .initializers | .nodes)
  | .replaceFunctions, c => (c matches .functions | .opsetImports | .valueInfo | .nodes)

/-- Carriers `convert_version`'s proto branch leaves exactly as the caller had them. -/
def keptByConvert (c : Carrier) : Bool := !c.inGraph && c != .functions && c != .opsetImports

/-! ## Symbolic instance (used by the driver): which expression each carrier of the result holds -/

/-- Symbolic serde over strings: every operation wraps its operand, so the result of a path spells out
the composition that produced each carrier. -/
def symSerde : Serde String String :=
  { de := fun M c => "de(" ++ M c ++ ")", ser := fun m c => "ser(" ++ m c ++ ")", empty := "empty",
    writeBack := fun M _ c => M c ++ "~", restore := fun saved _ c => saved c }   -- `~` = the caller's content, possibly written through by aliasing

def symT : Api → Opts String → Rec String → Rec String := fun _ _ m c => "T(" ++ m c ++ ")"

def symArg : Rec String := fun _ => "M"

/-- Symbolic option tuple: every option holds its own name. -/
def symOpts : Opts String := OptKey.name

def showRet {X : Type} : Ret X → String
  | .argItself => "arg" | .fresh _ => "fresh" | .none => "none" | .aux => "aux" | .raised => "raised"

end OV.C15
