/-!
# C15 — the ModelProto / ir.Model wrappers as record algebra

A model — in either representation — is a record of *carriers*.  Serde (`onnx_ir`, third party) is an
abstract pair `de`/`ser`; every dual-entry API of `/repo` is transcribed as the composition its source
performs on the proto entry and on the IR entry, together with *which object* ends up holding the result
(the argument, mutated in place, or a fresh object) and what is returned.

Transcribed from (line numbers of the pinned tree + fix 4aa0d5c):
* `onnxscript/optimizer/__init__.py`   `optimize` 30-84, `inline` 87-90, `fold_constants` 93-108,
  `remove_unused_nodes` 111-120, `remove_unused_functions` 123-132
* `onnxscript/rewriter/__init__.py`    `rewrite` 95-136
* `onnxscript/version_converter/__init__.py` `convert_version` 165-193
* `onnxscript/utils/replace.py`        `replace_functions_inplace` 12-32, `replace_functions` 35-49

Core Lean only.  What the IR-level transformation `T f` *computes* is a parameter (C03/C05/C07/C10 are
about that); this file is only about the plumbing around it.
-/
namespace OV.C15

/-- The carriers of a model.  `otherGraph` / `otherModel` collect the proto fields the carriers above do
not cover (`graph.sparse_initializer`, `graph.quantization_annotation` / `training_info`, `configuration`). -/
inductive Carrier
  | irVersion | producerName | producerVersion | domain | modelVersion | docString | metadataProps
  | opsetImports | functions
  | graphName | graphDoc | graphInputs | graphOutputs | valueInfo | initializers | nodes | graphMeta
  | otherGraph | otherModel
  deriving DecidableEq, Repr

def Carrier.all : List Carrier :=
  [.irVersion, .producerName, .producerVersion, .domain, .modelVersion, .docString, .metadataProps,
   .opsetImports, .functions, .graphName, .graphDoc, .graphInputs, .graphOutputs, .valueInfo,
   .initializers, .nodes, .graphMeta, .otherGraph, .otherModel]

def Carrier.name : Carrier → String
  | .irVersion => "irVersion" | .producerName => "producerName" | .producerVersion => "producerVersion"
  | .domain => "domain" | .modelVersion => "modelVersion" | .docString => "docString"
  | .metadataProps => "metadataProps" | .opsetImports => "opsetImports" | .functions => "functions"
  | .graphName => "graphName" | .graphDoc => "graphDoc" | .graphInputs => "graphInputs"
  | .graphOutputs => "graphOutputs" | .valueInfo => "valueInfo" | .initializers => "initializers"
  | .nodes => "nodes" | .graphMeta => "graphMeta" | .otherGraph => "otherGraph" | .otherModel => "otherModel"

/-- Carriers living inside `ModelProto.graph` (what `model_proto.graph.CopyFrom(…)` overwrites). -/
def Carrier.inGraph : Carrier → Bool
  | .graphName | .graphDoc | .graphInputs | .graphOutputs | .valueInfo | .initializers | .nodes
  | .graphMeta | .otherGraph => true
  | _ => false

/-- A model is its carriers (`V` = the representation of one carrier's content). -/
abbrev Rec (V : Type) := Carrier → V

/-- `onnx_ir` serde: `de = ir.serde.deserialize_model = ir.from_proto`, `ser = serialize_model = to_proto`. -/
structure Serde (P I : Type) where
  de : Rec P → Rec I
  ser : Rec I → Rec P
  /-- content of an emptied repeated field (`del model_proto.functions[:]`) -/
  empty : P

/-- The normaliser `N = ser ∘ de`. -/
def Serde.N {P I : Type} (s : Serde P I) (M : Rec P) : Rec P := s.ser (s.de M)

/-- The dual-entry APIs.  `rewrite` carries the one decision it takes before touching serde:
whether the rule list it was given is empty (`elif not pattern_rewrite_rules: return model`). -/
inductive Api
  | optimize | foldConstants | removeUnusedNodes | removeUnusedFunctions
  | rewrite (emptyRules : Bool)
  | convertVersion | replaceFunctions
  deriving DecidableEq, Repr

/-- What the call hands back. -/
inductive Ret (X : Type)
  | argItself          -- `return model` (the very object passed in)
  | fresh (v : X)      -- a newly built object
  | none               -- `-> None`
  | aux                -- a result record that is not a model (`FoldConstantsResult`)

/-- Everything observable about one call: the content of the caller's object afterwards and the return. -/
structure Outcome (X : Type) where
  argAfter : X
  ret : Ret X

/-- The model the call produced: the fresh object when one is returned, otherwise the caller's object. -/
def Outcome.result {X : Type} (o : Outcome X) : X :=
  match o.ret with
  | .fresh v => v
  | _ => o.argAfter

def Outcome.argMutated {X : Type} [DecidableEq X] (o : Outcome X) (before : X) : Bool :=
  o.argAfter != before

/-- IR entry.  `T f` is the in-place transformation the passes perform (a parameter).  Every IR entry
mutates the `ir.Model` it is given; `optimize` and `rewrite` also return that same object. -/
def irPath {I : Type} (T : Api → Rec I → Rec I) : Api → Rec I → Outcome (Rec I)
  | .optimize, m => ⟨T .optimize m, .argItself⟩                      -- optimize_ir(model); return model
  | .foldConstants, m => ⟨T .foldConstants m, .aux⟩                  -- return constant_folding.fold_constants(model)
  | .removeUnusedNodes, m => ⟨T .removeUnusedNodes m, .none⟩
  | .removeUnusedFunctions, m => ⟨T .removeUnusedFunctions m, .none⟩
  | .rewrite true, m => ⟨m, .argItself⟩                              -- elif not rules: return model
  | .rewrite false, m => ⟨T (.rewrite false) m, .argItself⟩          -- in-place passes; `.model` is the argument
  | .convertVersion, m => ⟨T .convertVersion m, .none⟩
  | .replaceFunctions, m => ⟨T .replaceFunctions m, .none⟩           -- replace_functions_inplace

/-- `convert_version`'s proto branch after fix 4aa0d5c: `graph.Clear(); graph.CopyFrom(to_proto(model.graph))`,
`del functions[:]`, `del opset_import[:]` + re-add from `model.opset_imports`; every other field of the
caller's proto is not assigned. -/
def spliceConverted {P : Type} (empty : P) (M S : Rec P) : Rec P := fun c =>
  if c.inGraph then S c
  else if c = .functions then empty
  else if c = .opsetImports then S c
  else M c

/-- The proto branch *before* fix 4aa0d5c (kept for the refutation witness of D9): opset imports kept. -/
def spliceConvertedOld {P : Type} (empty : P) (M S : Rec P) : Rec P := fun c =>
  if c.inGraph then S c
  else if c = .functions then empty
  else M c

/-- Proto entry. -/
def protoPath {P I : Type} (s : Serde P I) (T : Api → Rec I → Rec I) : Api → Rec P → Outcome (Rec P)
  | .optimize, M => ⟨M, .fresh (s.ser (T .optimize (s.de M)))⟩       -- new_proto = serialize_model(model_ir); return new_proto
  | .foldConstants, M => ⟨s.ser (T .foldConstants (s.de M)), .aux⟩   -- Clear(); CopyFrom(new_proto); return result
  | .removeUnusedNodes, M => ⟨s.ser (T .removeUnusedNodes (s.de M)), .none⟩
  | .removeUnusedFunctions, M => ⟨s.ser (T .removeUnusedFunctions (s.de M)), .none⟩
  | .rewrite true, M => ⟨M, .argItself⟩                              -- return model  (no serde at all)
  | .rewrite false, M => ⟨M, .fresh (s.ser (T (.rewrite false) (s.de M)))⟩
  | .convertVersion, M => ⟨spliceConverted s.empty M (s.ser (T .convertVersion (s.de M))), .none⟩
  | .replaceFunctions, M => ⟨M, .fresh (s.ser (T .replaceFunctions (s.de M)))⟩

/-- Proto entry of `convert_version` as it was before fix 4aa0d5c. -/
def protoConvertOld {P I : Type} (s : Serde P I) (T : Api → Rec I → Rec I) (M : Rec P) : Outcome (Rec P) :=
  ⟨spliceConvertedOld s.empty M (s.ser (T .convertVersion (s.de M))), .none⟩

/-- `optimizer.inline(model: ir.Model)`: IR entry only; `if model.functions: InlinePass()(model)`. -/
def inlinePath {I : Type} (hasFunctions : Rec I → Bool) (inl : Rec I → Rec I) (m : Rec I) : Outcome (Rec I) :=
  ⟨if hasFunctions m then inl m else m, .none⟩

/-- APIs whose proto entry moves the *whole* serialised result into the result object. -/
def Api.wholesale : Api → Bool
  | .rewrite true => false
  | .convertVersion => false
  | _ => true

/-- APIs documented as in-place on a proto (`fold_constants`, `remove_unused_*`, `convert_version`). -/
def Api.inPlaceOnProto : Api → Bool
  | .foldConstants | .removeUnusedNodes | .removeUnusedFunctions | .convertVersion => true
  | _ => false

/-- Frame of each API: the carriers its IR transformation may change (contract on `T`, validated by
the harness: no observed change outside, every listed carrier observed changing).  The rest must survive. -/
def touches : Api → Carrier → Bool
  | .optimize, c => (c matches .functions | .opsetImports | .graphOutputs | .valueInfo | .initializers | .nodes)
  | .foldConstants, c => (c matches .functions | .graphOutputs | .valueInfo | .initializers | .nodes)
  | .removeUnusedNodes, c => (c matches .functions | .valueInfo | .initializers | .nodes)
  | .removeUnusedFunctions, c => (c matches .functions)
  | .rewrite true, _ => false
  | .rewrite false, c => (c matches .functions | .opsetImports | .graphOutputs | .valueInfo | .initializers | .nodes)
  | .convertVersion, c => (c matches .functions | .opsetImports | .valueInfo | .initializers | .nodes)
  | .replaceFunctions, c => (c matches .functions | .opsetImports | .valueInfo | .nodes)

/-- Carriers `convert_version`'s proto branch leaves exactly as the caller had them. -/
def keptByConvert (c : Carrier) : Bool := !c.inGraph && c != .functions && c != .opsetImports

/-! ## Symbolic instance (used by the driver): which expression each carrier of the result holds -/

/-- Symbolic serde over strings: every operation wraps its operand, so the result of a path spells out
the composition that produced each carrier. -/
def symSerde : Serde String String :=
  { de := fun M c => "de(" ++ M c ++ ")", ser := fun m c => "ser(" ++ m c ++ ")", empty := "empty" }

def symT : Api → Rec String → Rec String := fun _ m c => "T(" ++ m c ++ ")"

def symArg : Rec String := fun _ => "M"

def showRet {X : Type} : Ret X → String
  | .argItself => "arg" | .fresh _ => "fresh" | .none => "none" | .aux => "aux"

end OV.C15
