import OV.Model.C08View
import OV.Model.C08Reduce
import OV.Model.C08Scalar
/-!
# C08 — MatMul family (mm, bmm, mv, dot, matmul), max.dim / min.dim, logsumexp, logcumsumexp, embedding,
scatter.src / scatter_add, pixel_shuffle / pixel_unshuffle
-/
namespace OV.C08

/-- ONNX `MatMul` = `numpy.matmul`: a 1-D left operand gets a leading 1, a 1-D right operand a trailing 1 (removed
afterwards); the leading (batch) dims broadcast; the inner sizes must agree; 0-d operands are refused. -/
def matmulOp (a b : Shape) : Option Shape :=
  if a.length = 0 ∨ b.length = 0 then none else
  let a' := if a.length = 1 then 1 :: a else a
  let b' := if b.length = 1 then b ++ [1] else b
  let ra := a'.length
  let rb := b'.length
  if a'.getD (ra - 1) 0 ≠ b'.getD (rb - 2) 0 then none else
  match bcast2 (a'.take (ra - 2)) (b'.take (rb - 2)) with
  | none => none
  | some bt =>
    some (bt ++ (if a.length = 1 then [] else [a'.getD (ra - 2) 0]) ++ (if b.length = 1 then [] else [b'.getD (rb - 1) 0]))

namespace matmul

/-- `aten_mm`, `aten_bmm`, `aten_mv`, `aten_dot`, `aten_matmul` all emit one `MatMul(self, other)`. -/
def term : String := tOp "MatMul" ["x0", "x1"]
def model (a b : Shape) : Option Shape := matmulOp a b

/-- the batched case of `torch.matmul` (documentation): "if the first argument is 1-D a 1 is prepended to its dimension for the
purpose of the batched matrix multiply and removed after; if the second is 1-D a 1 is appended and removed after; the non-matrix
dimensions are broadcast". -/
def specBatched (a b : Shape) : Option Shape :=
  let a2 := if a.length = 1 then 1 :: a else a
  let b2 := if b.length = 1 then b ++ [1] else b
  let m := a2.getD (a2.length - 2) 0
  let k := a2.getD (a2.length - 1) 0
  let k' := b2.getD (b2.length - 2) 0
  let n := b2.getD (b2.length - 1) 0
  if k ≠ k' then none else
  match bcast2 (a2.take (a2.length - 2)) (b2.take (b2.length - 2)) with
  | none => none
  | some bt => some (bt ++ (if a.length = 1 then [] else [m]) ++ (if b.length = 1 then [] else [n]))

/-- `torch.matmul` by the case split of its documentation: 1-D·1-D dot product (0-d result), 2-D·2-D matrix product,
1-D·2-D, 2-D·1-D, otherwise batched. -/
def spec (a b : Shape) : Option Shape :=
  match a, b with
  | [k], [k'] => if k = k' then some [] else none
  | [m, k], [k', n] => if k = k' then some [m, n] else none
  | [k], [k', n] => if k = k' then some [n] else none
  | [m, k], [k'] => if k = k' then some [m] else none
  | a, b => if a.length = 0 ∨ b.length = 0 then none else specBatched a b   -- "both arguments at least 1-dimensional"

/-- `torch.mm`: both 2-D. -/
def specMm (a b : Shape) : Option Shape :=
  match a, b with
  | [m, k], [k', n] => if k = k' then some [m, n] else none
  | _, _ => none

/-- `torch.bmm`: both 3-D with the same batch size (no broadcasting). -/
def specBmm (a b : Shape) : Option Shape :=
  match a, b with
  | [p, m, k], [p', k', n] => if p = p' ∧ k = k' then some [p, m, n] else none
  | _, _ => none

/-- `torch.mv`: 2-D times 1-D. -/
def specMv (a b : Shape) : Option Shape :=
  match a, b with
  | [m, k], [k'] => if k = k' then some [m] else none
  | _, _ => none

/-- `torch.dot`: two 1-D tensors of equal length. -/
def specDot (a b : Shape) : Option Shape :=
  match a, b with
  | [k], [k'] => if k = k' then some [] else none
  | _, _ => none

def specOf (f : String) (a b : Shape) : Option Shape :=
  if f == "mm" then specMm a b else if f == "bmm" then specBmm a b else if f == "mv" then specMv a b
  else if f == "dot" then specDot a b else spec a b

end matmul

namespace max_dim

/-- `aten_max_dim` / `aten_min_dim`: rank 0 → `(self, Constant(0))`; otherwise `ReduceMax(self, Reshape(dim,[-1]), keepdims)` (computed
axes) and `ArgMax(self, axis=dim, keepdims)`. -/
def model (s : Shape) (dim : Int) (keep : Bool) : Option (List Shape) :=
  if s.length = 0 then some [[], []]
  else match reduceOp s [dim] keep, argOp s dim keep with
    | some v, some i => some [v, i]
    | _, _ => none

def term (red arg : String) (r : Nat) (dim : Int) (keep : Bool) : String :=
  if r = 0 then "x0 || 0"
  else tOp red ["x0", tOp "Reshape" [tI dim, "[-1]"] [("allowzero", "0")]] [("keepdims", tB keep), ("noop_with_empty_axes", "0")]
    ++ " || " ++ tOp arg ["x0"] [("axis", tI dim), ("keepdims", tB keep), ("select_last_index", "0")]

/-- `torch.max(x, dim, keepdim)`: values and indices have the reduced shape; a zero-size reduced axis is refused. -/
def spec (s : Shape) (dim : Int) (keep : Bool) : Option (List Shape) :=
  match torchDim s.length dim with
  | none => none
  | some a =>
    if s.length ≠ 0 ∧ s.getD a 0 = 0 then none
    else match torchReduce s [dim] keep with
      | none => none
      | some o => some [o, o]

end max_dim

namespace logsumexp

/-- `aten_logsumexp`: rank 0 → `self`; otherwise `ReduceLogSumExp(self, dim, keepdims)` with constant axes. -/
def model (s : Shape) (dims : List Int) (keep : Bool) : Option Shape :=
  if s.length = 0 then some s else reduceOp s dims keep
def term (r : Nat) (dims : List Int) (keep : Bool) : String :=
  if r = 0 then "x0"
  else tOp "ReduceLogSumExp" ["x0", tInts dims] [("keepdims", tB keep), ("noop_with_empty_axes", "0")]
def spec (s : Shape) (dims : List Int) (keep : Bool) : Option Shape := torchReduce s dims keep

end logsumexp

namespace logcumsumexp

/-- `aten_logcumsumexp`: rank 0 → `self`; otherwise `Log(CumSum(Exp(self - M), dim)) + M`, `M = ReduceMax(self, [dim], keepdims=1)`. -/
def model (s : Shape) (dim : Int) : Option Shape :=
  if s.length = 0 then some s
  else match reduceOp s [dim] true with
    | none => none
    | some m => match bcast2 s m with
      | none => none
      | some d => bcast2 d m
def term (r : Nat) (dim : Int) : String :=
  if r = 0 then "x0"
  else
    let u := tOp "Unsqueeze" [tI dim, "[0]"]
    let m := tOp "ReduceMax" ["x0", u] [("keepdims", "1"), ("noop_with_empty_axes", "0")]
    tOp "Add" [tOp "Log" [tOp "CumSum" [tOp "Exp" [tOp "Sub" ["x0", m]], u] [("exclusive", "0"), ("reverse", "0")]], m]
def spec (s : Shape) (dim : Int) : Option Shape := (torchDim s.length dim).map (fun _ => s)

end logcumsumexp

namespace embedding

/-- `aten_embedding(weight, indices)` = `Gather(weight, indices)` on axis 0: `indices.shape ++ weight.shape[1:]`. -/
def model (w idx : Shape) : Option Shape := if w.length = 0 then none else some (idx ++ w.drop 1)
def term : String := tOp "Gather" ["x0", "x1"] [("axis", "0")]
/-- `torch.embedding`: a 2-D weight `[V, D]`; the result is `indices.shape ++ [D]`. -/
def spec (w idx : Shape) : Option Shape :=
  match w with
  | [_, d] => some (idx ++ [d])
  | _ => none

end embedding

/-- ONNX `ScatterElements(data, indices, updates, axis)`: equal ranks, `updates` has the shape of `indices`, every index dim off
the axis must not exceed the data dim (onnxruntime checks it); the result has the data shape. -/
def scatterElements (s idx upd : Shape) (axis : Int) : Option Shape :=
  match normAxis s.length axis with
  | none => none
  | some a =>
    if idx.length ≠ s.length ∨ upd ≠ idx then none
    else if (List.range s.length).all (fun i => i == a || idx.getD i 0 ≤ s.getD i 0) then some s else none

namespace scatter

/-- `aten_scatter_src` (a 0-d index / src is unsqueezed first) and `aten_scatter_add` (no such branch).  Fix 33c2a16: when the (static) shapes of
src and index differ, src is cut to the index shape with `Slice(src, [0]*r, Shape(index), axes=[0..r-1])` (`r` = rank of index). -/
def sliceToIndex (src idx : Shape) : Option Shape :=
  if src = idx then some src
  else if src.length < idx.length then none      -- Slice axes out of range
  else some (List.zipWith min src idx ++ src.drop idx.length)

def model (isAdd : Bool) (s idx src : Shape) (dim : Int) : Option Shape :=
  let idx' := if !isAdd ∧ idx.length = 0 then [1] else idx
  let src' := if !isAdd ∧ src.length = 0 then [1] else src
  match sliceToIndex src' idx' with
  | none => none
  | some u => scatterElements s idx' u dim

def term (isAdd : Bool) (idx src : Shape) (dim : Int) : String :=
  let idx' := if !isAdd ∧ idx.length = 0 then [1] else idx
  let src' := if !isAdd ∧ src.length = 0 then [1] else src
  let i := if !isAdd ∧ idx.length = 0 then tOp "Unsqueeze" ["x1", "[0]"] else "x1"
  let u := if !isAdd ∧ src.length = 0 then tOp "Unsqueeze" ["x2", "[0]"] else "x2"
  let r := idx'.length
  let u := if src' = idx' then u
    else tOp "Slice" [u, tInts (List.replicate r 0), tOp "Shape" [i] [("start", "0")], tInts ((List.range r).map (Int.ofNat ·))]
  tOp "ScatterElements" ["x0", i, u] [("axis", tI dim), ("reduction", if isAdd then "add" else "none")]

/-- `torch.scatter(self, dim, index, src)` / `scatter_add` (documentation): self, index and src have the same number of
dimensions; `index.size(d) ≤ src.size(d)` for all `d`; `index.size(d) ≤ self.size(d)` for `d ≠ dim`; the result has self's shape. -/
def spec (s idx src : Shape) (dim : Int) : Option Shape :=
  -- a 0-d tensor counts as 1-d with one element (`ensure_nonempty_dim` in ATen)
  let s' := if s.length = 0 then [1] else s
  let idx' := if idx.length = 0 then [1] else idx
  let src' := if src.length = 0 then [1] else src
  match torchDim s.length dim with
  | none => none
  | some a =>
    if idx'.length ≠ s'.length ∨ src'.length ≠ s'.length then none
    else if (List.range s'.length).all (fun i => idx'.getD i 0 ≤ src'.getD i 0 && (i == a || idx'.getD i 0 ≤ s'.getD i 0))
      then some s else none

end scatter

/-- ONNX `DepthToSpace(blocksize)`: `[N, C, H, W] → [N, C/b², H·b, W·b]`, `C` divisible by `b²`. -/
def depthToSpace (s : Shape) (b : Int) : Option Shape :=
  match s with
  | [n, c, h, w] =>
    if b ≤ 0 then none
    else if c % (b.toNat * b.toNat) ≠ 0 then none
    else some [n, c / (b.toNat * b.toNat), h * b.toNat, w * b.toNat]
  | _ => none

namespace pixel_shuffle

/-- `aten_pixel_shuffle`: rank 4 → `DepthToSpace(CRD)`.  Otherwise, for a static shape of rank ≥ 3 (fix fcb6f44), the 4-D shape
`[prod(batch), C, H, W]` and the result shape `[*batch, C // r², H·r, W·r]` are computed at trace time and both `Reshape`s use `allowzero=1`;
rank < 3 keeps the dynamic path `Reshape([-1] ++ Shape[-3:])` … (PyTorch refuses those inputs). -/
def staticOut (s : Shape) (r : Int) : Shape :=
  let k := s.length - 3
  s.take k ++ [s.getD k 0 / (r.toNat * r.toNat), s.getD (k + 1) 0 * r.toNat, s.getD (k + 2) 0 * r.toNat]

def model (s : Shape) (r : Int) : Option Shape :=
  if s.length = 4 then depthToSpace s r
  else if 3 ≤ s.length then
    if r = 0 then none    -- ZeroDivisionError at trace time (`channels // (r*r)`)
    else
      let k := s.length - 3
      match reshape true s ((numel (s.take k) :: s.drop k).map (Int.ofNat ·)) with
      | none => none
      | some x4 =>
        match depthToSpace x4 r with
        | none => none
        | some d => reshape true d ((staticOut s r).map (Int.ofNat ·))
  else
    let batch := sliceShape s 0 (-3)
    let chw := sliceShape s (-3) (s.length : Int)
    match reshape false s ((-1 : Int) :: chw.map (Int.ofNat ·)) with
    | none => none
    | some x4 =>
      match depthToSpace x4 r with
      | none => none
      | some d => reshape true d ((batch ++ d.drop 1).map (Int.ofNat ·))

def term (s : Shape) (r : Int) : String :=
  if s.length = 4 then tOp "DepthToSpace" ["x0"] [("blocksize", tI r), ("mode", "CRD")]
  else if 3 ≤ s.length then
    let k := s.length - 3
    let x4 := tOp "Reshape" ["x0", tNats (numel (s.take k) :: s.drop k)] [("allowzero", "1")]
    tOp "Reshape" [tOp "DepthToSpace" [x4] [("blocksize", tI r), ("mode", "CRD")], tNats (staticOut s r)] [("allowzero", "1")]
  else
    let x4 := tOp "Reshape" ["x0", tOp "Concat" ["[-1]", tOp "Shape" ["x0"] [("start", "-3")]] [("axis", "0")]] [("allowzero", "0")]
    let d := tOp "DepthToSpace" [x4] [("blocksize", tI r), ("mode", "CRD")]
    tOp "Reshape" [d, tOp "Concat" [tOp "Shape" ["x0"] [("end", "-3"), ("start", "0")], tOp "Shape" [d] [("start", "1")]] [("axis", "0")]]
      [("allowzero", "1")]

/-- `torch.pixel_shuffle(x, r)`: rank ≥ 3, `r > 0`, channels divisible by `r²`: `[*, C, H, W] → [*, C/r², H·r, W·r]`. -/
def spec (s : Shape) (r : Int) : Option Shape :=
  if s.length < 3 ∨ r ≤ 0 then none else
  let k := s.length - 3
  let c := s.getD k 0
  if c % (r.toNat * r.toNat) ≠ 0 then none
  else some (s.take k ++ [c / (r.toNat * r.toNat), s.getD (k + 1) 0 * r.toNat, s.getD (k + 2) 0 * r.toNat])

end pixel_shuffle

namespace pixel_unshuffle

/-- `aten_pixel_unshuffle`: collapse the leading dims, `Reshape([-1, C, H/r, r, W/r, r])`, `Transpose([0,1,3,5,2,4])`,
`Reshape([-1, C·r·r, H/r, W/r])`, restore the leading dims (`allowzero=1`).  `Div` is the truncating integer division of the graph. -/
def model (s : Shape) (r : Int) : Option Shape :=
  let batch := sliceShape s 0 (-3)
  let chw := sliceShape s (-3) (s.length : Int)
  match reshape false s ((-1 : Int) :: chw.map (Int.ofNat ·)) with
  | none => none
  | some x4 =>
    if r = 0 then none   -- integer Div by zero
    else
      let c : Int := x4.getD 1 0
      let h : Int := Int.tdiv (x4.getD 2 0) r
      let w : Int := Int.tdiv (x4.getD 3 0) r
      match reshape false x4 [-1, c, h, r, w, r] with
      | none => none
      | some x6 =>
        match transposeOp x6 [0, 1, 3, 5, 2, 4] with
        | none => none
        | some t =>
          match reshape false t [-1, c * (r * r), h, w] with
          | none => none
          | some o => reshape true o ((batch ++ o.drop 1).map (Int.ofNat ·))

def term (r : Int) : String :=
  let x4 := tOp "Reshape" ["x0", tOp "Concat" ["[-1]", tOp "Shape" ["x0"] [("start", "-3")]] [("axis", "0")]] [("allowzero", "0")]
  let rr := tInts [r]
  let dimAt (i : Nat) := tOp "Shape" [x4] [("end", toString (i + 1)), ("start", toString i)]
  let c := dimAt 1
  let h := tOp "Div" [dimAt 2, rr]
  let w := tOp "Div" [dimAt 3, rr]
  let x6 := tOp "Reshape" [x4, tOp "Concat" ["[-1]", c, h, rr, w, rr] [("axis", "0")]] [("allowzero", "0")]
  let t := tOp "Transpose" [x6] [("perm", "[0,1,3,5,2,4]")]
  let o := tOp "Reshape" [t, tOp "Concat" ["[-1]", tOp "Mul" [c, tOp "Mul" [rr, rr]], h, w] [("axis", "0")]] [("allowzero", "0")]
  tOp "Reshape" [o, tOp "Concat" [tOp "Shape" ["x0"] [("end", "-3"), ("start", "0")], tOp "Shape" [o] [("start", "1")]] [("axis", "0")]]
    [("allowzero", "1")]

/-- `torch.pixel_unshuffle(x, r)`: rank ≥ 3, `r > 0`, height and width divisible by `r`:
`[*, C, H, W] → [*, C·r², H/r, W/r]`. -/
def spec (s : Shape) (r : Int) : Option Shape :=
  if s.length < 3 ∨ r ≤ 0 then none else
  let k := s.length - 3
  let h := s.getD (k + 1) 0
  let w := s.getD (k + 2) 0
  if h % r.toNat ≠ 0 ∨ w % r.toNat ≠ 0 then none
  else some (s.take k ++ [s.getD k 0 * (r.toNat * r.toNat), h / r.toNat, w / r.toNat])

end pixel_unshuffle

namespace softmax

/-- kind 0 = `aten_softmax(self, dim, dtype)`, 1 = `aten__softmax(self, dim, half_to_float)`, 2 = `aten__log_softmax`.
Rank 0 → `Unsqueeze([0])`, (Log)Softmax on the rank-1 tensor, `Squeeze`; `castIn` = `half_to_float` on a half input
(kinds 1, 2), `castOut` = a `dtype` argument (kind 0, ONNX dtype code). -/
def term (kind : Nat) (r : Nat) (dim : Int) (castIn : Bool) (castOut : Option Nat) : String :=
  let x := if castIn then tOp "Cast" ["x0"] [("to", "1")] else "x0"
  let x := if r = 0 then tOp "Unsqueeze" [x, "[0]"] else x
  let y := tOp (if kind = 2 then "LogSoftmax" else "Softmax") [x] [("axis", tI dim)]
  let y := match castOut with | some d => tOp "Cast" [y] [("to", toString d)] | none => y
  if r = 0 then (if kind = 2 then tOp "Squeeze" [y, "[0]"] else tOp "Squeeze" [y]) else y

/-- ONNX `Softmax(axis)` (opset 13): `axis` in `[-r, r-1]`, shape unchanged; a rank-0 input goes through rank 1. -/
def model (s : Shape) (dim : Int) : Option Shape :=
  (normAxis (if s.length = 0 then 1 else s.length) dim).map (fun _ => s)

def spec (s : Shape) (dim : Int) : Option Shape := (torchDim s.length dim).map (fun _ => s)

end softmax

namespace linear

/-- ONNX `Gemm(A[M,K], B[N,K], C?, transB=1)`: `[M, N]`; `C` unidirectionally broadcastable to `[M, N]`. -/
def gemmTransB (a b : Shape) (c : Option Shape) : Option Shape :=
  match a, b with
  | [m, k], [n, k'] =>
    if k ≠ k' then none
    else match c with
      | none => some [m, n]
      | some cs => if expandOp cs [m, n] = some [m, n] then some [m, n] else none
  | _, _ => none

/-- `aten_linear`: 2-D input and weight → `Gemm(transB=1)`; 1-D weight (no bias) → `Squeeze(MatMul(input, Unsqueeze(weight,[1])),[-1])`;
otherwise `MatMul(input, Transpose(weight))` (+ `Add(bias)`). -/
def model (x w : Shape) (bias : Option Shape) : Option Shape :=
  if x.length = 2 ∧ w.length = 2 then gemmTransB x w bias
  else if w.length = 1 then
    (if bias.isSome then none   -- NotImplementedError at trace time
     else match matmulOp x (w ++ [1]) with
       | none => none
       | some o => squeezeOp o [-1])
  else if w.length ≠ 2 then none   -- assert
  else match matmulOp x w.reverse with
    | none => none
    | some o => match bias with
      | none => some o
      | some b => bcast2 o b

def term (rx rw : Nat) (hasBias : Bool) : String :=
  if rx = 2 ∧ rw = 2 then
    tOp "Gemm" (["x0", "x1"] ++ (if hasBias then ["x2"] else [])) [("alpha", "1.0"), ("beta", "1.0"), ("transA", "0"), ("transB", "1")]
  else if rw = 1 then tOp "Squeeze" [tOp "MatMul" ["x0", tOp "Unsqueeze" ["x1", "[1]"]], "[-1]"]
  else
    let mm := tOp "MatMul" ["x0", tOp "Transpose" ["x1"] [("perm", "[1,0]")]]
    if hasBias then tOp "Add" [mm, "x2"] else mm

/-- `torch.nn.functional.linear(input[*, in], weight[out, in], bias[out]?)` → `[*, out]`; a 1-D weight `[in]` (no bias) contracts the
last dim away: `[*]`. -/
def spec (x w : Shape) (bias : Option Shape) : Option Shape :=
  if x.length = 0 then none else
  match w with
  | [k] => if bias.isSome ∨ x.getD (x.length - 1) 0 ≠ k then none else some (x.take (x.length - 1))
  | [n, k] =>
    if x.getD (x.length - 1) 0 ≠ k then none
    else match bias with
      | none => some (x.take (x.length - 1) ++ [n])
      | some b => if b = [n] then some (x.take (x.length - 1) ++ [n]) else none
  | _ => none

end linear

namespace vector_norm

/-- the `ord` argument: `inf`, `-inf`, or an integer (floats equal to an integer take the same branch). -/
inductive Ord where
  | posInf | negInf | int (p : Int)
  deriving DecidableEq, Repr

/-- `1/ord` as printed in the term, for the (exactly representable) exponents of the generator. -/
def invStr (p : Int) : String :=
  if p = 4 then "0.25:FLOAT" else if p = -1 then "-1.0:FLOAT" else if p = -2 then "-0.5:FLOAT" else "?"

/-- `aten_linalg_vector_norm(self, ord, dim, keepdim)`: `dim is None` → `Reshape(self,[-1])` and `keepdim = False` for the reduction; otherwise the axes
are `Reshape(dim,[-1])` (computed).  Then by `ord`: ±inf → `ReduceMax/Min(Abs)`, 0 → `ReduceSum` of the 0/1 indicator, 1 → `ReduceL1`,
2 → `ReduceL2`, else `Pow(ReduceSum(Pow(|x|, ord)), 1/ord)` (`Abs` skipped for positive even `ord`). -/
def termCore (ord : Ord) (dims : Option (List Int)) (keep : Bool) : String :=
  let x := match dims with | none => tOp "Reshape" ["x0", "[-1]"] [("allowzero", "0")] | some _ => "x0"
  let kp := match dims with | none => false | some _ => keep
  let red (nm : String) (y : String) : String :=
    match dims with
    | none => tOp nm [y] [("keepdims", tB kp), ("noop_with_empty_axes", "0")]
    | some ds => tOp nm [y, tOp "Reshape" [tInts ds, "[-1]"] [("allowzero", "0")]] [("keepdims", tB kp), ("noop_with_empty_axes", "0")]
  match ord with
  | .posInf => red "ReduceMax" (tOp "Abs" [x])
  | .negInf => red "ReduceMin" (tOp "Abs" [x])
  | .int p =>
    if p = 0 then red "ReduceSum" (tOp "CastLike" [tOp "Cast" [x] [("to", "9")], x])
    else if p = 1 then red "ReduceL1" x
    else if p = 2 then red "ReduceL2" x
    else
      let ax := if p < 0 ∨ p % 2 ≠ 0 then tOp "Abs" [x] else x
      tOp "Pow" [red "ReduceSum" (tOp "Pow" [ax, tI p]), tOp "CastLike" [invStr p, ax]]

/-- fix 7d29f42: with `dim=None` and `keepdim=True` the 0-d result is reshaped to `[1] * rank` (static rank; nothing for rank 0). -/
def term (r : Nat) (ord : Ord) (dims : Option (List Int)) (keep : Bool) : String :=
  let core := termCore ord dims keep
  if dims.isNone ∧ keep ∧ 0 < r then tOp "Reshape" [core, tInts (List.replicate r 1)] [("allowzero", "0")] else core

def model (s : Shape) (dims : Option (List Int)) (keep : Bool) : Option Shape :=
  match dims with
  | none => match reshape false s [-1] with
    | none => none
    | some flat =>
      match reduceOp flat [] false with
      | none => none
      | some o => if keep ∧ 0 < s.length then reshape false o (List.replicate s.length 1) else some o
  | some ds => reduceDyn s ds keep

/-- `torch.linalg.vector_norm(x, ord, dim=None, keepdim)`: no `dim` reduces everything — and `keepdim=True` keeps all dims as 1. -/
def spec (s : Shape) (dims : Option (List Int)) (keep : Bool) : Option Shape :=
  match dims with
  | none => if keep then some (List.replicate s.length 1) else some []
  | some ds => torchReduce s ds keep

end vector_norm

end OV.C08
