import OV.Model.C08View
import OV.Model.C08Slice
/-!
# C08 — further index / shape bookkeeping: gather, repeat_interleave.self_int, select_scatter, slice_scatter,
atleast_{1,2,3}d, topk
-/
namespace OV.C08

namespace gather

/-- `aten_gather(self, dim, index)` at shape level; `idx` is the index shape.  `GatherElements`: equal ranks, result has
the index shape; every index dim off the axis must not exceed the data dim (onnxruntime reads out of range otherwise —
PyTorch refuses). -/
def model (s idx : Shape) (dim : Int) : Option Shape :=
  if s.length = 0 then (if idx.length = 0 then some s else expandOp s idx)
  else
    let idx' := if idx.length = 0 then [1] else idx
    match normAxis s.length dim with
    | none => none
    | some _ =>
      if idx'.length ≠ s.length then none
      else if idx.length = 0 then some [] else some idx

def term (r ri : Nat) (dim : Int) : String :=
  if r = 0 then (if ri = 0 then tOp "Identity" ["x0"] else tOp "Expand" ["x0", tOp "Shape" ["x1"] [("start", "0")]])
  else if ri = 0 then
    tOp "Squeeze" [tOp "GatherElements" ["x0", tOp "Cast" [tOp "Unsqueeze" ["x1", "[0]"]] [("to", "7")]] [("axis", tI dim)], "[0]"]
  else tOp "GatherElements" ["x0", tOp "Cast" ["x1"] [("to", "7")]] [("axis", tI dim)]

/-- `torch.gather`: index has the rank of self (a 0-d index counts as rank 1 against a 1-d self, and a 0-d self takes
a 0-d or 1-element-shaped index), `index.size(d) ≤ self.size(d)` for `d ≠ dim`; the result has the index shape. -/
def spec (s idx : Shape) (dim : Int) : Option Shape :=
  match torchDim s.length dim with
  | none => none
  | some a =>
    if s.length = 0 then (if idx.length ≤ 1 then some idx else none)
    else
      let idx' := if idx.length = 0 then [1] else idx
      if idx'.length ≠ s.length then none
      else if (List.range s.length).all (fun i => i == a || idx'.getD i 0 ≤ s.getD i 0) then some idx else none

end gather

namespace repeat_interleave

/-- `aten_repeat_interleave_self_int(self, repeats, dim)` (static shapes, after fix 2309579): `Unsqueeze(pos_dim+1)`, `Expand` by
`repeats` there, then `Reshape(final, allowzero=1)` with `final = static[:pos] ++ [static[pos]·repeats] ++ static[pos+1:]`
computed at trace time (`static = [prod shape]` when `dim` is omitted). -/
def staticShape (s : Shape) (dim : Option Int) : Shape :=
  match dim with | none => [numel s] | some _ => s

def posDim (rk : Nat) (dim : Option Int) : Nat :=
  ((dim.getD 0 + (rk : Int)) % (rk : Int)).toNat

def final (st : Shape) (pos : Nat) (reps : Int) : List Int :=
  (st.take pos).map (Int.ofNat ·) ++ [(st.getD pos 0 : Int) * reps] ++ (st.drop (pos + 1)).map (Int.ofNat ·)

def model (s : Shape) (reps : Int) (dim : Option Int) : Option Shape :=
  let flatR := match dim with | none => reshape false s [-1] | some _ => some s
  match flatR with
  | none => none
  | some x =>
    let r := x.length
    if r = 0 then none        -- `(dim + 0) % 0`: ZeroDivisionError at trace time
    else
      let pos := posDim r dim
      if reps < 0 then none   -- Expand by a negative count
      else
        let tiled := x.take (pos + 1) ++ [reps.toNat] ++ x.drop (pos + 1)
        reshape true tiled (final (staticShape s dim) pos reps)

def term (s : Shape) (reps : Int) (dim : Option Int) : String :=
  let x := match dim with | none => tOp "Reshape" ["x0", "[-1]"] [("allowzero", "0")] | some _ => "x0"
  let rk : Nat := match dim with | none => 1 | some _ => s.length
  let pos := if rk = 0 then 0 else posDim rk dim
  let tiles := (List.replicate (pos + 1) (1 : Int)) ++ [reps] ++ List.replicate (rk - pos - 1) 1
  tOp "Reshape" [tOp "Expand" [tOp "Unsqueeze" [x, tInts [((pos + 1 : Nat) : Int)]], tInts tiles],
    tInts (final (staticShape s dim) pos reps)] [("allowzero", "1")]

/-- `torch.repeat_interleave(x, repeats, dim)`: no dim → flattened, `numel·repeats`; with dim → that axis times `repeats`. -/
def spec (s : Shape) (reps : Int) (dim : Option Int) : Option Shape :=
  if reps < 0 then none else
  match dim with
  | none => some [numel s * reps.toNat]
  | some d =>
    match torchDim s.length d with
    | none => none
    | some a => if s.length = 0 then none   -- torch: "Dimension out of range" for a 0-d tensor with an explicit dim
      else some (setAt s a (s.getD a 0 * reps.toNat))

end repeat_interleave

namespace select_scatter

/-- `ScatterElements(self, Expand(index, Shape(Unsqueeze(src,[dim]))), Unsqueeze(src,[dim]), axis=dim)`. -/
def model (s src : Shape) (dim index : Int) : Option Shape :=
  match unsqueeze1 src dim, normAxis s.length dim with
  | some u, some a =>
    let d : Int := s.getD a 0
    if u.length ≠ s.length ∨ ¬ (-d ≤ index ∧ index < d) then none
    else if (List.range s.length).all (fun i => u.getD i 0 ≤ s.getD i 0) then some s else none
  | _, _ => none

def term (dim index : Int) : String :=
  let u := tOp "Unsqueeze" ["x1", tInts [dim]]
  tOp "ScatterElements" ["x0", tOp "Expand" [tI index, tOp "Shape" [u] [("start", "0")]], u] [("axis", tI dim), ("reduction", "none")]

/-- `torch.select_scatter(self, src, dim, index)`: `src` has the shape of `self.select(dim, index)`. -/
def spec (s src : Shape) (dim index : Int) : Option Shape :=
  match select.spec s dim index with
  | none => none
  | some t => if t == src then some s else none

end select_scatter

namespace atleast

def model (n : Nat) (s : Shape) : Option Shape :=
  if n = 1 then (if s.length = 0 then reshape false s [1] else some s)
  else if n = 2 then (if s.length ≤ 1 then reshape false s [1, -1] else some s)
  else
    if s.length ≤ 1 then reshape false s [1, -1, 1]
    else if s.length = 2 then unsqueeze1 s (-1) else some s

def term (n r : Nat) : String :=
  let rs (t : String) := tOp "Identity" [tOp "Reshape" ["x0", t] [("allowzero", "0")]]
  if n = 1 then (if r = 0 then rs "[1]" else tOp "Identity" ["x0"])
  else if n = 2 then (if r ≤ 1 then rs "[1,-1]" else tOp "Identity" ["x0"])
  else if r ≤ 1 then rs "[1,-1,1]"
  else if r = 2 then tOp "Identity" [tOp "Unsqueeze" ["x0", "[-1]"]] else tOp "Identity" ["x0"]

/-- `torch.atleast_1d/2d/3d`. -/
def spec (n : Nat) (s : Shape) : Option Shape :=
  if n = 1 then (match s with | [] => some [1] | _ => some s)
  else if n = 2 then (match s with | [] => some [1, 1] | [a] => some [1, a] | _ => some s)
  else (match s with | [] => some [1, 1, 1] | [a] => some [1, a, 1] | [a, b] => some [a, b, 1] | _ => some s)

end atleast

namespace topk

def model (s : Shape) (k dim : Int) : Option (List Shape) :=
  match normAxis s.length dim with
  | none => none
  | some a => if 0 ≤ k ∧ k ≤ (s.getD a 0 : Nat) then some [setAt s a k.toNat, setAt s a k.toNat] else none

def term (k dim : Int) (largest sorted : Bool) : String :=
  let t := tOp "TopK" ["x0", tInts [k]] [("axis", tI dim), ("largest", tB largest), ("sorted", tB sorted)]
  t ++ "#0 || " ++ t ++ "#1"

def spec (s : Shape) (k dim : Int) : Option (List Shape) :=
  match (if s.length = 0 then none else normAxis s.length dim) with
  | none => none
  | some a => if 0 ≤ k ∧ k ≤ (s.getD a 0 : Nat) then some [setAt s a k.toNat, setAt s a k.toNat] else none

end topk

namespace slice_scatter

/-- Output shape is `self`'s; `src` must have the shape of `self.slice(dim, start, end, step)`. -/
def model (s src : Shape) (dim : Int) (start stop : Option Int) (step : Int) : Option Shape :=
  match slice.model s dim start stop (some step) with
  | none => none
  | some t => if t == src ∧ s.length ≠ 0 then some s else none

def term (r : Nat) (dim : Int) (start stop : Option Int) (step : Int) : String :=
  let u (i : Int) := tOp "Unsqueeze" [tI i, "[0]"]
  let idx := tOp "Unsqueeze" [tOp "Slice" [tOp "Range" ["0", tOp "Gather" [tOp "Shape" ["x0"] [("start", "0")], tI dim] [("axis", "0")], "1"],
    (match start with | none => "[0]" | some v => u v), (match stop with | none => tInts [INT64_MAX] | some v => u v), "[0]", u step], "[-1]"]
  if dim = 0 ∨ r = 0 then tOp "ScatterND" ["x0", idx, "x1"] [("reduction", "none")]
  else
    match normAxis r dim with
    | none => "ERR"
    | some a =>
      let perm := tNats (transpose.swapRange r 0 a)
      tOp "Transpose" [tOp "ScatterND" [tOp "Transpose" ["x0"] [("perm", perm)], idx, tOp "Transpose" ["x1"] [("perm", perm)]]
        [("reduction", "none")]] [("perm", perm)]

def spec (s src : Shape) (dim : Int) (start stop : Option Int) (step : Int) : Option Shape :=
  match slice.spec s dim start stop (some step) with
  | none => none
  | some t => if t == src then some s else none

end slice_scatter

end OV.C08
