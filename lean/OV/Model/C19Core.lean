import OV.Model.C19Fusions
/-!
# C19 — `_core.py` as the model assumes it

The statement sequences of `fuse_xformers`, `_pre_optimize`, `optimize_for_ort` and `ORT_PATTERN_REWRITE_RULES`
in the canonical form of `harness/c19_extract.py` (guard, `fusion_count` key, call).  These are the *expectations*
of the model: `OV.Gen.C19Core` is regenerated from the tree under test on every run and
`OV.Props.C19.core_tables_match_model` (`decide +kernel`) states that the two coincide.  `pipeStagesOf` interprets a
list of stage keys on the query-op stack of `pipe`; `pipe_stages_follow_core_table` proves that run over the
extracted key list it IS `pipeStages`, the function `pipe_stage_order_sound` is about.
-/
namespace OV.C19

/-- the test guarding `mha_bias` / `attention` in `fuse_xformers` -/
def mhaGuard : String := "fusion_count['mha1'] == 0 and fusion_count['mha2'] == 0"

def xformersOrder : List (String × String × String) := [
  ("", "", "_pre_optimize()"),
  ("", "", "def fuse: return func(model, debug=debug, **kwargs)"),
  ("", "erf_gelu", "fuse_erfgelu()"),
  ("", "rms_normalization", "fuse_rms_normalization()"),
  ("", "skip_layer_normalization", "fuse_skip_layer_normalization()"),
  ("", "skip_rms_normalization", "fuse_skip_rms_normalization()"),
  ("", "rotary_embedding", "fuse_rotary_embedding()"),
  ("", "cos_sin_cache", "fuse_cos_sin_cache()"),
  ("", "", "CommonSubexpressionEliminationPass()"),
  ("", "partial_rotary_embedding", "fuse_partial_rotary_embedding()"),
  ("", "sdpa", "fuse_sdpa(apply_shape_inference=True)"),
  ("", "gqa", "fuse_gqa()"),
  ("", "packed_qkv_for_gqa", "fuse_qkv_gqa()"),
  ("", "mha1", "fuse_mha1()"),
  ("", "mha2", "fuse_mha2()"),
  ("", "mha_scale", "fuse_mha_scale()"),
  ("if:" ++ mhaGuard, "mha_bias", "0"),
  ("if:" ++ mhaGuard, "attention", "0"),
  ("else:" ++ mhaGuard, "mha_bias", "fuse_mha_bias()"),
  ("else:" ++ mhaGuard, "attention", "fuse_attention()"),
  ("", "gelu", "fuse_gelu()"),
  ("", "bias_gelu", "fuse_bias_gelu()"),
  ("", "sdpa_via_mha", "replace_sdpa_by_mha()"),
  ("", "", "optimize()"),
  ("", "", "return (model, fusion_count)")]

/-- `_pre_optimize`: the `shape_optimization` rules (family `shapeopt`) run between two `optimize` calls -/
def preOptimizeOrder : List (String × String × String) := [
  ("", "", "ShapeInferencePass()"),
  ("", "", "optimize()"),
  ("", "", "shape_optimization.rules.apply_to_model()"),
  ("", "", "optimize()"),
  ("", "", "return model")]

def optimizeForOrtOrder : List (String × String × String) := [
  ("", "", "rewrite([_gemm_to_matmul_add.gemm_to_matmul_add_rule])"),
  ("", "", "fuse_xformers()"),
  ("", "", "rewrite(ORT_PATTERN_REWRITE_RULES)"),
  ("", "", "LiftConstantsToInitializersPass(lift_all_constants=False,size_limit=1)"),
  ("", "", "RemoveInitializersFromInputsPass()"),
  ("", "", "ShapeInferencePass()"),
  ("if:clear_metadata", "", "ClearMetadataAndDocStringPass()"),
  ("", "", "return (model, fusion_count)")]

/-- families `softmax`, `i2g`, `fmm`, in the order `optimize_for_ort` tries their rules -/
def ortRuleOrder : List String :=
  ["*softmax.rules.rules", "*instance_to_group_normalization.rules.rules", "*fused_matmul_rule_sets.fused_matmul_rule_sets()"]

/-- `math.isclose(scale, 1/sqrt(Dh), rel_tol=1e-5, abs_tol=1e-8)` in `SDPA.check` (`sdpaCheck` uses `1e-5 1e-8`) -/
def sdpaIscloseKw : List (List String) := [["rel_tol", "1e-05"], ["abs_tol", "1e-08"]]

/-- `softmax.rules`: the rule that keeps `axis` is tried BEFORE the attribute-free one (whose pattern would also
match a Softmax that has an axis and re-emit it without) — `softmax` restates exactly that priority. -/
def softmaxOrder : List (List String) := [
  ["softmax_with_fp32_upcast", "softmax", "check_if_fp16_input"],
  ["softmax_with_fp32_upcast_without_axis", "softmax_without_axis", "check_if_fp16_input"]]

/-- keys of the fusion stages that can actually run a fusion (top level or the `else` branch), in program order -/
def stageKeys (l : List (String × String × String)) : List String :=
  (l.filter (fun s => s.2.1 != "" && !s.1.startsWith "if:")).map (fun s => s.2.1)

/-- keys whose stage sits under a guard, with the guard -/
def guardedKeys (l : List (String × String × String)) : List (String × String) :=
  (l.filter (fun s => s.2.1 != "" && s.1 != "")).map (fun s => (s.1, s.2.1))

def posOf (k : String) : List String → Nat
  | [] => 0
  | x :: xs => if x == k then 0 else posOf k xs + 1

/-- `a` and `b` both occur and the first `a` is before the first `b` -/
def precedes (l : List String) (a b : String) : Bool :=
  l.contains a && l.contains b && posOf a l < posOf b l

/-- what sits in front of MHA's query (outermost last), "scale folded", "query bias folded", "the MHA node has a
packed `bias` input" -/
abbrev QState := List QOp × Bool × Bool × Bool

/-- One `fuse_xformers` stage acting on the query path of an attention block.  `mha_scale` peels a `Mul` that feeds MHA
directly — since /repo commit a202620 (`fix16`) only when the node has NO bias input (the operator adds its packed bias
before scaling the scores); `mha_bias` peels an `Add` (it also fires, without touching the query, when only the
key/value projection has a bias) and its pattern requires the node's bias input to be absent; every other stage leaves
the query path alone. -/
def runQStage (fix16 : Bool) (otherBias : Bool) (st : QState) (key : String) : QState :=
  if key == "mha_scale" then
    if fix16 && st.2.2.2 then st else
    let (o, m) := peelMul st.1
    (o, st.2.1 || m, st.2.2.1, st.2.2.2)
  else if key == "mha_bias" then
    if st.2.2.2 then st else
    let (o, a) := peelAdd st.1
    if a || otherBias then (o, st.2.1, st.2.2.1 || a, true) else st
  else st

/-- the attention stages run in the order given by `keys`, on a freshly fused MHA node (current rules) -/
def pipeStagesOf (keys : List String) (ops : List QOp) (otherBias : Bool) : QState :=
  keys.foldl (runQStage true otherBias) (ops, false, false, false)

/-- `pipeStages`' result as a `QState`: the node has a bias input iff `mha_bias` fired (query bias or other bias) -/
def qstateOf (r : List QOp × Bool × Bool) (otherBias : Bool) : QState := (r.1, r.2.1, r.2.2, r.2.2 || otherBias)

/-! ## Second application (`fuse_*` / `fuse_xformers` run again on its own output) -/

/-- stage keys that still run when `fusion_count['mha1'] == 0 and fusion_count['mha2'] == 0` holds — the state of every
round after the first one (the MHA rules find nothing new): the `else:`-guarded stages are skipped -/
def unguardedKeys (l : List (String × String × String)) : List String :=
  (l.filter (fun s => s.2.1 != "" && s.1 == "")).map (fun s => s.2.1)

/-- A later round of `fuse_xformers` continues from the state the previous round left. -/
def pipeRoundOf (fix16 : Bool) (keys : List String) (otherBias : Bool) (st : QState) : QState :=
  keys.foldl (runQStage fix16 otherBias) st

/-- does a SECOND `fuse_xformers` fold one more `Mul`?  `mha_bias` / `attention` are skipped by the guard, `mha_scale`
is not: it peels a `Mul` the first round left in front of MHA — since a202620 (`fix16`) unless the node carries a bias. -/
def pipeSecondPeels (fix16 : Bool) (st : QState) : Bool :=
  !(fix16 && st.2.2.2) && (peelMul st.1).2

def pipeSecondRound (fix16 : Bool) (st : QState) : QState :=
  if fix16 && st.2.2.2 then st else
  let (o, m) := peelMul st.1
  (o, st.2.1 || m, st.2.2.1, st.2.2.2)

def qOpsOf (qProj : String) : List QOp :=
  match qProj with
  | "scale" => [.mul]
  | "bias" => [.add]
  | "scale_bias" => [.mul, .add]
  | "bias_scale" => [.add, .mul]
  | _ => []

/-- counts of the second `fuse_xformers` on a `pipe` block (`sdpa/mha/mha_scale/mha_bias/attention`); `*` = not tied
(rank-1 mask: the node was realised by `replace_sdpa_by_mha`, whether a `Mul` ends up feeding it directly depends on
what the final `optimize` removes). -/
def pipeSecond (i : PipeIn) : String :=
  if i.mask1d then "*" else
  let ob := i.kb || i.vb
  let st1 := qstateOf (pipeStages (qOpsOf i.qProj) ob) ob
  s!"0/0/{if pipeSecondPeels true st1 then 1 else 0}/0/0"

/-- counts of a second run of the three rotary stages: a `RotaryEmbedding` function node that the cos/sin-cache rule
did not consume is inlined again by the trailing `optimize`, so the same stage-1 fusion fires again (and is undone
again); everything else is a fixed point. -/
def ropeSecondLine (first : String) : String :=
  if first.startsWith "count=1/0/0" then "1/0/0" else "0/0/0"

/-- every other family: the fused graph offers no further match — all counts 0 (same arity as the first line) -/
def zerosLike (firstLine : String) : String :=
  let head := ((firstLine.splitOn " ").headD "")
  let cnt := (head.drop 6).toString   -- after "count="
  "/".intercalate ((cnt.splitOn "/").map fun _ => "0")

end OV.C19
