import OV.Model.C01Convert
/-!
# C01/C02 — `OnnxFunction.to_model_proto`: the function's graph as the main graph of a model

`onnxscript/_internal/values.py`:

    def to_model_proto(self, **kwargs):
        if self.function_ir.attrs and any(attr.value is None for attr in self.function_ir.attrs):
            raise ValueError("A function with required attributes cannot be exported as a model.")
        …
    def _to_model_proto(…):
        main_graph = self.function_ir.graph.clone()
        # (3382c7a) a model's main graph has no attribute parameters: every reference to an attribute of the
        # function is replaced by the attribute's default value

The model keeps the part that concerns the body: refusal for a required attribute parameter, substitution of the
defaults for the references at every depth (If / Loop bodies included), nothing else changes.  `ds` lists the
attribute parameters with the canonical text of their default (`none` = no default).
-/
namespace OV.C01

def defaultOf : List (Name × Option String) → Name → Option (Option String)
  | [], _ => none
  | (k, v) :: rest, p => if k = p then some v else defaultOf rest p

def exportAttr (ds : List (Name × Option String)) : String × AttrV → String × AttrV
  | (k, .ref p) =>
    match defaultOf ds p with
    | some (some r) => (k, .const r)
    | _ => (k, .ref p)
  | (k, .const r) => (k, .const r)

mutual
def exportNode (ds : List (Name × Option String)) : Node → Node
  | .op dom name ins outs attrs => .op dom name ins outs (attrs.map (exportAttr ds))
  | .ifN c outs tn to en eo => .ifN c outs (exportNodes ds tn) to (exportNodes ds en) eo
  | .loop b c inits outs bi bn bo => .loop b c inits outs bi (exportNodes ds bn) bo
def exportNodes (ds : List (Name × Option String)) : List Node → List Node
  | [] => []
  | n :: ns => exportNode ds n :: exportNodes ds ns
end

/-- `to_model_proto` on the body. -/
def exportModel (ds : List (Name × Option String)) (g : Graph) : Except Err Graph :=
  if ds.any (fun d => d.2.isNone) then .error .value
  else .ok { g with attrs := [], nodes := exportNodes ds g.nodes }

mutual
/-- The attribute parameters a node list refers to (at every depth). -/
def attrRefsNode : Node → List Name
  | .op _ _ _ _ attrs => attrs.filterMap (fun kv => match kv.2 with | .ref p => some p | .const _ => none)
  | .ifN _ _ tn _ en _ => attrRefs tn ++ attrRefs en
  | .loop _ _ _ _ _ bn _ => attrRefs bn
def attrRefs : List Node → List Name
  | [] => []
  | n :: ns => attrRefsNode n ++ attrRefs ns
end

end OV.C01
