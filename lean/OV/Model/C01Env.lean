import OV.Model.C01Script
/-!
# C01 — `script()`: the names a script function may read besides its own variables

`onnxscript/_internal/main.py`, `script()`:

    module = inspect.getmodule(f)
    closure = inspect.getclosurevars(f)
    env = module.__dict__.copy()
    env.update(closure.nonlocals)

so a variable of an enclosing function (a closure "nonlocal") hides a module global of the same name — Python's
own scoping, which eager execution follows.  `Converter._lookup` consults the function's local scopes first and
`env` last; a Python constant found there is emitted as a `Constant` (`_to_onnx_var` → `_emit_const`).  The model
resolves such names before translation (`resolveEnv`): a name that is neither a parameter nor assigned anywhere
in the function (those are local: c2aeb08, formerly finding C01-D42) and has a constant in `env` is replaced by
that constant.
-/
namespace OV.C01

/-- Association-list lookup, first binding wins. -/
def alookup : List (Name × Lit) → Name → Option Lit
  | [], _ => none
  | (k, v) :: rest, x => if k = x then some v else alookup rest x

/-- `env[x]` for `env = {**module.__dict__, **closure.nonlocals}`: nonlocals first, module globals otherwise. -/
def envLookup (nonlocals globals : List (Name × Lit)) (x : Name) : Option Lit :=
  match alookup nonlocals x with
  | some l => some l
  | none => alookup globals x

mutual
def substExpr (env : Name → Option Lit) (bound : VSet) : Expr → Expr
  | .var x => if bound.contains x then .var x else (match env x with | some l => .lit l | none => .var x)
  | .lit l => .lit l
  | .call dom op sig args attrs => .call dom op sig (substExprs env bound args) attrs
  | .binop o a b => .binop o (substExpr env bound a) (substExpr env bound b)
  | .unop o a => .unop o (substExpr env bound a)
  | .cmp o a b => .cmp o (substExpr env bound a) (substExpr env bound b)
  | .subscript base idx => .subscript (substExpr env bound base) idx
  | .other us => .other us
def substExprs (env : Name → Option Lit) (bound : VSet) : List Expr → List Expr
  | [] => []
  | e :: es => substExpr env bound e :: substExprs env bound es
end

mutual
def substStmt (env : Name → Option Lit) (bound : VSet) : Stmt → Stmt
  | .assign x e => .assign x (substExpr env bound e)
  | .par xs es => .par xs (substExprs env bound es)
  | .tuple xs e => .tuple xs (substExpr env bound e)
  | .badAssign xs e => .badAssign xs (substExpr env bound e)
  | .ite c t e => .ite (substExpr env bound c) (substBlock env bound t) (substBlock env bound e)
  | .for_ i ok b body => .for_ i ok (substExpr env bound b) (substBlock env bound body)
  | .while_ c body => .while_ c (substBlock env bound body)   -- the test must be a local name
  | .brk c => .brk c
  | .ret es bare => .ret (substExprs env bound es) bare
  | .skip => .skip
  | .unsupported => .unsupported
def substBlock (env : Name → Option Lit) (bound : VSet) : List Stmt → List Stmt
  | [] => []
  | s :: ss => substStmt env bound s :: substBlock env bound ss
end

/-- `bool(value)` of a Python constant. -/
def litTruth : Lit → Bool
  | .int v => v != 0
  | .flt _ mag => !(mag.toList.all (fun c => c = '0' || c = '.'))
  | .bool b => b
  | .ints vs => !vs.isEmpty

mutual
/-- `AstAnalyzer._compute_constant_if_conditions` + `_translate_if_stmt`: `if name:` where `name` is not local to the
function (neither assigned in it nor — since 11e898c, formerly finding C01-D45 — one of its parameters) and is bound
in the surroundings is a *static* condition: only the branch its value selects is translated, in place. -/
def foldStmt (env : Name → Option Lit) (bound : VSet) : Stmt → List Stmt
  | .ite c t e =>
    match c with
    | .var x =>
      if bound.contains x then [.ite c (foldBlock env bound t) (foldBlock env bound e)]
      else
        match env x with
        | some l => if litTruth l then foldBlock env bound t else foldBlock env bound e
        | none => [.ite c (foldBlock env bound t) (foldBlock env bound e)]
    | _ => [.ite c (foldBlock env bound t) (foldBlock env bound e)]
  | .for_ i ok b body => [.for_ i ok b (foldBlock env bound body)]
  | .while_ c body => [.while_ c (foldBlock env bound body)]
  | s => [s]
def foldBlock (env : Name → Option Lit) (bound : VSet) : List Stmt → List Stmt
  | [] => []
  | s :: ss => foldStmt env bound s ++ foldBlock env bound ss
end

/-- Names that are local to the function, as in Python: its parameters and every name assigned anywhere in its
body (`Converter._function_locals`, c2aeb08: `_lookup` never consults the surroundings for them, not even on a path
that has not assigned them yet). -/
def resolveBound (f : Func) : VSet :=
  vunion (vofList (f.params.map Param.name)) ((assignedBlock f.body).getD [])

/-- The function as the converter sees it given the closure variables and module globals that hold Python
constants: static `if`s on free names folded, free names resolved closure-first, local names never. -/
def resolveEnv (nonlocals globals : List (Name × Lit)) (f : Func) : Func :=
  let env := envLookup nonlocals globals
  let bound := resolveBound f
  let body' := substBlock env bound (foldBlock env bound f.body)
  { f with body := body' }

end OV.C01
