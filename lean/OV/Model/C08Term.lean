/-!
# C08 — canonical dataflow terms

The op sequence a torch_lib function emits is compared as a *term*: the graph output written as a
nested expression over the graph inputs `x0, x1, …`, constants inlined by value, attributes sorted
by name.  `harness/c08_lib.py:render_outputs` produces the same strings from the traced graph.
-/
namespace OV.C08

def tInts (l : List Int) : String := "[" ++ ",".intercalate (l.map toString) ++ "]"
def tNats (l : List Nat) : String := "[" ++ ",".intercalate (l.map toString) ++ "]"

/-- `Op(in1,in2;k1=v1,k2=v2)` -/
def tOp (name : String) (ins : List String) (attrs : List (String × String) := []) : String :=
  name ++ "(" ++ ",".intercalate ins ++
    (if attrs.isEmpty then "" else ";" ++ ",".intercalate (attrs.map (fun kv => kv.1 ++ "=" ++ kv.2))) ++ ")"

def tI (i : Int) : String := toString i
def tB (b : Bool) : String := if b then "1" else "0"

/-- `common_ops.merge_dims` of Python ints: `[]` for no dims, else `Concat` of one-element constants. -/
def tMergeDims (ds : List Int) : String :=
  if ds.isEmpty then "[]" else tOp "Concat" (ds.map (fun d => tInts [d])) [("axis", "0")]

def INT64_MAX : Int := 9223372036854775807
def INT64_MIN : Int := -9223372036854775808

end OV.C08
