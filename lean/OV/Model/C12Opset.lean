import OV.Model.C12Autocast
/-!
# C12 — the operator the converter's promotion emits, per opset (core Lean only)

`autocast.static_cast_inputs.cast_like` as of /repo commit 7b0eb49: a literal that has a bound sibling is promoted
with `CastLike(literal, sibling)` when the function's default opset is ≥ 15 (the first opset that has `CastLike`);
below that with `Cast(literal, to = <static dtype of the sibling>)` when the converter knows that dtype (annotated
input), and the program is refused (`ValueError … CastLike requires opset 15`) when it does not.  Before that
commit `CastLike` was emitted at every opset (`promoAtPre`, finding D47, fixed).
-/
namespace OV.Autocast

/-- First opset of the default domain that has `CastLike`. -/
def castLikeSince : Nat := 15

inductive Promo
  | castLike
  | cast
  | refused
  deriving DecidableEq, Repr

/-- What `cast_like` does for a literal whose bound sibling has a statically `known` dtype or not, at default opset `v`. -/
def promoAt (v : Nat) (known : Bool) : Promo :=
  if castLikeSince ≤ v then .castLike else if known then .cast else .refused

/-- The same before commit 7b0eb49. -/
def promoAtPre (_v : Nat) (_known : Bool) : Promo := .castLike

/-- The operator the promotion emits exists at opset `v` (`Cast` exists at every supported opset; a refusal emits nothing). -/
def Promo.availableAt (v : Nat) : Promo → Bool
  | .castLike => decide (castLikeSince ≤ v)
  | .cast => true
  | .refused => true

section
variable {κ : Type} [DecidableEq κ]

/-- Does `static_cast_inputs` promote some literal of this call with a cast?  (Some literal has a sibling bound to its
type variable.) -/
def usesCastLike (fs : List (Formal κ)) (args : List Arg) : Bool :=
  match assign fs args with
  | .error _ => false
  | .ok sa => sa.any (fun p => match p.2 with
      | .lit _ => (targetLast sa p.1).isSome
      | _ => false)

/-- The promotions of a call, one per literal that has a bound sibling (`known` = the sibling's dtype is known to the
converter: here the flag of `Arg.tensor`). -/
def promosAt (v : Nat) (fs : List (Formal κ)) (args : List Arg) : List Promo :=
  match assign fs args with
  | .error _ => []
  | .ok sa => sa.filterMap (fun p => match p.2 with
      | .lit _ => (targetLast sa p.1).map (fun t => promoAt v t.2)
      | _ => none)

/-- `static_cast_inputs` in a function whose default opset is `v`: refused when some promotion is, else `castStatic`
(`Cast(to = d)` and `CastLike` to a tensor of dtype `d` produce the same tensor). -/
def castStaticAt (v : Nat) (fs : List (Formal κ)) (args : List Arg) : Except Err (List Out) :=
  if (promosAt v fs args).contains .refused then .error .refused else castStatic fs args

end

end OV.Autocast
