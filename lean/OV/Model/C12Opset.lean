import OV.Model.C12Autocast
/-!
# C12 — the operator the converter's promotion relies on, per opset (core Lean only)

`autocast.static_cast_inputs` promotes a literal that has a bound sibling with a `CastLike` node of the function's
default opset.  `CastLike` exists in the default domain from opset 15 on; the converter accepts
`default_opset=opset13`/`opset14` all the same.
-/
namespace OV.Autocast

/-- First opset of the default domain that has `CastLike`. -/
def castLikeSince : Nat := 15

/-- Does `static_cast_inputs` emit a `CastLike` for this call?  (Some literal has a sibling bound to its type variable.) -/
def usesCastLike {κ : Type} [DecidableEq κ] (fs : List (Formal κ)) (args : List Arg) : Bool :=
  match assign fs args with
  | .error _ => false
  | .ok sa => sa.any (fun p => match p.2 with
      | .lit _ => (targetLast sa p.1).isSome
      | _ => false)

/-- Every operator the promotion emits exists at opset `v`. -/
def staticValidAt {κ : Type} [DecidableEq κ] (v : Nat) (fs : List (Formal κ)) (args : List Arg) : Bool :=
  !usesCastLike fs args || decide (castLikeSince ≤ v)

end OV.Autocast
