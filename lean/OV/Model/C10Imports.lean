/-!
# C10 — opset imports through the pipeline of `convert_version` (ModelProto entry)

`InlinePass` merges the opset imports of every called function into the model's, `RemoveUnusedOpsetsPass` drops
the imports of domains no node uses (the default domain is kept), the converter sets the default-domain import
to the target, and the ModelProto branch rebuilds `opset_import` from the converted IR model.  Imports are an
insertion-ordered dict `domain ↦ version`.  Core Lean only.
-/
namespace OV.C10.Imports

abbrev Dict := List (String × Nat)

def Dict.has (d : Dict) (k : String) : Bool := d.any (fun e => e.1 == k)
def Dict.get (d : Dict) (k : String) : Option Nat := (d.find? (fun e => e.1 == k)).map (·.2)
/-- `d[k] = v` -/
def Dict.set (d : Dict) (k : String) (v : Nat) : Dict :=
  if d.has k then d.map (fun e => if e.1 == k then (k, v) else e) else d ++ [(k, v)]
/-- the inliner's merge: a key that is already present keeps its version -/
def Dict.addMissing (d : Dict) (f : Dict) : Dict := f.foldl (fun a e => if a.has e.1 then a else a ++ [e]) d

structure M where
  imports : Dict                          -- `model.opset_imports`
  usedMain : List String                  -- domains of the main graph's own nodes (subgraphs included)
  funcs : List (Dict × List String)       -- called model-local functions in call order: (imports, domains used inside)
  deriving Repr

/-- `InlinePass` on the imports -/
def inlined (m : M) : Dict := (m.funcs.map (·.1)).foldl Dict.addMissing m.imports
/-- domains used by the inlined main graph -/
def usedAfter (m : M) : List String := m.usedMain ++ (m.funcs.map (·.2)).flatten
/-- `RemoveUnusedOpsetsPass` (the default-domain import is kept) -/
def removeUnused (d : Dict) (used : List String) : Dict := d.filter (fun e => e.1 == "" || used.contains e.1)
/-- the imports of the IR model after the whole pass when the conversion to `target` happens -/
def converted (m : M) (target : Nat) : Dict := (removeUnused (inlined m) (usedAfter m)).set "" target

/-- ModelProto branch (since 4aa0d5c): `del opset_import[:]`, then one entry per item of `model.opset_imports` -/
def protoRebuild (_proto : Dict) (model : Dict) : Dict := model
/-- the seeded variant C10-4: entries already present are updated in place, nothing is added -/
def protoInPlace (proto : Dict) (model : Dict) : Dict :=
  proto.map (fun e => match model.get e.1 with
    | some v => (e.1, v)
    | none => e)

/-- The inputs: every domain a graph or function uses is imported there. -/
structure Valid (m : M) : Prop where
  main : ∀ d ∈ m.usedMain, m.imports.has d = true
  funcs : ∀ f ∈ m.funcs, ∀ d ∈ f.2, f.1.has d = true

end OV.C10.Imports
