import OV.Model.C08View
/-!
# C08 — slicing family: slice.Tensor, narrow, select.int, index_select, chunk, split,
split_with_sizes, unbind, flip, roll, tril/triu, diagonal

Outputs that are several tensors (chunk/unbind: a Python list of values; split: one ONNX
sequence) are modelled as `List Shape`.
-/
namespace OV.C08

def optI (o : Option Int) (dflt : Int) : Int := o.getD dflt

namespace slice

/-- `aten_slice`: missing start → `[0]`, missing end → `[INT64_MAX]`, missing step → `[1]`. -/
def model (s : Shape) (dim : Int) (start stop step : Option Int) : Option Shape :=
  sliceOp s dim (optI start 0) (optI stop INT64_MAX) (optI step 1)

def term (dim : Int) (start stop step : Option Int) : String :=
  let wrap (i : Int) := tOp "Reshape" [tOp "Cast" [tI i] [("to", "7")], "[-1]"] [("allowzero", "0")]
  tOp "Slice" ["x0",
    (match start with | some v => wrap v | none => "[0]"),
    (match stop with | some v => wrap v | none => tInts [INT64_MAX]),
    wrap dim,
    (match step with | some v => wrap v | none => "[1]")]

/-- `aten::slice.Tensor` (TensorShape.cpp `slice`): step > 0; start/end wrapped once by the size
and clamped to `[0, d]`; `end < start` gives an empty slice; length `ceil((end-start)/step)`. -/
def specLen (d : Int) (start stop step : Option Int) : Int :=
  let st := optI step 1
  let s0 := optI start 0
  let e0 := optI stop INT64_MAX
  let s1 := if s0 < 0 then s0 + d else s0
  let e1 := if e0 < 0 then e0 + d else e0
  let s2 := if s1 < 0 then 0 else if s1 > d then d else s1
  let e2 := if e1 < s2 then s2 else if e1 > d then d else e1
  (e2 - s2 + st - 1) / st

/-- first selected position of `aten::slice.Tensor`: the start wrapped once and clamped to `[0, d]`. -/
def specStart (d : Int) (start : Option Int) : Int :=
  let s0 := optI start 0
  let s1 := if s0 < 0 then s0 + d else s0
  if s1 < 0 then 0 else if s1 > d then d else s1

/-- the source positions `x.slice(dim, start, end, step)` reads along the axis: `start' + i·step`, `i < length`. -/
def specIdx (d : Int) (start stop step : Option Int) : List Nat :=
  (List.range (specLen d start stop step).toNat).map (fun (i : Nat) => (specStart d start + (i : Int) * optI step 1).toNat)

def spec (s : Shape) (dim : Int) (start stop step : Option Int) : Option Shape :=
  if optI step 1 ≤ 0 then none else
  match (if s.length = 0 then none else normAxis s.length dim) with
  | none => none
  | some a => some (setAt s a (specLen (s.getD a 0) start stop step).toNat)

end slice

namespace narrow

/-- A negative start is wrapped once: Python ints at trace time (fix ca35059, `self.shape[dim]` with Python indexing),
tensor-valued starts in the graph (fix 55f321d, `Where(start < 0, start + Gather(Shape(x), dim), start)`). -/
def wrapStart (s : Shape) (_tensorArgs : Bool) (dim start : Int) : Option Int :=
  if ¬ start < 0 then some start
  else
    match normAxis s.length dim with
    | none => none          -- Python IndexError / Gather index out of range
    | some a => some (start + (s.getD a 0 : Nat))

/-- `aten_narrow`: `Slice(x, [start'], [start'+length], [dim])`. -/
def model (s : Shape) (tensorArgs : Bool) (dim start length : Int) : Option Shape :=
  match wrapStart s tensorArgs dim start with
  | none => none
  | some st => sliceOp s dim st (st + length) 1

def term (s : Shape) (tensorArgs : Bool) (dim start length : Int) : String :=
  let w (x : String) := tOp "Reshape" [x, "[-1]"] [("allowzero", "0")]
  if tensorArgs then
    let st := tOp "Where" [tOp "Less" [w "x2", "[0]"],
      tOp "Add" [w "x2", tOp "Gather" [tOp "Shape" ["x0"] [("start", "0")], w "x1"] [("axis", "0")]], w "x2"]
    tOp "Slice" ["x0", st, tOp "Add" [st, w "x3"], w "x1"]
  else
    let st := (wrapStart s false dim start).getD start
    tOp "Slice" ["x0", w (tI st), tOp "Add" [w (tI st), w (tI length)], w (tI dim)]

/-- `torch.narrow`: `length ≥ 0`; `start` in `[-d, d]` (negative wraps once); `start+length ≤ d`. -/
def spec (s : Shape) (dim start length : Int) : Option Shape :=
  match (if s.length = 0 then none else normAxis s.length dim) with
  | none => none
  | some a =>
    let d : Int := s.getD a 0
    if length < 0 then none
    else if start < -d ∨ start > d then none
    else
      let st := if start < 0 then start + d else start
      if st + length > d then none else some (setAt s a length.toNat)

end narrow

namespace select

def model (s : Shape) (dim index : Int) : Option Shape := gatherScalar s dim index
def term (dim index : Int) : String := tOp "Gather" ["x0", tI index] [("axis", tI dim)]

/-- `x.select(dim, index)`: rank ≥ 1, index in `[-d, d-1]`, the axis disappears. -/
def spec (s : Shape) (dim index : Int) : Option Shape :=
  match (if s.length = 0 then none else normAxis s.length dim) with
  | none => none
  | some a =>
    let d : Int := s.getD a 0
    if -d ≤ index ∧ index < d then some (s.take a ++ s.drop (a + 1)) else none

end select

namespace index_select

/-- `n` = number of indices (a rank-0 index counts as one). -/
def model (s : Shape) (dim : Int) (n : Nat) : Option Shape :=
  if s.length = 0 then
    match reshape false s [-1] with
    | none => none
    | some s1 => (gatherVec s1 dim n).map squeezeAll
  else gatherVec s dim n

def term (r : Nat) (dim : Int) : String :=
  let idx := tOp "Cast" [tOp "Reshape" ["x1", "[-1]"] [("allowzero", "0")]] [("to", "7")]
  if r = 0 then
    tOp "Squeeze" [tOp "Gather" [tOp "Reshape" ["x0", "[-1]"] [("allowzero", "0")], idx] [("axis", tI dim)]]
  else tOp "Gather" ["x0", idx] [("axis", tI dim)]

/-- `torch.index_select`: the axis gets the number of indices; a rank-0 self stays rank 0 (and
then takes exactly one index). -/
def spec (s : Shape) (dim : Int) (n : Nat) : Option Shape :=
  match torchDim s.length dim with
  | none => none
  | some a => if s.length = 0 then (if n = 1 then some [] else none) else some (setAt s a n)

end index_select

namespace chunk

/-- Trace-time piece bounds (fix f427d44): `chunk_size = ceil(d / chunks)`, pieces `[k·c, min((k+1)·c, d))`;
`chunks` empty pieces for `d = 0`. -/
def bounds (d chunks : Nat) : List (Nat × Nat) :=
  let c := (d + chunks - 1) / chunks
  if c = 0 then List.replicate chunks (0, 0)
  else (List.range ((d + c - 1) / c)).map (fun k => (k * c, min (k * c + c) d))

def useSlices (d chunks : Nat) : Bool := (bounds d chunks).length != chunks || d == 0

def model (s : Shape) (chunks : Nat) (dim : Int) : Option (List Shape) :=
  if chunks = 1 then some [s]
  else
    match normAxis s.length dim with
    | none => none
    | some a =>
      let d := s.getD a 0
      if useSlices d chunks then
        (bounds d chunks).mapM (fun b => sliceOp s dim b.1 b.2 1)
      else (splitNumOutputs d chunks).map (fun szs => szs.map (setAt s a))

def term (d chunks : Nat) (dim : Int) : List String :=
  if chunks = 1 then [tOp "Identity" ["x0"]]
  else if useSlices d chunks then
    (bounds d chunks).map (fun b => tOp "Slice" ["x0", tInts [(b.1 : Int)], tInts [(b.2 : Int)], tInts [dim]])
  else (List.range chunks).map (fun k =>
    tOp "Split" ["x0"] [("axis", tI dim), ("num_outputs", toString chunks)] ++ "#" ++ toString k)

/-- `torch.chunk`: `chunks > 0`; `split_size = ceil(d / chunks)`; then `torch.split` with that size
— which may return *fewer* than `chunks` pieces; `d = 0` returns `chunks` empty pieces. -/
def specSizes (d chunks : Nat) : List Nat :=
  let c := (d + chunks - 1) / chunks
  if c = 0 then List.replicate chunks 0
  else
    let n := max ((d + c - 1) / c) 1
    List.replicate (n - 1) c ++ [d - (n - 1) * c]

def spec (s : Shape) (chunks : Nat) (dim : Int) : Option (List Shape) :=
  if chunks = 0 then none else
  match (if s.length = 0 then none else normAxis s.length dim) with
  | none => none
  | some a => some ((specSizes (s.getD a 0) chunks).map (setAt s a))

end chunk

namespace split

def model (s : Shape) (size : Int) (dim : Int) : Option (List Shape) :=
  match normAxis s.length dim with
  | none => none
  | some a =>
    if s.getD a 0 = 0 then some [s]            -- fix 71e4aaa: SequenceConstruct(self)
    else if size < 0 then none
    else (splitScalar (s.getD a 0) size.toNat).map (fun szs => szs.map (setAt s a))

def term (d : Nat) (size dim : Int) : String :=
  if d = 0 then tOp "SequenceConstruct" ["x0"]
  else tOp "SplitToSequence" ["x0", tI size] [("axis", tI dim), ("keepdims", "1")]

/-- `torch.split(x, split_size, dim)` (TensorShape.cpp): `num = max(ceil(d/size), 1)` pieces, the
last one `size - (size*num - d)`; `size = 0` is legal only for `d = 0`. -/
def specSizes (d size : Nat) : Option (List Nat) :=
  if size = 0 then (if d = 0 then some [0] else none)
  else
    let n := max ((d + size - 1) / size) 1
    some (List.replicate (n - 1) size ++ [size - (size * n - d)])

def spec (s : Shape) (size : Int) (dim : Int) : Option (List Shape) :=
  if size < 0 then none else
  match (if s.length = 0 then none else normAxis s.length dim) with
  | none => none
  | some a => (specSizes (s.getD a 0) size.toNat).map (fun szs => szs.map (setAt s a))

end split

namespace split_with_sizes

def model (s : Shape) (sizes : List Int) (dim : Int) : Option (List Shape) :=
  match normAxis s.length dim with
  | none => none
  | some a => (splitSizes (s.getD a 0) sizes).map (fun szs => szs.map (setAt s a))

def term (sizes : List Int) (dim : Int) : String :=
  tOp "SplitToSequence" ["x0", tInts sizes] [("axis", tI dim), ("keepdims", "1")]

def spec (s : Shape) (sizes : List Int) (dim : Int) : Option (List Shape) :=
  match (if s.length = 0 then none else normAxis s.length dim) with
  | none => none
  | some a =>
    if sizes.all (0 ≤ ·) && sizes.foldl (· + ·) 0 == ((s.getD a 0 : Nat) : Int)
    then some (sizes.map (fun z => setAt s a z.toNat)) else none

end split_with_sizes

namespace unbind

/-- static dim: for each `i < d`: `Squeeze(Slice(x,[i],[i+1],[dim]),[dim])`. -/
def model (s : Shape) (dim : Int) : Option (List Shape) :=
  match normAxis s.length dim with
  | none => none
  | some a =>
    (List.range (s.getD a 0)).mapM (fun (i : Nat) =>
      match sliceOp s dim (i : Int) ((i : Int) + 1) 1 with
      | none => none
      | some s1 => squeezeOp s1 [dim])

def term (d : Nat) (dim : Int) : List String :=
  (List.range d).map (fun (i : Nat) =>
    tOp "Squeeze" [tOp "Slice" ["x0", tInts [(i : Int)], tInts [(i : Int) + 1], tInts [dim]], tInts [dim]])

def spec (s : Shape) (dim : Int) : Option (List Shape) :=
  match (if s.length = 0 then none else normAxis s.length dim) with
  | none => none
  | some a => some (List.replicate (s.getD a 0) (s.take a ++ s.drop (a + 1)))

end unbind

namespace flip

/-- One `Slice` with `starts=-1, ends=INT64_MIN, steps=-1` on every named axis. -/
def model (s : Shape) (dims : List Int) : Option Shape :=
  if dims.isEmpty then some s
  else
    match normAxes s.length dims with
    | none => none
    | some ax =>
      if hasDup ax then none
      else dims.foldlM (fun acc d => sliceOp acc d (-1) INT64_MIN (-1)) s

def term (dims : List Int) : String :=
  if dims.isEmpty then tOp "Identity" ["x0"]
  else
    let n := dims.length
    tOp "Slice" ["x0", tInts (List.replicate n (-1)), tInts (List.replicate n INT64_MIN),
      tInts dims, tInts (List.replicate n (-1))]

def spec (s : Shape) (dims : List Int) : Option Shape :=
  match dims.mapM (torchDim s.length) with
  | none => none
  | some ax => if hasDup ax then none else some s

/-- list level: the source indices selected on an axis of size `d`. -/
def modelIdx (d : Nat) : List Nat := sliceIdx d (-1) INT64_MIN (-1)
def specIdx (d : Nat) : List Nat := (List.range d).reverse

end flip

namespace roll

/-- One `(shift, dim)` step on an axis of size `d` at list level:
`len = shift < 0 ? -shift : d - shift`; `Concat(Slice(x, len, bigEnd), Slice(x, 0, len))`;
`bigEnd` is the (over-long) slice end: `INT64_MAX` since fix cb8a6fb (it was `Size(x)`, 0 for empty tensors). -/
def stepIdx (d : Nat) (bigEnd : Nat) (shift : Int) : List Nat :=
  let len : Int := if shift < 0 then -shift else (d : Int) - shift
  sliceIdx d len bigEnd 1 ++ sliceIdx d 0 len 1

/-- PyTorch: element `i` of the result is element `(i - shift) mod d` of the source. -/
def specIdx (d : Nat) (shift : Int) : List Nat :=
  (List.range d).map (fun (i : Nat) => (((i : Int) - shift) % (d : Int)).toNat)

/-- fix 34e2b8e: the shift is reduced modulo the (static, positive) rolled size at trace time. -/
def redShift (size : Nat) (shift : Int) : Int := if size > 0 then shift % (size : Int) else shift

def model (s : Shape) (shifts dims : List Int) : Option Shape :=
  if s.length = 0 then some s
  else if s.getD 0 0 = 0 then some s
  else if dims.isEmpty then
    if shifts.length = 1 then
      -- flatten, rotate, `Reshape(result, Shape(x), allowzero=1)` (fix 5bf0068)
      match reshape false s [-1] with
      | none => none
      | some flat => reshape true flat (s.map (Int.ofNat ·))
    else none
  else if shifts.length ≠ dims.length then none
  else
    -- fix e681d51: aten_roll's loop normalises a negative dim with `self_rank` before calling the helper
    (shifts.zip dims).foldlM (fun acc (p : Int × Int) =>
      match normAxis acc.length p.2 with
      | none => none
      | some a =>
        let d := acc.getD a 0
        some (setAt acc a (stepIdx d INT64_MAX.toNat (redShift (s.getD a 0) p.1)).length)) s

def stepTerm (rank : Nat) (x : String) (shift dim : Int) : String :=
  let dim := if dim < 0 then dim + (rank : Int) else dim
  let len := if shift < 0 then tInts [-shift]
    else tOp "Sub" [tOp "Shape" [x] [("end", tI (dim + 1)), ("start", tI dim)], tInts [shift]]
  let big := tInts [INT64_MAX]
  tOp "Concat" [tOp "Slice" [x, len, big, tInts [dim]], tOp "Slice" [x, "[0]", len, tInts [dim]]]
    [("axis", tI dim)]

def term (s : Shape) (shifts dims : List Int) : String :=
  if s.length = 0 then tOp "Identity" ["x0"]
  else if s.getD 0 0 = 0 then tOp "Identity" ["x0"]
  else if dims.isEmpty then
    let shift := redShift (numel s) (shifts.getD 0 0)
    let flat := tOp "Reshape" ["x0", "[-1]"] [("allowzero", "0")]
    let len := if shift < 0 then tInts [-shift] else tOp "Sub" [tOp "Size" [flat], tInts [shift]]
    let big := tOp "Reshape" [tOp "Size" [flat], "[-1]"] [("allowzero", "0")]
    tOp "Reshape" [tOp "Concat" [tOp "Slice" [flat, len, big], tOp "Slice" [flat, "[0]", len]] [("axis", "0")],
      tOp "Shape" ["x0"] [("start", "0")]] [("allowzero", "1")]
  else (shifts.zip dims).foldl (fun acc (p : Int × Int) =>
    let a := (normAxis s.length p.2).getD 0
    stepTerm s.length acc (redShift (s.getD a 0) p.1) p.2) "x0"

def spec (s : Shape) (shifts dims : List Int) : Option Shape :=
  if dims.isEmpty then (if shifts.length = 1 then some s else none)
  else if shifts.length ≠ dims.length then none
  else match dims.mapM (torchDim s.length) with
    | none => none
    | some _ => some s

end roll

namespace trilu

def model (s : Shape) : Option Shape := if s.length < 2 then none else some s
def term (upper : Bool) (k : Int) : String := tOp "Trilu" ["x0", tI k] [("upper", tB upper)]
def spec (s : Shape) : Option Shape := if s.length < 2 then none else some s

/-- `torch.tril(x, k)` keeps `(i, j)` iff `j - i ≤ k`; `torch.triu(x, k)` iff `j - i ≥ k`
(documentation of torch.tril / torch.triu). -/
def specKeep (upper : Bool) (k : Int) (i j : Nat) : Bool :=
  if upper then decide ((i : Int) + k ≤ j) else decide ((j : Int) ≤ i + k)

end trilu

namespace diagonal

/-- Length of the diagonal as `aten_diagonal` computes it (rows = size of dim1, cols = size of dim2):
`max(min(offset < 0 ? rows + offset : cols - offset, min(rows, cols)), 0)`. -/
def modelLen (rows cols offset : Int) : Int :=
  let len := if offset < 0 then rows + offset else cols - offset
  max (min len (min rows cols)) 0

/-- PyTorch (TensorShape.cpp `diagonal`): `offset ≥ 0 ? max(min(rows, cols - offset), 0)
: max(min(rows + offset, cols), 0)`. -/
def specLen (rows cols offset : Int) : Int :=
  if offset ≥ 0 then max (min rows (cols - offset)) 0 else max (min (rows + offset) cols) 0

def spec (s : Shape) (offset d1 d2 : Int) : Option Shape :=
  match (if s.length = 0 then none else normAxis s.length d1),
        (if s.length = 0 then none else normAxis s.length d2) with
  | some a, some b =>
    if a = b then none
    else some (removeIdxs s [a, b] ++ [(specLen (s.getD a 0) (s.getD b 0) offset).toNat])
  | _, _ => none

/-- Shape level of the emitted graph: transpose the two dims last, multiply with an `EyeLike`
mask, reduce the row axis, slice `[start, start+len)` of the column axis. -/
def model (s : Shape) (offset d1 d2 : Int) : Option Shape :=
  let r : Int := s.length
  let a := if d1 < 0 then d1 + r else d1
  let b := if d2 < 0 then d2 + r else d2
  if a < 0 ∨ b < 0 ∨ a ≥ r ∨ b ≥ r ∨ a = b then none
  else
    let rows : Int := s.getD a.toNat 0
    let cols : Int := s.getD b.toNat 0
    let rest := removeIdxs s [a.toNat, b.toNat]
    let start : Int := if offset < 0 then 0 else offset
    let len := modelLen rows cols offset
    some (rest ++ [sliceLen cols start (start + len) 1])

/-- Value level: output element `t` of the graph is `ReduceSum_i (x[i, j] · mask[i, j])` at column `j = start + t`, where the `EyeLike(k=offset)`
mask is 1 exactly at `j - i = offset`: it is `x[j - offset, j]` if that row exists, and 0 otherwise (`none`). -/
def modelPos (rows cols offset : Int) (t : Nat) : Option (Int × Int) :=
  let start : Int := if offset < 0 then 0 else offset
  let j : Int := start + t
  let i : Int := j - offset
  if 0 ≤ i ∧ i < rows ∧ 0 ≤ j ∧ j < cols then some (i, j) else none

/-- PyTorch: `diagonal(x, offset)[t] = x[t, offset + t]` for `offset ≥ 0`, `x[-offset + t, t]` otherwise. -/
def specPos (offset : Int) (t : Nat) : Int × Int :=
  if offset ≥ 0 then ((t : Int), offset + t) else (-offset + t, (t : Int))

def modelPositions (rows cols offset : Int) : List (Option (Int × Int)) :=
  (List.range (sliceLen cols (if offset < 0 then 0 else offset) ((if offset < 0 then 0 else offset) + modelLen rows cols offset) 1)).map
    (modelPos rows cols offset)

def specPositions (rows cols offset : Int) : List (Option (Int × Int)) :=
  (List.range (specLen rows cols offset).toNat).map (fun t => some (specPos offset t))

end diagonal

end OV.C08
