import OV.Model.C05Order
/-!
# C05 — the rule-set driver on one host: `RewriteRuleSet._apply_to_graph_or_function`

Restates the traversal of `onnxscript/rewriter/_rewrite_rule.py` (`for node in graph: for rule in self.rules: …
count += 1; break`) on hosts that are a *chain* of unary order operators
`Relu | Clip(lo?, hi?) | Min(·, c) | Max(·, c)`, with the eight rules of `_min_max_to_clip.rules` and
`_fuse_relus_clips.rules` in the order of `_DEFAULT_REWRITE_RULES`:

* nodes are visited once, in graph order; at a node the rules are tried in list order and the **first** one whose
  pattern matches and whose `check` passes rewrites (`break`): `firstMatch`;
* every pattern here is `consumer(producer(x))` rooted at the visited node; `remove_nodes=True` makes the matcher refuse
  when the producer's output has another consumer or is a graph output (`shared`);
* the replacement node takes the visited node's place, so the *next* node sees the fused node as its producer
  (a whole chain collapses in one sweep): `sweepFrom`;
* `count` is the number of rewrites.

The single-pair rules are not restated: they are `ClipClip.run`, `ReluClip.run`, `ReluClip.runReluClip`, `MinMax.run`
of `C05Order.lean` (already tied to the implementation by their own streams).  Core Lean only.
-/
namespace OV.C05.Chain
open OV.C05.Order

variable {α : Type}

/-- A `min`/`max` operand of a Clip node: what the rule sees (`bound`) and the value the runtime uses (`val?`). -/
inductive Opd (α : Type) where
  | absent
  | const (v : α)      -- initializer / Constant node
  | ginit (v : α)      -- initializer that is also a graph input; `v` = the value fed at run time
  | dyn (v : α)        -- run-time input; `v` = the value fed at run time (invisible to the rule)
  deriving Repr, DecidableEq

def Opd.bound : Opd α → Bound α
  | .absent => .absent
  | .const v => .const v
  | .ginit v => .constInput v
  | .dyn _ => .dynamic

def Opd.val? : Opd α → Option α
  | .absent => none
  | .const v => some v
  | .ginit v => some v
  | .dyn v => some v

def Opd.ofOption : Option α → Opd α
  | none => .absent
  | some v => .const v

/-- The second operand of a binary `Min`/`Max` node (rank-0): a constant or a run-time value. -/
inductive MOpd (α : Type) where
  | const (v : α)
  | dyn (v : α)
  deriving Repr, DecidableEq

def MOpd.mm : MOpd α → MMConst α
  | .const v => .const 0 [v]
  | .dyn _ => .dynamic

def MOpd.val : MOpd α → α
  | .const v => v
  | .dyn v => v

inductive COp (α : Type) where
  | relu
  | clip (lo hi : Opd α)
  | mn (c : MOpd α)     -- Min(x, c)
  | mx (c : MOpd α)     -- Max(x, c)
  deriving Repr, DecidableEq

def COp.eval [Min α] [Max α] (zero : α) : COp α → α → α
  | .relu, x => Order.relu zero x
  | .clip lo hi, x => Order.clip lo.val? hi.val? x
  | .mn c, x => min x c.val
  | .mx c, x => max x c.val

/-- A rule as the driver uses it on a chain: producer op, consumer (visited) op ↦ replacement. -/
abbrev Rule (α : Type) := COp α → COp α → Option (COp α)

def ofClipOutcome : Outcome (ClipRepl α) → Option (COp α)
  | .fire r => some (.clip (Opd.ofOption r.lo) (Opd.ofOption r.hi))
  | _ => none

/-- `max_min_rule` / `min_max_rule` emit `Clip(x, lo, hi)`; `min_min_rule` / `max_max_rule` emit the same op with the
reduced constant (rank 0 here). -/
def ofMMOutcome (k : MMKind) : Outcome (MMRepl α) → Option (COp α)
  | .fire (.clip l u) => some (.clip (.const l) (.const u))
  | .fire (.sameOp 0 [m]) =>
    (match k with
     | .minMin => some (.mn (.const m))
     | .maxMax => some (.mx (.const m))
     | _ => none)
  | _ => none

section rules
variable [Min α] [Max α] [LT α] [DecidableRel (α := α) (· < ·)]

def ruleMinMin : Rule α
  | .mn c1, .mn c2 => ofMMOutcome .minMin (MinMax.run { kind := .minMin, first := [c1.mm], second := [c2.mm], xRank := some 0 })
  | _, _ => none

def ruleMaxMax : Rule α
  | .mx c1, .mx c2 => ofMMOutcome .maxMax (MinMax.run { kind := .maxMax, first := [c1.mm], second := [c2.mm], xRank := some 0 })
  | _, _ => none

/-- `min_max_rule`: `Max(Min(x, ub), lb)`. -/
def ruleMinMax : Rule α
  | .mn ub, .mx lb => ofMMOutcome .minMax (MinMax.run { kind := .minMax, first := [ub.mm], second := [lb.mm], xRank := some 0 })
  | _, _ => none

/-- `max_min_rule`: `Min(Max(x, lb), ub)`. -/
def ruleMaxMin : Rule α
  | .mx lb, .mn ub => ofMMOutcome .maxMin (MinMax.run { kind := .maxMin, first := [lb.mm], second := [ub.mm], xRank := some 0 })
  | _, _ => none

/-- `successive_clip_relu_rule`: `Clip(Relu(x), a, b)`. -/
def ruleClipRelu (zero : α) : Rule α
  | .relu, .clip a b => ofClipOutcome (ReluClip.run zero { a := a.bound, b := b.bound })
  | _, _ => none

/-- `successive_relu_clip_rule`: `Relu(Clip(x, a, b))`. -/
def ruleReluClip (zero : α) : Rule α
  | .clip a b, .relu => ofClipOutcome (ReluClip.runReluClip zero { a := a.bound, b := b.bound })
  | _, _ => none

def ruleReluRelu : Rule α
  | .relu, .relu => some .relu
  | _, _ => none

def ruleClipClip : Rule α
  | .clip a b, .clip c d => ofClipOutcome (ClipClip.run { a := a.bound, b := b.bound, c := c.bound, d := d.bound })
  | _, _ => none

/-- The eight rules in the order of `_DEFAULT_REWRITE_RULES` (`*_min_max_to_clip.rules, *_fuse_relus_clips.rules`). -/
def chainRules (zero : α) : List (Rule α) :=
  [ruleMinMin, ruleMaxMax, ruleMinMax, ruleMaxMin, ruleClipRelu zero, ruleReluClip zero, ruleReluRelu, ruleClipClip]

end rules

/-- Which of the eight rules has a target pattern `consumer(producer(x))` with these two op types (index into `chainRules`). -/
def pairSlot : COp α → COp α → Option Nat
  | .mn _, .mn _ => some 0
  | .mx _, .mx _ => some 1
  | .mn _, .mx _ => some 2
  | .mx _, .mn _ => some 3
  | .relu, .clip _ _ => some 4
  | .clip _ _, .relu => some 5
  | .relu, .relu => some 6
  | .clip _ _, .clip _ _ => some 7
  | _, _ => none

/-- `for rule in self.rules: delta = rule.try_rewrite(…); if delta is None: continue; …; break`. -/
def firstMatch (rules : List (Rule α)) (p c : COp α) : Option (COp α) :=
  rules.findSome? (fun r => r p c)

/-- A node of the chain: its op and whether its output is also used elsewhere (graph output / second consumer). -/
structure Node (α : Type) where
  op : COp α
  shared : Bool
  deriving Repr, DecidableEq

/-- Visiting node `v` whose producer is the head of `acc` (the already visited prefix, last node first).  When a rule
fires, the replacement is inserted after the visited node and is therefore **the next node the iteration reaches**: it is
visited itself, with the node before the removed producer as its producer (observed: `Relu; Min; Max` — `(Relu, Min)` has no
rule, `Max(Min(x))` becomes a Clip, and `Clip(Relu(x))` is fused in the *same* sweep).  Returns the new prefix and the number
of rewrites. -/
def visit (rules : List (Rule α)) : List (Node α) → Node α → List (Node α) × Nat
  | [], v => ([v], 0)
  | top :: rest, v =>
    if top.shared then (v :: top :: rest, 0)
    else match firstMatch rules top.op v.op with
      | some f => let r := visit rules rest { op := f, shared := v.shared }; (r.1, r.2 + 1)
      | none => (v :: top :: rest, 0)

/-- `for node in graph_or_function: …` — one sweep; the accumulator is the visited prefix (reversed) and the count. -/
def sweepAcc (rules : List (Rule α)) (acc : List (Node α) × Nat) : List (Node α) → List (Node α) × Nat
  | [] => acc
  | n :: ns => let r := visit rules acc.1 n; sweepAcc rules (r.1, acc.2 + r.2) ns

/-- The chain after one `apply_to_model`. -/
def sweep (rules : List (Rule α)) (chain : List (Node α)) : List (Node α) :=
  (sweepAcc rules ([], 0) chain).1.reverse

/-- The `count` returned by `apply_to_model`. -/
def count (rules : List (Rule α)) (chain : List (Node α)) : Nat :=
  (sweepAcc rules ([], 0) chain).2

def run [Min α] [Max α] (zero : α) (l : List (Node α)) (x : α) : α :=
  l.foldl (fun v n => n.op.eval zero v) x

/-- The values of the shared intermediates (graph outputs / values with a second consumer), in graph order. -/
def mids [Min α] [Max α] (zero : α) : List (Node α) → α → List α
  | [], _ => []
  | n :: ns, x => (if n.shared then [n.op.eval zero x] else []) ++ mids zero ns (n.op.eval zero x)

/-- Everything observable of the host: the value of every shared intermediate, then the final value. -/
def outs [Min α] [Max α] (zero : α) (l : List (Node α)) (x : α) : List α :=
  mids zero l x ++ [run zero l x]

/-- A rule is sound when its replacement computes what consumer ∘ producer computed, for every input. -/
def RuleSound [Min α] [Max α] (zero : α) (r : Rule α) : Prop :=
  ∀ p c f, r p c = some f → ∀ x, f.eval zero x = c.eval zero (p.eval zero x)

end OV.C05.Chain
