import OV.Model.C10VersionConv
/-!
# C10 — histories: `convert_version` called again and again on the same object

A caller may convert a model that was converted before (18 → 21 → 23, 18 → 21 → 21, 18 → 21 → 18 with or without
fallback), on the same `ir.Model` (whose nodes then carry the version stamps of the previous call) or on the same
`ModelProto`.  Every call is `convertVersionApi` on the state the previous call left behind — also when that call
raised (the object was mutated in place up to the raising node).  Core Lean only.
-/
namespace OV.C10

section history
variable {α : Type} [Inner α]

/-- One call of a history: the `fallback` argument, the target, and what the ONNX C-API converter does during
that call (contract parameter). -/
abbrev Call (α : Type) := Fallback × Nat × CApi α

/-- The calls of a history in order; returns the final state and the exception (if any) of every call. -/
def convertHistory (e : Entry) : List (Call α) → Model α → Model α × List (Option Err)
  | [], m => (m, [])
  | (fb, t, capi) :: rest, m =>
    let r := convertVersionApi e fb t capi m
    let r' := convertHistory e rest r.1
    (r'.1, r.2 :: r'.2)

/-- The states after every call (for the correspondence stream: one observation per call). -/
def historyStates (e : Entry) : List (Call α) → Model α → List (Model α × Option Err)
  | [], _ => []
  | (fb, t, capi) :: rest, m =>
    let r := convertVersionApi e fb t capi m
    r :: historyStates e rest r.1

/-- A C API that always raises (the pass then leaves the model alone). -/
def capiFails : CApi α := fun _ _ => none

end history

end OV.C10
