/-!
# C16 — model of how a torch_lib function is bound to its ATen schema

Core Lean only (the driver `drv_c16` is compiled from this file).

What is restated here, and from where:

* `OParam` / `OsSig` — what `/repo/onnxscript/ir/_schemas.py: op_signature_from_function` (l.188-328)
  produces per python parameter: an *input* (`ir.schemas.Parameter`, no `get_attr_type` hit) or an
  *attribute* (`AttributeParameter`, `get_attr_type(annotation) ≠ UNDEFINED`), `required` = "no python
  default", `variadic` (always `False` in that function, "TODO: Handle variadic").
* `AtenSchema` — `torch.ops.<ns>.<name>.<overload>._schema` of the installed PyTorch: positional arguments
  and keyword-only arguments (after `*`).
* `Call` — how an FX node reaches the exporter (`torch/onnx/_internal/exporter/_core.py:549-609`):
  `node.args` = a prefix of the schema's positional arguments (trailing arguments equal to their default
  are omitted by the dispatcher), `node.kwargs` = some of the keyword-only arguments by name; the exporter
  calls `onnx_function(*onnx_args, **onnx_kwargs)`.
* `bindS` — scripted functions (`OnnxFunction.__call__` → `OpRecorder.eval_function` →
  `_building._construct_named_inputs_and_attrs`, `torch/onnx/_internal/exporter/_building.py:47-143`):
  parameters are walked in order; while positional arguments remain the parameter takes the next one,
  otherwise the keyword of its own name, otherwise its default; a required parameter left without a value
  raises `ValueError`; surplus positional arguments and unknown keywords are *silently ignored*.
* `bindT` — trace-only functions (`TracedOnnxFunction.__call__` = `self.func(*args, **kwargs)`,
  `/repo/onnxscript/_internal/values.py:484`): CPython's call binding; surplus positionals, unknown
  keywords, a keyword for a parameter already bound by position, and a missing required parameter all
  raise `TypeError`.  Nothing is dropped on this path.
* `nameOk` — `_QUALIFIED_OPERATOR_NAME_REGEX` and the `.default` refusal of `_check_and_normalize_names`
  (`/repo/onnxscript/function_libs/torch_lib/registration.py:15-17, 86-102`).
* `Reg` / `register` / `torchlibOps` — `Registry.register` (registration.py:41-63, first registration
  wins, later ones only warn) and `get_torchlib_ops` (`/repo/onnxscript/_framework_apis/torch_2_5.py:111-146`).
-/
namespace OV.C16

/-! ## Data -/

/-- Base type of an ATen schema argument (`ScalarType` → `dtype`, `MemoryFormat` → `memfmt`;
`pyobj` = argument of a Python builtin such as `operator.add`). -/
inductive ABase
  | tensor | scalar | int | symint | float | bool | str | dtype | layout | device | memfmt
  | generator | dimname | pyobj | other
  deriving DecidableEq, Repr, BEq

structure AArg where
  name : String
  base : ABase
  isList : Bool
  optional : Bool
  hasDefault : Bool
  /-- a `Scalar` argument of an operator that only takes integers (bitwise / shift operators; set by the
  translator, checked against `intOnlyName` in `Entry.defects`) -/
  intScalar : Bool
  deriving Repr

structure AtenSchema where
  positional : List AArg
  kwonly : List AArg
  deriving Repr

/-- ONNX attribute type `get_attr_type` assigned (`none` for inputs). -/
inductive AttrT
  | none | int | float | string | ints | floats | strings | other
  deriving DecidableEq, Repr, BEq

/-- Python types `get_attr_type` knows (`_PY_TYPE_TO_ATTR_TYPE` / `_LIST_TYPE_TO_ATTR_TYPE`,
`/repo/onnxscript/ir/_schemas.py:19-42`). -/
inductive PyT
  | int | float | str | bool | tensor | graph
  deriving DecidableEq, Repr

/-- Syntactic category of a parameter's annotation as `typing.get_type_hints` reports it. -/
inductive Annot
  /-- no annotation -/
  | missing
  /-- exactly one of the python types of the table -/
  | base (t : PyT)
  /-- `Sequence[t]` / `List[t]` / `list[t]` / `Tuple[t, …]` / `tuple[t, …]` with `t` in the table -/
  | seqOf (t : PyT)
  /-- anything else with a `typing` origin (`Optional[…]`, `Union[…]`, `Sequence[TensorType]`, …) -/
  | otherOrigin
  /-- anything else without origin (tensor type classes, `TypeVar`s, …) -/
  | otherPlain
  deriving DecidableEq, Repr

structure OParam where
  name : String
  isInput : Bool
  attr : AttrT
  required : Bool
  variadic : Bool
  /-- python parameter kind is POSITIONAL_OR_KEYWORD -/
  pok : Bool
  /-- the annotation's category and whether the python parameter has a default, read independently of
  `op_signature_from_function` (by `typing.get_type_hints` / `inspect.signature` in the translator) -/
  annot : Annot
  pyDefault : Bool
  deriving Repr

abbrev OsSig := List OParam

/-- `scripted` = `OnnxFunction` (bound by `_construct_named_inputs_and_attrs`);
`traced` = `TracedOnnxFunction` (bound by a plain Python call). -/
inductive Mode
  | scripted | traced
  deriving DecidableEq, Repr

/-- Only the scripted path ignores what it does not know. -/
def Mode.dropsUnknown : Mode → Bool
  | .scripted => true
  | .traced => false

/-- How the qualified name resolves in the installed PyTorch
(`torch/onnx/_internal/exporter/_registration.py:_get_overload`). -/
inductive Res
  | resolved | builtin | lib_absent | undefined
  deriving DecidableEq, Repr

/-- Operators whose `Scalar` arguments are integers by their meaning: `aten::bitwise_*`, `aten::__lshift__*`,
`aten::__rshift__*`. -/
def intOnlyPrefixes : List (List Nat) :=
  [[97, 116, 101, 110, 58, 58, 98, 105, 116, 119, 105, 115, 101, 95],
   [97, 116, 101, 110, 58, 58, 95, 95, 108, 115, 104, 105, 102, 116, 95, 95],
   [97, 116, 101, 110, 58, 58, 95, 95, 114, 115, 104, 105, 102, 116, 95, 95]]

def intOnlyName (qcodes : List Nat) : Bool := intOnlyPrefixes.any (fun p => p.isPrefixOf qcodes)

/-- `_complex` -/
def complexSuffix : List Nat := [95, 99, 111, 109, 112, 108, 101, 120]

/-- `complex` -/
def complexWord : List Nat := [99, 111, 109, 112, 108, 101, 120]

/-- A default value, of a schema argument (`torch._C.Argument.default_value`) or of a python parameter
(`inspect.Parameter.default`): `absent` = no default; `none` = `None`; numbers as reduced fractions (python's
`1 == 1.0`); strings as code points; `nums` = a list / tuple of numbers; `opaque` = anything else (dtype, layout,
memory format, device, enum members, infinities …), never compared. -/
inductive DVal
  | absent | none | bool (b : Bool) | num (n : Int) (d : Nat) | str (cs : List Nat)
  | nums (xs : List (Int × Nat)) | opaque
  deriving DecidableEq, Repr

structure Entry where
  /-- the qualified name as its code points (the kernel evaluates `String.toList` and `Char` tests on
  literals slowly, `Nat` arithmetic and `String.ofList` quickly) -/
  qcodes : List Nat
  isComplex : Bool
  mode : Mode
  res : Res
  aten : AtenSchema
  sig : OsSig
  /-- code points of the python function's `__name__` -/
  fcodes : List Nat
  /-- default values of the schema arguments, parallel to `aten.positional ++ aten.kwonly` -/
  adef : List DVal
  /-- default values of the python parameters, parallel to `sig` -/
  pdef : List DVal
  deriving Repr

/-! ## `op_signature_from_function`: annotation → input or attribute -/

/-- `get_attr_type` (`_schemas.py:81-104`) followed by the branch of `op_signature_from_function`
(l.206-285): a parameter without annotation, or whose annotation `get_attr_type` maps to `UNDEFINED`, is an
input; otherwise an attribute of the mapped type (`bool` ↦ INT, `Sequence[bool]` ↦ INTS; TENSOR(S) /
GRAPH(S) are `other` here).  Returns (isInput, attribute type). -/
def classify : Annot → Bool × AttrT
  | .missing => (true, .none)
  | .base .int => (false, .int)
  | .base .float => (false, .float)
  | .base .str => (false, .string)
  | .base .bool => (false, .int)
  | .base .tensor => (false, .other)
  | .base .graph => (false, .other)
  | .seqOf .int => (false, .ints)
  | .seqOf .float => (false, .floats)
  | .seqOf .str => (false, .strings)
  | .seqOf .bool => (false, .ints)
  | .seqOf .tensor => (false, .other)
  | .seqOf .graph => (false, .other)
  | .otherOrigin => (true, .none)
  | .otherPlain => (true, .none)

/-- The recorded signature is what the transcription yields: classification by `classify`, `required` =
"no python default" (`required=param.default is inspect.Parameter.empty`), never variadic. -/
def sigFaithful (s : OsSig) : Bool :=
  s.all (fun p => decide (classify p.annot = (p.isInput, p.attr)) && (p.required == !p.pyDefault) && !p.variadic)

/-! ## Calls and bindings -/

/-- A call as the exporter sees it: the first `npos` positional schema arguments by position and the
keyword-only arguments named in `kws` by name. -/
structure Call where
  npos : Nat
  kws : List String
  deriving Repr, DecidableEq

/-- The call supplies at most the schema's positional arguments and at least those without default,
only keyword-only names of the schema and at least those without default. -/
structure Conforms (a : AtenSchema) (c : Call) : Prop where
  npos_le : c.npos ≤ a.positional.length
  required_pos : ∀ i arg, a.positional[i]? = some arg → arg.hasDefault = false → i < c.npos
  kws_known : ∀ n, n ∈ c.kws → ∃ arg, arg ∈ a.kwonly ∧ arg.name = n
  required_kw : ∀ arg, arg ∈ a.kwonly → arg.hasDefault = false → arg.name ∈ c.kws

/-- Number of leading positional arguments every call must supply: up to the last one without default. -/
def nreqPos : List AArg → Nat
  | [] => 0
  | x :: xs => if !x.hasDefault || decide (0 < nreqPos xs) then nreqPos xs + 1 else 0

/-- The call that supplies everything the schema has. -/
def maxCall (a : AtenSchema) : Call := ⟨a.positional.length, a.kwonly.map (·.name)⟩

/-- The call that supplies only what has no default. -/
def minCall (a : AtenSchema) : Call :=
  ⟨nreqPos a.positional, (a.kwonly.filter (fun x => !x.hasDefault)).map (·.name)⟩

/-- Which argument of the call a parameter received. -/
inductive Src
  | pos (i : Nat)
  | kw (n : String)
  deriving DecidableEq, Repr

inductive BindErr
  | missing | tooMany | unexpectedKw | multipleValues
  deriving DecidableEq, Repr

deriving instance DecidableEq for Except

/-- One slot per parameter of the function: the argument it received, or `none` (default used). -/
abbrev Binding := List (Option Src)

/-- Value the `k`-th parameter gets once no error is raised: the `k`-th positional if there is one
(`reversed_args_stack` non-empty ⇔ `k < npos`), else the keyword of its own name, else nothing. -/
def slot (npos : Nat) (kws : List String) (k : Nat) (p : OParam) : Option Src :=
  if k < npos then some (.pos k)
  else if kws.contains p.name then some (.kw p.name)
  else none

def slots (npos : Nat) (kws : List String) : Nat → List OParam → Binding
  | _, [] => []
  | k, p :: ps => slot npos kws k p :: slots npos kws (k + 1) ps

/-- `_construct_named_inputs_and_attrs`: the loop over `signature.params` (`k` = number of positional
arguments already popped).  Surplus positionals / unknown keywords are never looked at. -/
def bindS (npos : Nat) (kws : List String) : Nat → List OParam → Except BindErr Binding
  | _, [] => .ok []
  | k, p :: ps =>
    if k < npos then
      (bindS npos kws (k + 1) ps).map (some (.pos k) :: ·)
    else if kws.contains p.name then
      (bindS npos kws (k + 1) ps).map (some (.kw p.name) :: ·)
    else if p.required then
      .error .missing
    else
      (bindS npos kws (k + 1) ps).map (none :: ·)

/-- The same loop written as the Python code writes it, with `reversed_args_stack` explicit (the indices
of the positional arguments not yet consumed, next one first): `if reversed_args_stack: … .pop()`,
`elif param.name in kwargs`, `elif param.required: raise`, else default / `None`. -/
def bindStk (kws : List String) : List Nat → List OParam → Except BindErr Binding
  | _, [] => .ok []
  | i :: st, _ :: ps => (bindStk kws st ps).map (some (.pos i) :: ·)
  | [], p :: ps =>
    if kws.contains p.name then (bindStk kws [] ps).map (some (.kw p.name) :: ·)
    else if p.required then .error .missing
    else (bindStk kws [] ps).map (none :: ·)

/-- CPython's binding of `func(*args, **kwargs)` for a function whose parameters are all
POSITIONAL_OR_KEYWORD. -/
def bindT (s : OsSig) (c : Call) : Except BindErr Binding :=
  if s.length < c.npos then .error .tooMany
  else if c.kws.any (fun n => !(s.any (fun q => q.name == n))) then .error .unexpectedKw
  else if c.kws.any (fun n => s.zipIdx.any (fun qj => qj.1.name == n && decide (qj.2 < c.npos))) then
    .error .multipleValues
  else if s.zipIdx.any (fun pj => pj.1.required && (slot c.npos c.kws pj.2 pj.1).isNone) then
    .error .missing
  else .ok (slots c.npos c.kws 0 s)

def bind (m : Mode) (s : OsSig) (c : Call) : Except BindErr Binding :=
  match m with
  | .scripted => bindS c.npos c.kws 0 s
  | .traced => bindT s c

/-! ## The rule -/

/-- Arguments the property allows to be dropped. -/
def droppableNames : List String :=
  ["generator", "layout", "device", "pin_memory", "memory_format", "requires_grad"]

def droppable (n : String) : Bool := droppableNames.contains n

/-- Plain python values an *input* parameter takes (`_process_python_constants` turns numbers and
number lists into constants); a trace-only function's input parameter is an ordinary python parameter. -/
def inputAccepts (m : Mode) (arg : AArg) : Bool :=
  !m.dropsUnknown ||
  [ABase.scalar, .int, .symint, .float, .bool, .dtype, .pyobj].contains arg.base

/-- What an attribute parameter of ONNX type `t` takes, after the exporter's conversion of
dtype → int and device/layout/memory_format → str (`_core.py:_convert_fx_arg_to_onnx_arg`) and
int → float (`_building.py:136-139`).  A `Scalar` may be a float, so an INT attribute accepts it only for the
integer-only operators (`intScalar`); `aten::histc(…, Scalar min, Scalar max)` on `int` parameters is not. -/
def attrAccepts (t : AttrT) (arg : AArg) : Bool :=
  match t with
  | .int => !arg.isList &&
      ([ABase.int, .symint, .bool, .dtype].contains arg.base || (arg.base == .scalar && arg.intScalar))
  | .float => !arg.isList && [ABase.float, .scalar, .int, .symint].contains arg.base
  | .string => !arg.isList && [ABase.str, .device, .layout, .memfmt].contains arg.base
  | .ints => arg.isList && [ABase.int, .symint, .bool].contains arg.base
  | .floats => arg.isList && [ABase.float].contains arg.base
  | .strings => arg.isList && [ABase.str].contains arg.base
  | .none => false
  | .other => false

/-- Parameter `p` accepts schema argument `arg`: tensors (also optional tensors and tensor lists) only on
inputs; a droppable argument on the parameter of its own name is fine whatever the annotation; other
values by the tables above. -/
def accepts (m : Mode) (p : OParam) (arg : AArg) : Bool :=
  match arg.base with
  | .tensor => p.isInput
  | _ =>
    (droppable arg.name && p.name == arg.name) ||
    (if p.isInput then inputAccepts m arg else attrAccepts p.attr arg)

/-- Some positional argument at index ≥ `j` has no default, so every conforming call supplies index `j`. -/
def mustSupply (a : AtenSchema) (j : Nat) : Bool :=
  (a.positional.drop j).any (fun x => !x.hasDefault)

/-- The clauses of `bindsOk`; a row's failing clauses are reported by name. -/
inductive Clause
  | paramsModelled | posFits | posAccepts | posNames | kwBound | kwPlaced | requiredBound
  deriving DecidableEq, Repr

def Clause.all : List Clause :=
  [.paramsModelled, .posFits, .posAccepts, .posNames, .kwBound, .kwPlaced, .requiredBound]

def clauseOk (m : Mode) (a : AtenSchema) (s : OsSig) : Clause → Bool
  /- every python parameter is POSITIONAL_OR_KEYWORD and none is variadic (what `bindS`/`bindT` model) -/
  | .paramsModelled => s.all (fun p => p.pok && !p.variadic)
  /- every positional schema argument has a parameter at its position, or is ignored by the scripted
     path and is droppable -/
  | .posFits =>
    a.positional.zipIdx.all (fun ai => decide (ai.2 < s.length) || (m.dropsUnknown && droppable ai.1.name))
  /- the parameter at its position accepts it -/
  | .posAccepts =>
    a.positional.zipIdx.all (fun ai => match s[ai.2]? with | some p => accepts m p ai.1 | none => true)
  /- binding by position agrees with binding by name wherever the names coincide (for the positional
     arguments that have a parameter at their position) -/
  | .posNames =>
    a.positional.zipIdx.all (fun ai =>
      decide (s.length ≤ ai.2) || s.zipIdx.all (fun qj => qj.1.name != ai.1.name || qj.2 == ai.2))
  /- every keyword-only schema argument is a parameter name, or is ignored by the scripted path and is
     droppable -/
  | .kwBound =>
    a.kwonly.all (fun arg => s.any (fun q => q.name == arg.name) || (m.dropsUnknown && droppable arg.name))
  /- the parameter of that name lies behind all positional schema arguments and accepts it -/
  | .kwPlaced =>
    a.kwonly.all (fun arg => s.zipIdx.all (fun qj =>
      qj.1.name != arg.name || (decide (a.positional.length ≤ qj.2) && accepts m qj.1 arg)))
  /- a required parameter is always supplied: by a positional that cannot be omitted, or by a
     keyword-only argument without default -/
  | .requiredBound =>
    s.zipIdx.all (fun pj => !pj.1.required || mustSupply a pj.2 ||
      (decide (a.positional.length ≤ pj.2) && a.kwonly.any (fun x => x.name == pj.1.name && !x.hasDefault)))

def bindsOk (m : Mode) (a : AtenSchema) (s : OsSig) : Bool :=
  Clause.all.all (clauseOk m a s)

def failing (m : Mode) (a : AtenSchema) (s : OsSig) : List Clause :=
  Clause.all.filter (fun c => !clauseOk m a s c)


/-- Pairwise distinct strings (parameter names of a Python function always are). -/
def nodupS : List String → Bool
  | [] => true
  | x :: xs => !xs.contains x && nodupS xs

/-! ## Positional schema arguments passed by keyword

Python decompositions call operators with keywords for positional schema arguments
(`prims.convert_element_type(x, dtype=…)`), and the exporter hands `node.kwargs` on unchanged, so such an
argument is bound *by name*.  The extra conditions under which that is right: -/

/-- every positional schema argument that has a parameter at its position has that parameter's name -/
def posNamed (a : AtenSchema) (s : OsSig) : Bool :=
  a.positional.zipIdx.all (fun ai => match s[ai.2]? with | some p => p.name == ai.1.name | none => true)

/-- a required parameter under a positional schema argument sits under one without default -/
def requiredOwn (a : AtenSchema) (s : OsSig) : Bool :=
  s.zipIdx.all (fun pj => !pj.1.required ||
    (match a.positional[pj.2]? with | some arg => !arg.hasDefault | none => true))

/-- Why a row is outside `bindsOkK`. -/
inductive KReason
  | ruleFails | posName | requiredOwn | dupNames
  deriving DecidableEq, Repr

def kReasons (m : Mode) (a : AtenSchema) (s : OsSig) : List KReason :=
  (if bindsOk m a s then [] else [.ruleFails]) ++
  (if posNamed a s then [] else [.posName]) ++
  (if requiredOwn a s then [] else [.requiredOwn]) ++
  (if nodupS (s.map (·.name)) && nodupS ((a.positional ++ a.kwonly).map (·.name)) then [] else [.dupNames])

def bindsOkK (m : Mode) (a : AtenSchema) (s : OsSig) : Bool :=
  bindsOk m a s && posNamed a s && requiredOwn a s &&
  nodupS (s.map (·.name)) && nodupS ((a.positional ++ a.kwonly).map (·.name))

/-! ## Defaults of omitted arguments

A conforming call may omit every schema argument that has a default; ATen then computes with the schema's
default, the torch_lib function with its python parameter's default (`_construct_named_inputs_and_attrs` fills
`param.default` for attributes and `None` for inputs, CPython the function's `__defaults__`).  The two must
not be two *different concrete values*.  `None` on either side, and values of the opaque kinds, are not
judged: there the function body decides (`dtype=-1`, `dim=None` …). -/

def DVal.isAbsent : DVal → Bool
  | .absent => true
  | _ => false

/-- concrete values that can be compared -/
def DVal.judged : DVal → Bool
  | .bool _ | .num _ _ | .str _ | .nums _ => true
  | _ => false

/-- python's `True == 1`, `False == 0` -/
def DVal.norm : DVal → DVal
  | .bool true => .num 1 1
  | .bool false => .num 0 1
  | d => d

def dvAgree (x y : DVal) : Bool := !(x.judged && y.judged) || decide (x.norm = y.norm)

/-- schema argument number `i` (positional arguments first, then keyword-only ones) against parameter `j` -/
def pairAgree (adef pdef : List DVal) (i j : Nat) : Bool :=
  match adef[i]?, pdef[j]? with
  | some u, some v => dvAgree u v
  | _, _ => true

/-- Positional argument `i` is paired with the parameter at position `i`, a keyword-only argument with every
parameter of its name (exactly where `bind` puts them when they are supplied). -/
def defaultsOk (a : AtenSchema) (s : OsSig) (adef pdef : List DVal) : Bool :=
  (List.range a.positional.length).all (fun i => pairAgree adef pdef i i) &&
  a.kwonly.zipIdx.all (fun xk => s.zipIdx.all (fun pj =>
    pj.1.name != xk.1.name || pairAgree adef pdef (a.positional.length + xk.2) pj.2))

/-- The pairs (schema argument number, parameter number) whose concrete defaults differ. -/
def defaultsBad (a : AtenSchema) (s : OsSig) (adef pdef : List DVal) : List (Nat × Nat) :=
  ((List.range a.positional.length).filter (fun i => !pairAgree adef pdef i i)).map (fun i => (i, i)) ++
  a.kwonly.zipIdx.flatMap (fun xk => (s.zipIdx.filter (fun pj =>
    pj.1.name == xk.1.name && !pairAgree adef pdef (a.positional.length + xk.2) pj.2)).map
      (fun pj => (a.positional.length + xk.2, pj.2)))

/-- What an unbound parameter really computes with: `_construct_named_inputs_and_attrs` fills an unbound *input* with
`None` whatever the python default says (`named_inputs[param.name] = None`) and an attribute with `param.default`;
a CPython call uses the python default. -/
def effDefaults (m : Mode) (s : OsSig) (pdef : List DVal) : List DVal :=
  (s.zip pdef).map (fun pd => if m.dropsUnknown && pd.1.isInput && !pd.2.isAbsent then .none else pd.2)

/-- The default lists have the rows' lengths and say "absent" exactly where the flags say "no default". -/
def defaultsShapeOk (a : AtenSchema) (s : OsSig) (adef pdef : List DVal) : Bool :=
  (adef.length == a.positional.length + a.kwonly.length) && (pdef.length == s.length) &&
  ((a.positional ++ a.kwonly).zip adef).all (fun xd => xd.1.hasDefault == !xd.2.isAbsent) &&
  (s.zip pdef).all (fun pd => pd.1.pyDefault == !pd.2.isAbsent)

/-! ## Names -/

/-- `[a-zA-Z0-9_]` on a code point (names are handled as code-point lists: kernel arithmetic on `Nat`
literals is fast, on `Char`/`String` literals it is not). -/
def isWord (c : Nat) : Bool :=
  (48 ≤ c && c ≤ 57) || (65 ≤ c && c ≤ 90) || (97 ≤ c && c ≤ 122) || c == 95

/-- `[a-zA-Z0-9._]` -/
def isOvl (c : Nat) : Bool := isWord c || c == 46

/-- `^[a-zA-Z0-9_]+::[a-zA-Z0-9_]+(\.[a-zA-Z0-9._]+)?$` as a full match (58 = `:`, 46 = `.`).  The classes
exclude `:`, and the name class excludes `.`, so greedy scanning decides it. -/
def matchName (cs : List Nat) : Bool :=
  match cs.dropWhile isWord with
  | 58 :: 58 :: r2 =>
    !(cs.takeWhile isWord).isEmpty && !(r2.takeWhile isWord).isEmpty &&
    (match r2.dropWhile isWord with
     | [] => true
     | 46 :: ov => !ov.isEmpty && ov.all isOvl
     | _ => false)
  | _ => false

/-- `.default` -/
def dotDefault : List Nat := [46, 100, 101, 102, 97, 117, 108, 116]

/-- `_check_and_normalize_names`: refuse `….default`, require the regex. -/
def nameOkCodes (cs : List Nat) : Bool := !(dotDefault.isSuffixOf cs) && matchName cs

def codes (s : String) : List Nat := s.toList.map Char.toNat

def nameOk (s : String) : Bool := nameOkCodes (codes s)

/-! ## Resolution of a name to a PyTorch operator, dispatch -/

/-- What `_get_overload` looks up: `torch.ops.<ns>.<name>.<overload>` (`getattr(operator, name)` /
`getattr(math, name)` for the `_operator` / `math` namespaces, which ignore the overload). -/
structure OpKey where
  ns : List Nat
  name : List Nat
  overload : List Nat
  deriving DecidableEq, Repr

/-- `default` -/
def defaultCodes : List Nat := [100, 101, 102, 97, 117, 108, 116]

/-- `_get_overload` (`torch/onnx/_internal/exporter/_registration.py:96-137`):
`namespace, opname_overload = qualified_name.split("::")`,
`op_name, *maybe_overload = opname_overload.split(".", 1)`, overload = the part after the first dot, or
`default` when there is none. -/
def resolveKey (cs : List Nat) : OpKey :=
  let rest := (cs.dropWhile (· != 58)).drop 2
  ⟨cs.takeWhile (· != 58), rest.takeWhile (· != 46),
   match rest.dropWhile (· != 46) with
   | [] => defaultCodes
   | _ :: ov => ov⟩

/-- One registered decomposition of a target, as the exporter's `ONNXRegistry` holds it. -/
structure Decomp where
  func : Nat
  isComplex : Bool
  deriving DecidableEq, Repr

/-- `_dispatching.dispatch` (`_dispatching.py:31-58`): keep the decompositions of the node's kind
(complex iff some argument is complex), take the first. -/
def dispatch (ds : List Decomp) (nodeComplex : Bool) : Option Nat :=
  ((ds.filter (fun d => d.isComplex == nodeComplex)).head?).map (·.func)

/-! ## Registry -/

/-- `OverloadedFunction`: functions are identified by a number. -/
structure Overloaded where
  name : String
  overloads : List Nat
  complex : List Nat
  deriving Repr, DecidableEq

/-- `Registry._registry`, a dict in insertion order. -/
abbrev Reg := List Overloaded

structure Registration where
  func : Nat
  name : String
  isComplex : Bool
  deriving Repr

def addTo (o : Overloaded) (f : Nat) (cx : Bool) : Overloaded :=
  if cx then
    (if o.complex.isEmpty then { o with complex := o.complex ++ [f] } else o)
  else
    (if o.overloads.isEmpty then { o with overloads := o.overloads ++ [f] } else o)

/-- `Registry.register`: `setdefault(name, OverloadedFunction(name))`, then append unless the list for
that kind is already non-empty (then only a warning). -/
def register : Reg → Registration → Reg
  | [], r => [addTo ⟨r.name, [], []⟩ r.func r.isComplex]
  | o :: os, r =>
    if o.name == r.name then addTo o r.func r.isComplex :: os
    else o :: register os r

def runRegs (rs : List Registration) : Reg := rs.foldl register []

/-- `registry[name].overloads` / `.complex` (empty when the name is unknown). -/
def lookup (r : Reg) (name : String) (cx : Bool) : List Nat :=
  match r.find? (fun o => o.name == name) with
  | some o => if cx then o.complex else o.overloads
  | none => []


/-- One use of the `@torch_op(name | (name, …), private=…, complex=…)` decorator on function `func`. -/
structure Decl where
  func : Nat
  names : List String
  isPrivate : Bool
  isComplex : Bool
  deriving Repr

/-- `torch_op(...)(func)` (`registration.py:105-153`): `_check_and_normalize_names` validates *all* names first
(`ValueError` = `none`, nothing registered); a private function is compiled but not registered; otherwise
every name is registered in order. -/
def torchOp (r : Reg) (d : Decl) : Option Reg :=
  if d.names.all nameOk then
    some (if d.isPrivate then r else d.names.foldl (fun r n => register r ⟨d.func, n, d.isComplex⟩) r)
  else none

/-- A module body: decorators in source order; the first `ValueError` aborts the import. -/
def runDecls : Reg → List Decl → Option Reg
  | r, [] => some r
  | r, d :: ds => match torchOp r d with
    | some r' => runDecls r' ds
    | none => none

def internalPrefix : List Char := ['i', 'n', 't', 'e', 'r', 'n', 'a', 'l', ':', ':']

/-- `get_torchlib_ops`: (qualified name, function, is_complex) for every non-`internal::` entry, real
overloads first. -/
def torchlibOps (r : Reg) : List (String × Nat × Bool) :=
  (r.filter (fun o => !(internalPrefix.isPrefixOf o.name.toList))).flatMap
    (fun o => o.overloads.map (fun f => (o.name, f, false)) ++ o.complex.map (fun f => (o.name, f, true)))

/-! ## Rows -/

def Entry.qualified (e : Entry) : String := String.ofList (e.qcodes.map Char.ofNat)

def Entry.key (e : Entry) : List Nat × Bool := (e.qcodes, e.isComplex)

/-- Numbering of code-point lists (one big `Nat` per name; comparing them is one kernel step). -/
def encodeCodes (cs : List Nat) : Nat := cs.foldl (fun acc c => acc * 1114112 + c + 1) 0

def natKey (k : List Nat × Bool) : Nat := 2 * encodeCodes k.1 + (if k.2 then 1 else 0)

def memN (k : Nat) : List Nat → Bool
  | [] => false
  | x :: xs => Nat.beq x k || memN k xs

def nodupN : List Nat → Bool
  | [] => true
  | k :: ks => !memN k ks && nodupN ks

/-- Failing clauses of a row.  A name PyTorch does not define has no schema to bind against. -/
inductive Defect
  | undefinedOp
  | badName
  /-- a function written for complex inputs (`…_complex`, and the operator itself is not called `…complex`)
  is registered for the real kind: it owns the (name, real) pair its real twin should own -/
  | complexName
  /-- the translator marked a `Scalar` as integer-only outside the integer-only operators -/
  | schemaFlag
  /-- `op_signature_from_function` classified a parameter differently from its transcription -/
  | sigClass
  | clause (c : Clause)
  deriving DecidableEq, Repr

/-- operator name proper: between `::` and the first `.` -/
def opBaseName (qcodes : List Nat) : List Nat := (resolveKey qcodes).name

def Entry.complexNameOk (e : Entry) : Bool :=
  !(complexSuffix.isSuffixOf e.fcodes) || complexWord.isSuffixOf (opBaseName e.qcodes) || e.isComplex

def Entry.schemaFlagsOk (e : Entry) : Bool :=
  (e.aten.positional ++ e.aten.kwonly).all (fun x => !x.intScalar || (x.base == .scalar && intOnlyName e.qcodes))

def Entry.defects (e : Entry) : List Defect :=
  (if nameOkCodes e.qcodes then [] else [.badName]) ++
  (if e.complexNameOk then [] else [.complexName]) ++
  (if e.schemaFlagsOk then [] else [.schemaFlag]) ++
  (if sigFaithful e.sig then [] else [.sigClass]) ++
  (match e.res with
   | .undefined => [.undefinedOp]
   | .lib_absent => []
   | _ => (failing e.mode e.aten e.sig).map .clause)

def Entry.ok (e : Entry) : Bool := e.defects.isEmpty

/-- The row's defaults are recorded consistently and no paired concrete defaults differ (skipped for names
PyTorch does not define: no schema). -/
def Entry.defaultsOk (e : Entry) : Bool :=
  defaultsShapeOk e.aten e.sig e.adef e.pdef &&
  OV.C16.defaultsOk e.aten e.sig e.adef (effDefaults e.mode e.sig e.pdef)

/-- The row has the shape the two binders are modelled for. -/
def Entry.shapeOk (e : Entry) : Bool :=
  clauseOk e.mode e.aten e.sig .paramsModelled && nodupS (e.sig.map (·.name))

end OV.C16
