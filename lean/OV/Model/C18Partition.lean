/-!
# C18 — model of `BuilderBase._partition_inputs_attributes`

Core Lean only.  Step 2 of `call_op` (`tape_builder.py:136-152`): with a schema, the positional and keyword
arguments of `op.X(...)` are split into ONNX inputs and attributes by
`param_manipulation.separate_input_attributes_from_arguments(op_signature, args, kwargs, fill_defaults=False,
allow_extra_args=False)` where `op_signature = OpSignature.from_op_schema(schema)` is computed **from the schema of
this call** (operator, domain, *version*).  The signature is data here (`List SigParam`, extracted from the
installed onnx schemas on every run); the algorithm is restated:

* an unknown keyword → `TypeError` (`extraKwargs`);
* parameters in signature order: a variadic input takes all remaining positionals; otherwise the next positional
  if there is one (as an input or as the attribute of that name), else the keyword of that name, else — attribute
  with a default: nothing (`fill_defaults=False`), else required → `TypeError` (`missing`);
* positionals left over without a variadic parameter → `TypeError` (`tooMany`).
-/
namespace OV.C18

structure SigParam where
  name : String
  isInput : Bool
  variadic : Bool
  required : Bool
  hasDefault : Bool
  deriving DecidableEq, Repr

inductive PErr
  | extraKwargs
  | missing (name : String)
  | tooMany
  deriving DecidableEq, Repr

abbrev PRes := Except PErr (List String × List (String × String))

def kwGet (kw : List (String × String)) (n : String) : Option String :=
  (kw.find? (fun e => e.1 = n)).map (·.2)

/-- the loop over the signature's parameters; `pos` = positional arguments not consumed yet. -/
def partGo : List SigParam → List String → List (String × String) → List String → List (String × String) → PRes
  | [], pos, _, ins, attrs => if pos.isEmpty then .ok (ins, attrs) else .error .tooMany
  | p :: ps, pos, kw, ins, attrs =>
    if p.isInput && p.variadic then partGo ps [] kw (ins ++ pos) attrs
    else match pos with
      | a :: rest =>
        if p.isInput then partGo ps rest kw (ins ++ [a]) attrs else partGo ps rest kw ins (attrs ++ [(p.name, a)])
      | [] =>
        match kwGet kw p.name with
        | some v =>
          if p.isInput then partGo ps [] kw (ins ++ [v]) attrs else partGo ps [] kw ins (attrs ++ [(p.name, v)])
        | none =>
          if !p.isInput && p.hasDefault then partGo ps [] kw ins attrs
          else if p.required then .error (.missing p.name)
          else partGo ps [] kw ins attrs

/-- `_partition_inputs_attributes` for a call with a schema. -/
def partition (sig : List SigParam) (args : List String) (kwargs : List (String × String)) : PRes :=
  if kwargs.any (fun e => !(sig.any (fun p => p.name = e.1))) then .error .extraKwargs
  else partGo sig args kwargs [] []

end OV.C18
