/-!
# C18 — model of `BuilderBase._partition_inputs_attributes`

Core Lean only.  Step 2 of `call_op` (`tape_builder.py:136-152`): with a schema, the positional and keyword
arguments of `op.X(...)` are split into ONNX inputs and attributes by
`param_manipulation.separate_input_attributes_from_arguments(op_signature, args, kwargs, fill_defaults=False,
allow_extra_args=False)` where `op_signature = OpSignature.from_op_schema(schema)` is computed **from the schema of
this call** (operator, domain, *version*).  The signature is data here (`List SigParam`, extracted from the
installed onnx schemas on every run); the algorithm is restated:

* an unknown keyword → `TypeError` (`extraKwargs`);
* parameters in signature order: a variadic input takes all remaining positionals; otherwise the next positional
  if there is one (as an input or as the attribute of that name), else the keyword of that name, else — attribute
  with a default: nothing (`fill_defaults=False`), else required → `TypeError` (`missing`);
* positionals left over without a variadic parameter → `TypeError` (`tooMany`).
-/
namespace OV.C18

structure SigParam where
  name : String
  isInput : Bool
  variadic : Bool
  required : Bool
  hasDefault : Bool
  deriving DecidableEq, Repr

inductive PErr
  | extraKwargs
  | missing (name : String)
  | tooMany
  deriving DecidableEq, Repr

abbrev PRes := Except PErr (List String × List (String × String))

def kwGet (kw : List (String × String)) (n : String) : Option String :=
  (kw.find? (fun e => e.1 = n)).map (·.2)

/-- drop the placeholders left at the end. -/
def stripPh (l : List String) : List String := (l.reverse.dropWhile (· = "~")).reverse

/-- the loop over the signature's parameters; `pos` = positional arguments not consumed yet.  `ph` = the helper
    appends a placeholder (`None`, written `~`) for an omitted optional input so that a later input given by keyword
    keeps its position, and drops the placeholders left at the end (commit b7afd5e; `false`: before it the omitted
    input was skipped and later keyword inputs shifted left, finding D20g). -/
def partGo (ph : Bool) : List SigParam → List String → List (String × String) → List String →
    List (String × String) → PRes
  | [], pos, _, ins, attrs =>
    if pos.isEmpty then .ok (if ph then stripPh ins else ins, attrs) else .error .tooMany
  | p :: ps, pos, kw, ins, attrs =>
    if p.isInput && p.variadic then partGo ph ps [] kw (ins ++ pos) attrs
    else match pos with
      | a :: rest =>
        if p.isInput then partGo ph ps rest kw (ins ++ [a]) attrs else partGo ph ps rest kw ins (attrs ++ [(p.name, a)])
      | [] =>
        match kwGet kw p.name with
        | some v =>
          if p.isInput then partGo ph ps [] kw (ins ++ [v]) attrs else partGo ph ps [] kw ins (attrs ++ [(p.name, v)])
        | none =>
          if !p.isInput && p.hasDefault then partGo ph ps [] kw ins attrs
          else if p.required then .error (.missing p.name)
          else if ph && p.isInput then partGo ph ps [] kw (ins ++ ["~"]) attrs
          else partGo ph ps [] kw ins attrs

/-- `_partition_inputs_attributes` for a call with a schema. -/
def partitionWith (ph : Bool) (sig : List SigParam) (args : List String) (kwargs : List (String × String)) : PRes :=
  if kwargs.any (fun e => !(sig.any (fun p => p.name = e.1))) then .error .extraKwargs
  else partGo ph sig args kwargs [] []

/-- which behaviour the pinned /repo has (b7afd5e: placeholders). -/
def placeholders : Bool := true

def partition (sig : List SigParam) (args : List String) (kwargs : List (String × String)) : PRes :=
  partitionWith placeholders sig args kwargs

end OV.C18
