/-
  OV.Model.C06Pattern — C06: the rewriter's pattern language and the host graph.

  Core Lean only.  Data types restating `onnxscript/rewriter/_pattern_ir.py`
  (ValuePattern / Var / AnyValue / Constant / NodeOutputPattern / OpIdDispatchOr /
  BacktrackingOr, NodePattern, AttrPattern family, StringPattern family, GraphPattern) and
  the part of `onnx_ir` graphs the matcher looks at (producer, index, uses, graph outputs,
  `const_value`, the graph a value belongs to).

  Object identity of Python pattern objects is modelled by ids:
  * node patterns are entries of `GPat.nodes` (creation order), referred to by `NPId`;
  * value patterns are inline trees; every leaf / OR object carries the `id` of the Python
    object (two occurrences with the same `id` are the same object);
  * a `NodeOutputPattern` is identified by `(np, idx)`.
-/
namespace OV.C06

abbrev ValueId := Nat
abbrev NodeId := Nat
abbrev NPId := Nat

/-! ## Attributes -/

/-- Value of an `ir.Attr` (the attribute type is the constructor). Floats are restricted to
integer-valued ones (Python `1 == 1.0`). -/
inductive AttrVal where
  | int (n : Int) | flt (n : Int) | str (s : String)
  | ints (l : List Int) | flts (l : List Int) | strs (l : List String)
  deriving DecidableEq, Repr, Inhabited

/-- `ir.Attr`; `Attr.__eq__` compares name, type and value. -/
structure Attr where
  name : String
  val : AttrVal
  deriving DecidableEq, Repr, Inhabited

/-- The Python value held by an `AttrConstantPattern`. -/
inductive PVal where
  | num (n : Int) | str (s : String) | nums (l : List Int) | strs (l : List String)
  deriving DecidableEq, Repr, Inhabited

def chars (s : String) : List String := s.toList.map (fun c => String.singleton c)

/-- `AttrConstantPattern.matches`: list-typed attributes compare `tuple(attr.value) ==
tuple(pattern)`, all others `attr.value == pattern`.  A scalar number against a list-typed
attribute raises `TypeError` in the real code (`tuple(1)`): recorded finding, modelled as a
mismatch and kept out of the correspondence stream. -/
def attrConstMatches (pv : PVal) : AttrVal → Bool
  | .int n => (match pv with | .num m => n == m | _ => false)
  | .flt n => (match pv with | .num m => n == m | _ => false)
  | .str s => (match pv with | .str t => s == t | _ => false)
  | .ints l => (match pv with
      | .num _ => false
      | .nums l' => l == l'
      | .strs l' => l.isEmpty && l'.isEmpty
      | .str s => l.isEmpty && s.isEmpty)
  | .flts l => (match pv with
      | .num _ => false
      | .nums l' => l == l'
      | .strs l' => l.isEmpty && l'.isEmpty
      | .str s => l.isEmpty && s.isEmpty)
  | .strs l => (match pv with
      | .num _ => false
      | .nums l' => l.isEmpty && l'.isEmpty
      | .strs l' => l == l'
      | .str s => l == chars s)

/-- `AttrPattern` (base class / `AttrVar`: matches anything) or `AttrConstantPattern`. -/
inductive APat where
  | const (v : PVal)
  | var (name : Option String) (canNone : Bool)
  deriving DecidableEq, Repr, Inhabited

def APat.name : APat → Option String
  | .const _ => none
  | .var n _ => n

def APat.canNone : APat → Bool
  | .const _ => false
  | .var _ c => c

def APat.matches : APat → AttrVal → Bool
  | .const pv, a => attrConstMatches pv a
  | .var _ _, _ => true

/-! ## String patterns -/

inductive StrPat where
  | exact (s : String)   -- StringConstantPattern
  | pref (s : String)    -- PrefixPattern
  deriving DecidableEq, Repr, Inhabited

def StrPat.matches : StrPat → String → Bool
  | .exact s, t => s == t
  | .pref s, t => s.isPrefixOf t

/-! ## What a pattern name can be bound to -/

/-- Values stored in `MatchResult.bindings`: an `ir.Value`, `None`, an `ir.Attr`, or an OR tag.
Python `==` on these: identity for values, `Attr.__eq__`, integer equality, `None == None`. -/
inductive Bound where
  | none | val (v : ValueId) | attr (a : Attr) | tag (t : Int)
  deriving DecidableEq, Repr, Inhabited

def Bound.ofVal : Option ValueId → Bound
  | .none => .none
  | .some v => .val v

def Bound.ofAttr : Option Attr → Bound
  | .none => .none
  | .some a => .attr a

/-! ## Constants -/

/-- a tolerance (`rel_tol` / `abs_tol`) as an exact fraction -/
structure Tol where
  num : Nat
  den : Nat
  deriving DecidableEq, Repr, Inhabited

/-- the value of a `Constant` pattern: a scalar or a 1-D list -/
inductive ConstShape where
  | scalar (c : Int) | list (l : List Int)
  deriving DecidableEq, Repr, Inhabited

/-- `Constant(value, rel_tol, abs_tol)` -/
structure ConstPat where
  val : ConstShape
  relTol : Tol
  absTol : Tol
  deriving DecidableEq, Repr, Inhabited

/-- `value.const_value` as a numpy array: shape and flat data. -/
structure ConstVal where
  shape : List Nat
  data : List Int
  deriving DecidableEq, Repr, Inhabited

/-! ## Value patterns -/

/-- One entry of `OpIdDispatchOr._op_to_pattern`: key `(domain, op, "")`, tag, and the
alternative, which is always a `NodeOutputPattern` `(np, idx)`. -/
structure DAlt where
  domain : String
  op : String
  tag : Int
  np : NPId
  idx : Nat
  deriving DecidableEq, Repr, Inhabited

inductive VPat where
  /-- `Var` (`isVar = true`) or a bare `ValuePattern` (`isVar = false`, e.g. from a callable). -/
  | var (id : Nat) (name : Option String) (isVar canNone : Bool) (check : Option Bool)
  | any
  | const (id : Nat) (c : ConstPat)
  | out (np : NPId) (idx : Nat)
  | orD (id : Nat) (name tagVar : Option String) (alts : List DAlt)
  | orB (id : Nat) (name tagVar : Option String) (tags : List Int) (alts : List VPat)
  deriving Repr, Inhabited

/-- Key of an unnamed value pattern in `value_bindings` (object identity). -/
inductive VKey where
  | leaf (id : Nat) | outp (np idx : Nat)
  deriving DecidableEq, Repr, Inhabited

def VPat.key : VPat → Option VKey
  | .var id .. => some (.leaf id)
  | .any => none
  | .const id _ => some (.leaf id)
  | .out np idx => some (.outp np idx)
  | .orD id .. => some (.leaf id)
  | .orB id .. => some (.leaf id)

def VPat.check : VPat → Option Bool
  | .var _ _ _ _ c => c
  | _ => none

/-- `isinstance(pattern_value, (Var, Constant, AnyValue))`: may match values of other graphs. -/
def VPat.crossGraphOk : VPat → Bool
  | .var _ _ isVar _ _ => isVar
  | .any => true
  | .const .. => true
  | _ => false

/-! ## Node and graph patterns -/

structure NPat where
  domain : StrPat
  op : StrPat
  /-- the constructor received `op` as a `str` (true for patterns written with the builder; false
  for the copies made by `NodePattern.clone`, which pass the `StringConstantPattern` object) -/
  opIsStr : Bool
  inputs : List (Option VPat)
  attrs : List (String × APat)
  allowOtherAttrs : Bool
  allowOtherInputs : Bool
  outputs : List (Option String)
  check : Option Bool
  deriving Repr, Inhabited

/-- `NodePattern.op_identifier()` without the (always empty) overload. -/
def NPat.opId (np : NPat) : Option (String × String) :=
  if !np.opIsStr then none else
  match np.domain, np.op with
  | .exact d, .exact o => some (d, o)
  | _, _ => none

structure GPat where
  /-- names of `GraphPattern.inputs` (only the names are ever used) -/
  inputs : List (Option String)
  outputs : List VPat
  nodes : List NPat
  /-- result of the (opaque) condition function -/
  cond : Bool
  deriving Repr, Inhabited

def GPat.outName (p : GPat) (np : NPId) (idx : Nat) : Option String :=
  (p.nodes[np]?).bind (fun n => (n.outputs[idx]?).bind id)

/-- `ValuePattern.name`. -/
def GPat.vname (p : GPat) : VPat → Option String
  | .var _ n .. => n
  | .any => none
  | .const .. => none
  | .out np idx => p.outName np idx
  | .orD _ n .. => n
  | .orB _ n .. => n

/-- `_add_backward_slice` (node part): only direct `NodeOutputPattern` inputs are followed. -/
def addSlice (p : GPat) : Nat → NPId → List NPId → List NPId
  | 0, _, cov => cov
  | f + 1, np, cov =>
    if cov.contains np then cov else
    let cov := cov ++ [np]
    match p.nodes[np]? with
    | none => cov
    | some n => n.inputs.foldl (fun cov i =>
        match i with
        | some (.out q _) => addSlice p f q cov
        | _ => cov) cov

/-- `GraphPattern.output_nodes`: producers of the outputs whose backward slices cover the
pattern, in output order. Returns (output nodes, covered). -/
def GPat.outputNodesCov (p : GPat) : List NPId × List NPId :=
  p.outputs.foldl (fun acc vp =>
    match vp with
    | .out np _ =>
      if acc.2.contains np then acc else (acc.1 ++ [np], addSlice p (p.nodes.length + 1) np acc.2)
    | _ => acc) ([], [])

def GPat.outputNodes (p : GPat) : List NPId := p.outputNodesCov.1

def orId : VPat → Option Nat
  | .orD id .. => some id
  | .orB id .. => some id
  | _ => none

/-- ids of the OR values that are direct inputs of covered nodes (`covered_choice_values`). -/
def GPat.coveredChoices (p : GPat) : List Nat :=
  p.outputNodesCov.2.flatMap (fun np =>
    match p.nodes[np]? with
    | none => []
    | some n => n.inputs.filterMap (fun i => i.bind orId))

/-- `GraphPattern.__init__` does not raise `NotImplementedError`. -/
def GPat.ctorOk (p : GPat) : Bool :=
  p.outputs.all (fun vp => match orId vp with
    | some id => p.coveredChoices.contains id
    | none => true)

/-! ## Host graph -/

structure GNode where
  domain : String
  op : String
  overload : String
  inputs : List (Option ValueId)
  attrs : List Attr
  outputs : List ValueId
  deriving DecidableEq, Repr, Inhabited

structure Graph where
  nodes : List GNode
  /-- graph outputs -/
  outputs : List ValueId
  consts : List (ValueId × ConstVal)
  /-- values whose `.graph` is not the graph being matched (outer-scope or unowned values) -/
  foreign : List ValueId
  /-- values that have a consumer outside `nodes` (e.g. a node of a nested subgraph) -/
  extUses : List ValueId
  deriving Repr, Inhabited

def Graph.producer (g : Graph) (v : ValueId) : Option NodeId :=
  g.nodes.findIdx? (fun n => n.outputs.contains v)

def Graph.index (g : Graph) (v : ValueId) : Option Nat :=
  (g.producer v).bind (fun n => (g.nodes[n]?).bind (fun gn => gn.outputs.findIdx? (· == v)))

def Graph.isForeign (g : Graph) (v : ValueId) : Bool := g.foreign.contains v

def Graph.constOf (g : Graph) (v : ValueId) : Option ConstVal := g.consts.lookup v

def Graph.isOutput (g : Graph) (v : ValueId) : Bool := g.outputs.contains v

/-- consumers of `v` inside the graph (node ids, in graph order) -/
def Graph.consumers (g : Graph) (v : ValueId) : List NodeId :=
  (List.range g.nodes.length).filter (fun i =>
    match g.nodes[i]? with
    | some n => n.inputs.contains (some v)
    | none => false)

def GNode.attr (n : GNode) (name : String) : Option Attr := n.attrs.find? (·.name == name)

end OV.C06
