/-!
# C14 — the process as a state machine (model)

Core Lean only.  Every definition restates a stateful site of the anchored code:

* rule singletons stash per-match fields on `self` in `check()` and read them in `rewrite()`
  (`rewriter/_rewrite_rule.py: RewriteRule.try_rewrite` = `match` (… → condition function) then
  `get_replacement`);  `RuleSpec` is the per-class def/use row regenerated from the rule classes'
  ASTs by `harness/extract_stash.py` (`OV/Gen/C14Stash.lean`);
* `FoldConstantsPass.call` starts with `self._reset()` (`optimizer/_constant_folding.py`);
* `values.Opset.__new__` interns instances by `(cls, domain, version)`;
* `_pattern_ir.pattern_builder` swaps the module global `_pattern_builder` (`try/finally` since 096e584);
* `converter._translate_if_stmt/_translate_loop_stmt`: `sorted(set)` (since ece9697; `list(set)` before),
  followed by `_generate_unique_name` on every output in that order;
* `script()` builds a fresh `Converter` per decorated function; `Converter.__init__` copies the globals;
  constants are evaluated while translating; `OnnxFunction.__call__` (eager) runs the Python function,
  which resolves globals at call time;
* `OnnxFunction.to_model_proto` clones the function graph before building the model.
-/
namespace OV.C14

abbrev Field := String
abbrev Val := Int

/-! ## 1. Rule stashes -/

/-- One row per rule class (generated).  Field lists exclude `consts`. -/
structure RuleSpec where
  name : String
  hasCheck : Bool := true
  hasRewrite : Bool := true
  /-- `setattr(self, …)`/`vars(self)`… seen: the static rows are not exact. -/
  dynamic : Bool := false
  /-- assigned in `__init__` only -/
  consts : List Field := []
  /-- definitely assigned on every path of `check` reaching a possibly-successful return -/
  checkWrites : List Field := []
  /-- assigned on some path of `check` -/
  checkMayWrite : List Field := []
  /-- read in `check` where not definitely assigned by this call -/
  checkEarlyReads : List Field := []
  /-- read in `rewrite` before `rewrite` assigned them -/
  rewriteReads : List Field := []
  rewriteWrites : List Field := []
  /-- definitely assigned by `setup()` (per-graph pre-visitor) -/
  scopeWrites : List Field := []
  deriving Repr, DecidableEq, Inhabited

/-- The stash discipline: everything `rewrite` reads was written by the `check` of the same
`try_rewrite` on its success path, and `check` reads nothing a previous match left behind. -/
def RuleSpec.ok (r : RuleSpec) : Bool :=
  r.rewriteReads.all (fun f => r.checkWrites.contains f) && r.checkEarlyReads.isEmpty && !r.dynamic

/-- Instance `__dict__` of a rule object (absent = `AttributeError`). -/
abbrev Stash := Field → Option Val

def Stash.empty : Stash := fun _ => none
def Stash.set (s : Stash) (f : Field) (v : Val) : Stash := fun g => if g = f then some v else s g

/-- Assignments executed in order (a later one wins). -/
def applyWrites : List (Field × Val) → Stash → Stash
  | [], s => s
  | (f, v) :: ws, s => applyWrites ws (s.set f v)

def AgreeOn (fs : List Field) (s s' : Stash) : Prop := ∀ f, f ∈ fs → s f = s' f

/-- What a rule object *does*: `check` returns success + the assignments it executed, `rewrite` the
replacement (`none` = `get_replacement` returned `None`) + its assignments.  Arbitrary functions of
the whole stash and the matched subgraph `I` — the def/use rows constrain them via `Respects`. -/
structure RuleBeh (I O : Type) where
  check : Stash → I → Bool × List (Field × Val)
  rewrite : Stash → I → Option O × List (Field × Val)

/-- `b` reads and writes no more than the row says (what the AST analysis establishes, and the runtime
monitor of `harness/c14_worker.py` validates on every real `try_rewrite`). -/
structure Respects {I O : Type} (spec : RuleSpec) (b : RuleBeh I O) : Prop where
  check_reads : ∀ s s' i, AgreeOn (spec.checkEarlyReads ++ spec.consts) s s' → b.check s i = b.check s' i
  check_writes : ∀ s i, (b.check s i).1 = true →
    ∀ f, f ∈ spec.checkWrites → f ∈ (b.check s i).2.map Prod.fst
  rewrite_reads : ∀ s s' i, AgreeOn (spec.rewriteReads ++ spec.consts) s s' → b.rewrite s i = b.rewrite s' i
  consts_kept_check : ∀ s i p, p ∈ (b.check s i).2 → p.1 ∉ spec.consts
  consts_kept_rewrite : ∀ s i p, p ∈ (b.rewrite s i).2 → p.1 ∉ spec.consts

/-- `RewriteRule.try_rewrite`: `match` runs the condition function (`check`); only when it succeeds
the replacement function (`rewrite`) runs — on the *same* object, right after. -/
def tryRewrite {I O : Type} (b : RuleBeh I O) (s : Stash) (i : I) : Stash × Option O :=
  let c := b.check s i
  let s1 := applyWrites c.2 s
  if c.1 then
    let r := b.rewrite s1 i
    (applyWrites r.2 s1, r.1)
  else (s1, none)

/-- The rule objects installed in the process (module-level singletons). -/
structure World (I O : Type) where
  rules : List (RuleSpec × RuleBeh I O)
  /-- which Python object carries the stash of rule `r`.  Usually one object per rule, but
  `RewriteRule.commute()` (used by `RewriteRuleSet(commute=True)`, e.g. `fuse_hardswish_rules`) creates
  several `RewriteRule`s that share ONE `_condition_function`/`_replacement_pattern`, i.e. one class
  instance and one stash. -/
  owner : Nat → Nat := id

def World.Ok {I O : Type} (w : World I O) : Prop :=
  (∀ p, p ∈ w.rules → p.1.ok = true ∧ Respects p.1 p.2) ∧
  (∀ r r' p p', w.rules[r]? = some p → w.rules[r']? = some p' → w.owner r = w.owner r' →
    p.1.consts = p'.1.consts)

/-- one stash per rule object -/
abbrev Stashes := Nat → Stash

def Stashes.set (σ : Stashes) (r : Nat) (s : Stash) : Stashes := fun k => if k = r then s else σ k

/-- What the rewriting driver does next, given the outcomes so far (newest first): the loop of
`RewriteRuleSet._apply_to_graph_or_function` is a deterministic function of the model and of what
earlier attempts returned.  `raise` = an exception leaves the operation at this point. -/
inductive Next (I : Type) where
  | attempt (rule : Nat) (input : I)
  | done
  | raise

structure RewriteOp (I O : Type) where
  strat : List (Option O) → Next I
  fuel : Nat

structure RewriteResult (O : Type) where
  outcomes : List (Option O)
  raised : Bool
  deriving DecidableEq, Repr

def runRewrite {I O : Type} (w : World I O) (strat : List (Option O) → Next I) :
    Nat → List (Option O) → Stashes → Stashes × RewriteResult O
  | 0, acc, σ => (σ, ⟨acc, false⟩)
  | n + 1, acc, σ =>
    match strat acc with
    | .done => (σ, ⟨acc, false⟩)
    | .raise => (σ, ⟨acc, true⟩)
    | .attempt r i =>
      match w.rules[r]? with
      | some p =>
        let t := tryRewrite p.2 (σ (w.owner r)) i
        runRewrite w strat n (t.2 :: acc) (σ.set (w.owner r) t.1)
      | none => (σ, ⟨acc, true⟩)

/-! ## 2. Constant folding pass object -/

structure FoldState where
  modified : Bool := false
  counts : Nat := 0
  /-- `OptimizerState._sym_value_map`, keys = value ids -/
  symMap : List (Nat × Val) := []
  deriving DecidableEq, Repr

/-- A node as the folder sees it: `foldable v` is replaced by a constant (sets `_modified`, records a
symbolic value), `keep` is left alone, `useSym k` looks `k` up in the symbolic-value map. -/
inductive FoldNode where
  | foldable (id : Nat) (v : Val)
  | keep (id : Nat)
  | useSym (k : Nat)
  deriving DecidableEq, Repr

structure FoldOut where
  modified : Bool
  /-- per node: the constant / symbolic value it was replaced by -/
  replaced : List (Option Val)
  /-- `NameFixPass` runs only when `_modified` -/
  nameFixRan : Bool
  deriving DecidableEq, Repr

def FoldState.reset (_ : FoldState) : FoldState := {}

def foldVisit (st : FoldState) : List FoldNode → FoldState × List (Option Val)
  | [] => (st, [])
  | .foldable id v :: ns =>
    let r := foldVisit { st with modified := true, counts := st.counts + 1, symMap := (id, v) :: st.symMap } ns
    (r.1, some v :: r.2)
  | .keep _ :: ns => let r := foldVisit st ns; (r.1, none :: r.2)
  | .useSym k :: ns => let r := foldVisit st ns; (r.1, st.symMap.lookup k :: r.2)

/-- The body of `call` *after* the reset (what a pass without `_reset()` would compute). -/
def foldBody (st : FoldState) (m : List FoldNode) : FoldState × FoldOut :=
  let r := foldVisit st m
  (r.1, ⟨r.1.modified, r.2, r.1.modified⟩)

/-- `FoldConstantsPass.call`: `self._reset()` first. -/
def foldCall (st : FoldState) (m : List FoldNode) : FoldState × FoldOut := foldBody st.reset m

/-! ## 3. Opset interning -/

structure OpsetKey where
  cls : String
  domain : String
  version : Nat
  deriving DecidableEq, Repr

/-- `Opset.__new__`: `existing = cls.cache.get(key); if existing: return existing`, else a new instance
is created with the requested fields and cached.  Returns (cache', observable `(domain, version)` of the
returned instance).  The cache stores instances; an instance keeps the fields it was created with. -/
def intern (cache : List OpsetKey) (k : OpsetKey) : List OpsetKey × (String × Nat) :=
  match cache.find? (fun c => c == k) with
  | some c => (cache, (c.domain, c.version))
  | none => (cache ++ [k], (k.domain, k.version))

/-- several `Opset(...)` requests in a row (a script mentions several opsets), threading the cache -/
def internAll : List OpsetKey → List OpsetKey → List OpsetKey × List (String × Nat)
  | cache, [] => (cache, [])
  | cache, k :: ks =>
    let r := intern cache k
    let rs := internAll r.1 ks
    (rs.1, r.2 :: rs.2)

/-! ## 4. `pattern_builder` context manager and operator sugar -/

/-- What happens inside `with pattern_builder(b):` -/
inductive BEv where
  /-- `x + y` on value patterns: builds a node with the *current* global builder -/
  | sugar
  /-- an exception is raised here -/
  | raise
  /-- nested `with pattern_builder(b'): body` -/
  | nested (b : Nat) (body : List BEv)

structure BState where
  global : Nat
  seen : List Nat
  raised : Bool
  deriving DecidableEq, Repr

mutual
/-- Run events until one raises.  `fixed = true`: `try/finally` (current code); `false`: the code
before 096e584, restoring only on normal exit. -/
def runEvents (fixed : Bool) : BState → List BEv → BState
  | st, [] => st
  | st, e :: es =>
    let st1 := runEvent fixed st e
    if st1.raised then st1 else runEvents fixed st1 es
def runEvent (fixed : Bool) : BState → BEv → BState
  | st, .sugar => { st with seen := st.global :: st.seen }
  | st, .raise => { st with raised := true }
  | st, .nested b body =>
    let prev := st.global
    let st1 := runEvents fixed { st with global := b } body
    if st1.raised && !fixed then st1 else { st1 with global := prev }
end

/-- `with pattern_builder(b): body` at top level, the exception (if any) caught by the caller. -/
def withBuilder (fixed : Bool) (g b : Nat) (body : List BEv) : BState :=
  runEvent fixed ⟨g, [], false⟩ (.nested b body)

/-! ## 5. Converter: set iteration, `sorted`, unique names -/

def leStr (a b : String) : Bool := decide (a ≤ b)

structure NameState where
  used : List String
  nextvar : Nat
  deriving DecidableEq, Repr

def genUniqueLoop (cand : String) : Nat → String → NameState → String × NameState
  | 0, r, st => (r, { st with used := r :: st.used })
  | n + 1, r, st =>
    if st.used.contains r then
      genUniqueLoop cand n (cand ++ "_" ++ toString st.nextvar) { st with nextvar := st.nextvar + 1 }
    else (r, { st with used := r :: st.used })

/-- `Converter._generate_unique_name` (the `while` loop runs at most `|used|` + 1 times). -/
def genUnique (st : NameState) (cand : String) : String × NameState :=
  genUniqueLoop cand (st.used.length + 1) cand st

def renameAll : NameState → List String → List String × NameState
  | st, [] => ([], st)
  | st, x :: xs =>
    let r := genUnique st x
    let rs := renameAll r.2 xs
    (r.1 :: rs.1, rs.2)

/-- `_translate_if_stmt`/`_translate_loop_stmt` output plan: `iter` is the order in which CPython
iterates the set of live definitions (an arbitrary permutation, decided by `PYTHONHASHSEED`).
Returns the Python variables in output order and the ONNX names given to the outputs. -/
def ctrlOutputs (sorted : Bool) (st : NameState) (iter : List String) :
    List String × List String × NameState :=
  let live := if sorted then iter.mergeSort leStr else iter
  let r := renameAll st live
  (live, r.1, r.2)

/-! ## 5b. Rewriter: opset imports added for a replacement -/

/-- `TapeBuilder.used_opsets` is a SET of `(domain, version?)`; `iter` is the order in which this
interpreter iterates it (decided by `PYTHONHASHSEED`). -/
abbrev UsedOpset := String × Option Nat

def UsedOpset.key (o : UsedOpset) : Nat := match o.2 with | none => 0 | some v => v + 1

/-- order used by the proposed fix: by domain, then "no version" before versions -/
def leOpset (a b : UsedOpset) : Bool := if a.1 = b.1 then decide (a.key ≤ b.key) else decide (a.1 ≤ b.1)

/-- `_rewrite_rule._update_opset_imports`: every used domain not yet imported is appended to the imports
dict (version, or 1 when unspecified); `sorted = true` is the code as it is since 630be50
(`for … in sorted(delta.used_opsets, …)`), `sorted = false` the code before (bare set iteration).  The version-clash `ValueError` is not modelled (the first
binding of a domain wins here). -/
def updateOpsetImports (sorted : Bool) (imports : List (String × Nat)) (iter : List UsedOpset) :
    List (String × Nat) :=
  let order := if sorted then iter.mergeSort leOpset else iter
  order.foldl (fun imps o =>
    if (imps.lookup o.1).isSome then imps else imps ++ [(o.1, o.2.getD 1)]) imports

/-! ## 5c. Rewriter: fresh names for values a replacement adds (`RewriteRuleSet._value_names`) -/

def freshLoop (names : List String) (base : String) : Nat → Nat → String
  | 0, suffix => base ++ "_" ++ toString suffix
  | fuel + 1, suffix =>
    if names.contains (base ++ "_" ++ toString suffix) then freshLoop names base fuel (suffix + 1)
    else base ++ "_" ++ toString suffix

/-- `RewriteRuleSet._fresh_value_name`: `suffix = 1; while f"{base}_{suffix}" in names: suffix += 1`,
the new name is added to the set -/
def freshValueName (names : List String) (base : String) : String × List String :=
  let n := freshLoop names base (names.length + 1) 1
  (n, n :: names)

def freshMany : List String → String → Nat → List String × List String
  | names, _, 0 => ([], names)
  | names, base, k + 1 =>
    let r := freshValueName names base
    let rs := freshMany r.2 base k
    (r.1 :: rs.1, rs.2)

/-- `apply_to_model(model)`: `self._value_names = _collect_value_names(model)` first (`reset = true`,
the code as it is), then `k` values are named; `reset = false` is a rule set that keeps accumulating the
names of every model it has seen.  Returns (new names, state left on the rule set object). -/
def applyNames (reset : Bool) (state : List String) (modelNames : List String) (k : Nat) :
    List String × List String :=
  freshMany (if reset then modelNames else modelNames ++ state) "val" k

/-! ## 5d. Version converter: names of the values an adapter creates -/

/-- `_VersionConverter` per-run state -/
structure VCState where
  used : List String := []
  counter : Nat := 0
  modified : Bool := false
  deriving DecidableEq, Repr

/-- `_name_new_values` for one value: `while True: name = f"val_{counter}"; counter += 1; if name not in used: break` -/
def vcNameLoop : Nat → VCState → String × VCState
  | 0, st => ("val_" ++ toString st.counter, { st with counter := st.counter + 1 })
  | fuel + 1, st =>
    let name := "val_" ++ toString st.counter
    let st1 := { st with counter := st.counter + 1 }
    if st.used.contains name then vcNameLoop fuel st1 else (name, { st1 with used := name :: st1.used })

def vcNameMany : VCState → Nat → List String × VCState
  | st, 0 => ([], st)
  | st, k + 1 =>
    let r := vcNameLoop (st.used.length + 1) st
    let rs := vcNameMany r.2 k
    (r.1 :: rs.1, rs.2)

/-- `_VersionConverter.visit_model`: the model's value names are ADDED to `used`, the adapters fire and
`k` new values are named, `_modified` is set when a node was replaced; NameFixPass runs iff `_modified`.
Returns (new names, NameFixPass ran) and the state left on the converter object. -/
def vcVisit (st : VCState) (modelNames : List String) (k : Nat) : (List String × Bool) × VCState :=
  let st1 := { st with used := modelNames ++ st.used }
  let r := vcNameMany st1 k
  let st2 := { r.2 with modified := r.2.modified || decide (0 < k) }
  ((r.1, st2.modified), st2)

/-- `_ConvertVersionPassRequiresInline.call` -> `convert_version(model, target)`: the code as it is builds a
NEW `_VersionConverter` for every call (`reuse = false`); `reuse = true` is a pass that keeps one converter
object for all its calls (seeded change C14-8). -/
def convertPassCall (reuse : Bool) (st : VCState) (modelNames : List String) (k : Nat) :
    (List String × Bool) × VCState :=
  if reuse then vcVisit st modelNames k else ((vcVisit {} modelNames k).1, st)

/-! ## 6. Globals, decoration, protos, eager calls -/

/-- body of a script: one expression over the input `x` and global names -/
inductive SExp where
  | x
  | glob (name : String)
  | add (a b : SExp)
  | mul (a b : SExp)
  deriving DecidableEq, Repr

abbrev Globals := List (String × Val)

/-- translated expression: globals are replaced by the constants they had *while translating* -/
inductive GExp where
  | x
  | const (v : Val)
  | unbound (name : String)
  | add (a b : GExp)
  | mul (a b : GExp)
  deriving DecidableEq, Repr

def translate (g : Globals) : SExp → GExp
  | .x => .x
  | .glob n => match g.lookup n with
    | some v => .const v
    | none => .unbound n
  | .add a b => .add (translate g a) (translate g b)
  | .mul a b => .mul (translate g a) (translate g b)

def GExp.eval (x : Val) : GExp → Option Val
  | .x => some x
  | .const v => some v
  | .unbound _ => none
  | .add a b => do let u ← a.eval x; let v ← b.eval x; pure (u + v)
  | .mul a b => do let u ← a.eval x; let v ← b.eval x; pure (u * v)

def GExp.consts : GExp → List Val
  | .x => []
  | .const v => [v]
  | .unbound _ => []
  | .add a b => a.consts ++ b.consts
  | .mul a b => a.consts ++ b.consts

/-- Python evaluating the function body: names resolve in the module globals *now*. -/
def SExp.evalPy (g : Globals) (x : Val) : SExp → Option Val
  | .x => some x
  | .glob n => g.lookup n
  | .add a b => do let u ← a.evalPy g x; let v ← b.evalPy g x; pure (u + v)
  | .mul a b => do let u ← a.evalPy g x; let v ← b.evalPy g x; pure (u * v)

/-- global names the body mentions -/
def SExp.globalsOf : SExp → List String
  | .x => []
  | .glob n => [n]
  | .add a b => a.globalsOf ++ b.globalsOf
  | .mul a b => a.globalsOf ++ b.globalsOf

/-- `OnnxFunction`: the Python function and the IR computed by the decorator. -/
structure OnnxFn where
  body : SExp
  ir : GExp
  deriving DecidableEq, Repr

/-- `script()(f)`: `Converter.__init__` copies the globals; the IR is computed now. -/
def decorate (g : Globals) (body : SExp) : OnnxFn := ⟨body, translate g body⟩

abbrev Proto := GExp

/-- `to_model_proto` / `to_function_proto`: clone the graph, serialise the clone; the function object is
returned unchanged (second component). -/
def toProto (f : OnnxFn) : Proto × OnnxFn := (f.ir, f)

/-- `f(x)` in eager mode. -/
def eagerCall (moduleGlobals : Globals) (f : OnnxFn) (x : Val) : Option Val := f.body.evalPy moduleGlobals x

def setGlobal (g : Globals) (n : String) (v : Val) : Globals := (n, v) :: g

def iterProto : Nat → OnnxFn → List Proto × OnnxFn
  | 0, f => ([], f)
  | n + 1, f => let r := toProto f; let rs := iterProto n r.2; (r.1 :: rs.1, rs.2)

/-! ## 6a. Globals that are mutable objects (numpy arrays, TensorProtos) -/

/-- value of a module global: an immutable Python number, or a reference to a mutable object
(`numpy.ndarray`, `onnx.TensorProto`) living in the heap of cells -/
inductive GVal where
  | imm (v : Val)
  | ref (cell : Nat)
  deriving DecidableEq, Repr

abbrev RGlobals := List (String × GVal)
abbrev Cells := Nat → Val

/-- IR constants: a tensor owned by the IR, or an `ir.Tensor` wrapping the user's array object -/
inductive RExp where
  | x
  | const (v : Val)
  | alias (cell : Nat)
  | unbound (name : String)
  | add (a b : RExp)
  | mul (a b : RExp)
  deriving DecidableEq, Repr

/-- `Converter._emit_const` / the TENSOR-attribute path: `copy = true` (the code as it is since b4400e5):
the payload of a numpy array / TensorProto is snapshotted when the constant is created; `copy = false`
(the code before): `ir.tensor(pyvalue)` wrapped the user's object WITHOUT copying.  Lists and Python numbers are always converted (copied). -/
def translateR (copy : Bool) (g : RGlobals) (cells : Cells) : SExp → RExp
  | .x => .x
  | .glob n => match g.lookup n with
    | some (.imm v) => .const v
    | some (.ref c) => if copy then .const (cells c) else .alias c
    | none => .unbound n
  | .add a b => .add (translateR copy g cells a) (translateR copy g cells b)
  | .mul a b => .mul (translateR copy g cells a) (translateR copy g cells b)

/-- serialising the IR reads aliased payloads as they are NOW -/
def RExp.toProto (cellsNow : Cells) : RExp → GExp
  | .x => .x
  | .const v => .const v
  | .alias c => .const (cellsNow c)
  | .unbound n => .unbound n
  | .add a b => .add (a.toProto cellsNow) (b.toProto cellsNow)
  | .mul a b => .mul (a.toProto cellsNow) (b.toProto cellsNow)

/-- no global the body mentions is a mutable object -/
def NoSharedMutablePayload (g : RGlobals) (body : SExp) : Prop :=
  ∀ n, n ∈ body.globalsOf → ∀ c, g.lookup n ≠ some (.ref c)

/-! ## 6b. `to_model_proto(**overrides)` and the decorator's kwargs dict -/

/-- keyword arguments; first occurrence of a key wins (`{**base, **over}` = `over ++ base`) -/
abbrev KW := List (String × Val)

/-- Python dict objects by identity: `script(**kwargs)` hands the SAME dict object to every
`OnnxFunction` it creates (`main.script.transform`: `OnnxFunction(opset, f, result, src, kwargs)`). -/
abbrev KWHeap := Nat → KW

def KWHeap.set (h : KWHeap) (r : Nat) (kw : KW) : KWHeap := fun k => if k = r then kw else h k

/-- an `OnnxFunction` as far as `to_model_proto` is concerned: its IR and a *reference* to its kwargs dict -/
structure PFn where
  ir : GExp
  kwRef : Nat
  deriving DecidableEq, Repr

/-- `OnnxFunction.to_model_proto(**over)`: `merged = {**self.kwargs, **over}` (a new dict), the model is
built from a clone of the IR and `merged`.  `aliasing = true` is the variant
`merged = self.kwargs; merged.update(over)` which writes into the shared dict.  Returns the heap
afterwards and the result (IR, effective keyword arguments). -/
def callProto (aliasing : Bool) (h : KWHeap) (f : PFn) (over : KW) : KWHeap × (GExp × KW) :=
  let merged := over ++ h f.kwRef
  if aliasing then (h.set f.kwRef merged, (f.ir, merged)) else (h, (f.ir, merged))

/-- a history of `to_model_proto` calls on arbitrary functions with arbitrary overrides -/
def runCalls (aliasing : Bool) : KWHeap → List (PFn × KW) → KWHeap
  | h, [] => h
  | h, c :: cs => runCalls aliasing (callProto aliasing h c.1 c.2).1 cs

/-- effective value of every key of `keys` (what the emitted ModelProto shows) -/
def effective (kw : KW) (keys : List String) : List (Option Val) := keys.map (fun k => kw.lookup k)

/-! ## 6c. `_to_model_proto`: opset imports and ir_version of the emitted model -/

/-- a called `OnnxFunction` as the header computation sees it -/
structure SubFn where
  domain : String
  /-- `func.meta["opset_version"]` (version of the function's own domain) -/
  opsetVersion : Nat
  /-- `func.opset_imports.get("")` -/
  stdImport : Option Nat
  deriving DecidableEq, Repr

def hasKey (imps : List (String × Nat)) (d : String) : Bool := (imps.lookup d).isSome

def addDomain (imps : List (String × Nat)) (f : SubFn) : List (String × Nat) :=
  if hasKey imps f.domain then imps else imps ++ [(f.domain, f.opsetVersion)]

def addStd (imps : List (String × Nat)) (f : SubFn) : List (String × Nat) :=
  match f.stdImport with
  | some v => if hasKey imps "" then imps else imps ++ [("", v)]
  | none => imps

/-- the loop over the called functions: a domain not yet imported is appended with the function's
version; if the standard domain is still missing and the function imports it, that version is taken -/
def addFuncImports : List (String × Nat) → List SubFn → List (String × Nat)
  | imps, [] => imps
  | imps, f :: fs => addFuncImports (addStd (addDomain imps f) f) fs

/-- `OnnxFunction._to_model_proto`: opset imports of the model (in `opset_import` order). -/
def modelOpsetImports (graphImports : List (String × Nat)) (funcs : List SubFn)
    (opsetVersionKw : Option Nat) (latest : Nat) : List (String × Nat) :=
  let i := addFuncImports graphImports funcs
  if hasKey i "" then i else i ++ [("", opsetVersionKw.getD latest)]

/-- `values.select_ir_version` over `onnx.helper.OP_SET_ID_VERSION_MAP` restricted to `ai.onnx` -/
def selectIr (table : List (Nat × Nat)) (maxIr : Nat) (opset : Nat) : Nat :=
  match table.lookup opset with
  | some v => max v 10
  | none => maxIr

/-- (opset imports, ir_version) of `f.to_model_proto(opset_version=…, ir_version=…)` -/
def modelHeader (graphImports : List (String × Nat)) (funcs : List SubFn) (opsetVersionKw irKw : Option Nat)
    (latest : Nat) (table : List (Nat × Nat)) (maxIr : Nat) : List (String × Nat) × Nat :=
  let imps := modelOpsetImports graphImports funcs opsetVersionKw latest
  (imps, match irKw with
    | some v => v
    | none => selectIr table maxIr ((imps.lookup "").getD latest))

/-! ## 7. Converter object reuse (internal API) -/

/-- `Converter` per-function state: the generated table lists the fields assigned in `__init__` under
"States initialized by `_init_function_translation`" and the ones that method really resets.
A field in `stateFields` but not in `resetFields` survives from one translated function to the next
when a `Converter` object is reused. -/
structure ConverterFacts where
  stateFields : List String
  resetFields : List String
  /-- `script_check` constructs `converter.Converter(...)` in its body, once per decorated function -/
  freshPerScript : Bool
  /-- methods of `Converter` that hand the user's object straight to `ir.tensor(...)` (no snapshot) -/
  constByRefSites : List String := []
  /-- `_rewrite_rule._update_opset_imports` iterates `sorted(delta.used_opsets, …)` (not the bare set) -/
  opsetImportsSorted : Bool := false
  deriving DecidableEq, Repr

def ConverterFacts.leaks (c : ConverterFacts) : List String :=
  c.stateFields.filter (fun f => !c.resetFields.contains f)

/-- `_castable` as the autocaster sees it when translating function 2 with the object that translated
function 1: names of 1's generated constants are still "castable". -/
def castableAfter (resets : Bool) (fn1Consts : List String) (fn2Consts : List String) : List String :=
  (if resets then [] else fn1Consts) ++ fn2Consts

/-- does `autocast` insert `CastLike` for an argument named `arg` (static_cast_inputs: castable names
are cast to the type of a non-castable sibling) -/
def insertsCastLike (castable : List String) (arg : String) : Bool := castable.contains arg

/-! ## 8. The whole process -/

structure Sigma where
  stashes : Stashes
  fold : FoldState
  opsets : List OpsetKey
  builder : Nat

inductive ProcOp (I O : Type) where
  /-- `rewrite(M, rules)` / the `RewritePass` inside `optimize` -/
  | rewrite (op : RewriteOp I O)
  /-- the shared `FoldConstantsPass` object called on a model -/
  | fold (m : List FoldNode)
  /-- `values.Opset(domain, version)` (every `script()`, every generated opset module does this) -/
  | opset (k : OpsetKey)
  /-- building a pattern under `with pattern_builder(b)`; may raise -/
  | pattern (b : Nat) (body : List BEv)
  /-- operator sugar outside any context manager: observes the global builder -/
  | sugar
  /-- `script()(f)`: a fresh `Converter` (`st` = its empty name state after the parameters), the opsets the
  script mentions are interned in the process-wide cache, and each If/Loop orders its outputs from a set
  whose iteration order `iter` is whatever this interpreter's hash seed gives -/
  | translate (st : NameState) (opsets : List OpsetKey) (iter : List String)
  /-- an operation whose code keeps nothing between calls (`convert_version` with its fresh
  `_VersionConverter`, a refused script): a function of its own argument only -/
  | pure (result : Val) (raises : Bool)

inductive Res (O : Type) where
  | rewrite (r : RewriteResult O)
  | fold (r : FoldOut)
  | opset (fields : String × Nat)
  | pattern (seen : List Nat) (raised : Bool)
  | sugar (builder : Nat)
  | translate (opsetFields : List (String × Nat)) (outputs : List String × List String)
  | pure (v : Val) (raised : Bool)
  deriving DecidableEq, Repr

def step {I O : Type} (w : World I O) (σ : Sigma) : ProcOp I O → Sigma × Res O
  | .rewrite op =>
    let r := runRewrite w op.strat op.fuel [] σ.stashes
    ({ σ with stashes := r.1 }, .rewrite r.2)
  | .fold m => let r := foldCall σ.fold m; ({ σ with fold := r.1 }, .fold r.2)
  | .opset k => let r := intern σ.opsets k; ({ σ with opsets := r.1 }, .opset r.2)
  | .pattern b body =>
    let r := withBuilder true σ.builder b body
    ({ σ with builder := r.global }, .pattern r.seen r.raised)
  | .sugar => (σ, .sugar σ.builder)
  | .translate st ks iter =>
    let r := internAll σ.opsets ks
    let c := ctrlOutputs true st iter
    ({ σ with opsets := r.1 }, .translate r.2 (c.1, c.2.1))
  | .pure v e => (σ, .pure v e)

def run {I O : Type} (w : World I O) : Sigma → List (ProcOp I O) → Sigma × List (Res O)
  | σ, [] => (σ, [])
  | σ, op :: ops =>
    let r := step w σ op
    let rs := run w r.1 ops
    (rs.1, r.2 :: rs.2)

/-- result of the last operation of a history -/
def lastRes {I O : Type} (w : World I O) (σ : Sigma) (ops : List (ProcOp I O)) : Option (Res O) :=
  (run w σ ops).2.getLast?

end OV.C14
