import OV.Model.C01Script
/-
  OV.Model.C01Eager — the eager calling convention of a script function, restated from
    onnxscript/_internal/values.py      OnnxFunction.__call__  (→ evaluator.default().eval_function)
    onnxscript/_internal/evaluator.py   BaseEvaluator.eval_function, _adapt_to_eager_mode, _adapt_to_user_mode
    onnxscript/_internal/param_manipulation.py   tag_arguments_with_signature
  and, next to it, what CPython itself does when the *underlying Python function* is called with the same
  positional / keyword arguments (`pyBind`: the reference the property compares with — "reading the source as
  ordinary Python").  Core Lean only.  Values are abstract: `V` is whatever a numpy array / Tensor holds.
-/
namespace OV.C01.Eager
open OV.C01

/-- Exceptions (all of them `TypeError` in the code; the constructor records which `raise`). -/
inductive Err
  | unexpectedKw   -- tag_arguments_with_signature: "Unexpected keyword arguments"
  | missing        -- tag_arguments_with_signature: "Required input/attribute … was not provided" / CPython: missing argument
  | badInput       -- _adapt_to_eager_mode: "Unexpected input type"
  | badOutput      -- _adapt_to_user_mode: "Unexpected type"
  | tooMany        -- CPython: takes n positional arguments but m were given; tag_arguments_with_signature: "Too many positional arguments"
  | badKw          -- CPython: unexpected keyword argument / multiple values for argument; tag_arguments_with_signature: "Got multiple values"
deriving DecidableEq, Repr, Inhabited

/-- A Python value handed to (or returned from) a script function (`ExtendedModeValue`). -/
inductive Arg (V : Type)
  | arr (v : V)                 -- numpy.ndarray
  | ten (v : V)                 -- onnxscript.tensor.Tensor
  | bool (b : Bool)             -- Python bool
  | flt (x : String)            -- Python float (canonical text)
  | int (i : Int)               -- Python int
  | none
  | list (xs : List (Arg V))
  | tuple (xs : List (Arg V))
  | other (ty : String)         -- anything else (str, numpy scalar, dict, …)
deriving Repr, Inhabited

/-- `tensor.Tensor(np.array(scalar))`: the three scalar promotions of `_adapt_to_eager_mode`
(`np.array(bool)` → BOOL, `np.array(float)` → DOUBLE, `np.array(int, dtype=np.int64)` → INT64). -/
structure Mk (V : Type) where
  ofBool : Bool → V
  ofFloat : String → V
  ofInt : Int → V

mutual
/-- `_adapt_to_eager_mode.adapt` (the isinstance chain; a list comprehension stops at the first exception). -/
def adapt {V} (mk : Mk V) : Arg V → Except Err (Arg V)
  | .arr v => .ok (.ten v)
  | .ten v => .ok (.ten v)
  | .bool b => .ok (.ten (mk.ofBool b))
  | .flt x => .ok (.ten (mk.ofFloat x))
  | .int i => .ok (.ten (mk.ofInt i))
  | .none => .ok .none
  | .list xs => match adaptL mk xs with | .ok ys => .ok (.list ys) | .error e => .error e
  | .tuple xs => match adaptL mk xs with | .ok ys => .ok (.tuple ys) | .error e => .error e
  | .other _ => .error .badInput
def adaptL {V} (mk : Mk V) : List (Arg V) → Except Err (List (Arg V))
  | [] => .ok []
  | x :: xs =>
    match adapt mk x with
    | .error e => .error e
    | .ok y => match adaptL mk xs with | .ok ys => .ok (y :: ys) | .error e => .error e
end

mutual
/-- the `has_array` flag `_adapt_to_eager_mode` returns: some numpy array was wrapped -/
def hasArr {V} : Arg V → Bool
  | .arr _ => true
  | .list xs => hasArrL xs
  | .tuple xs => hasArrL xs
  | _ => false
def hasArrL {V} : List (Arg V) → Bool
  | [] => false
  | x :: xs => hasArr x || hasArrL xs
end

mutual
/-- `_adapt_to_user_mode` -/
def toUser {V} : Arg V → Except Err (Arg V)
  | .ten v => .ok (.arr v)
  | .none => .ok .none
  | .list xs => match toUserL xs with | .ok ys => .ok (.list ys) | .error e => .error e
  | .tuple xs => match toUserL xs with | .ok ys => .ok (.tuple ys) | .error e => .error e
  | .arr v => .ok (.arr v)
  | _ => .error .badOutput
def toUserL {V} : List (Arg V) → Except Err (List (Arg V))
  | [] => .ok []
  | x :: xs =>
    match toUser x with
    | .error e => .error e
    | .ok y => match toUserL xs with | .ok ys => .ok (y :: ys) | .error e => .error e
end

mutual
/-- values a *user* passes: arrays, `None`, lists / tuples of those -/
def userVal {V} : Arg V → Bool
  | .arr _ => true
  | .none => true
  | .list xs => userValL xs
  | .tuple xs => userValL xs
  | _ => false
def userValL {V} : List (Arg V) → Bool
  | [] => true
  | x :: xs => userVal x && userValL xs
end

/-- One entry of `op_signature.params` (`ir.schemas.Parameter` / `AttributeParameter`). -/
structure SigParam where
  name : Name
  isInput : Bool       -- isinstance(param, ir.schemas.Parameter)
  variadic : Bool
  required : Bool
  hasDefault : Bool    -- param.has_default()
deriving DecidableEq, Repr, Inhabited

/-- `kwargs[name]` / `name in kwargs` on a dict given as its item list (first match; keys of a dict are unique) -/
def lk {A} (n : Name) : List (Name × A) → Option A
  | [] => none
  | (k, v) :: r => if k = n then some v else lk n r

abbrev Tagged (A : Type) := List (A × SigParam) × List (Name × A × SigParam)

/-- The loop of `tag_arguments_with_signature` over `enumerate(op_signature.params)`; `args` is the
(re-assignable) local of that name, `dflt` the value `param.default` stands for when `fill_defaults`. -/
def tagLoop {A} (fill : Bool) (dflt : SigParam → A) (kw : List (Name × A)) :
    Nat → List A → List SigParam → Except Err (Tagged A)
  | _, _, [] => .ok ([], [])
  | i, args, p :: ps =>
    if p.isInput && p.variadic then
      -- tagged_args.extend((arg, param) for arg in args[i:]); args = []
      match tagLoop fill dflt kw (i + 1) [] ps with
      | .error e => .error e
      | .ok (ta, tk) => .ok ((args.drop i).map (fun a => (a, p)) ++ ta, tk)
    else
      match args[i]? with
      | some a =>      -- i < len(args)
        -- 29a1f68 (C01-D49): `if param.name in kwargs: raise TypeError("Got multiple values …")`
        if (lk p.name kw).isSome then .error .badKw
        else
          match tagLoop fill dflt kw (i + 1) args ps with
          | .error e => .error e
          | .ok (ta, tk) => .ok ((a, p) :: ta, tk)
      | none =>
        match lk p.name kw with
        | some v =>    -- param.name in kwargs
          match tagLoop fill dflt kw (i + 1) args ps with
          | .error e => .error e
          | .ok (ta, tk) => .ok (ta, (p.name, v, p) :: tk)
        | none =>
          if p.hasDefault then
            match tagLoop fill dflt kw (i + 1) args ps with
            | .error e => .error e
            | .ok (ta, tk) => .ok (ta, if fill then (p.name, dflt p, p) :: tk else tk)
          else if p.required then .error .missing
          else tagLoop fill dflt kw (i + 1) args ps

/-- `tag_arguments_with_signature` -/
def tagArguments {A} (fill allowExtra : Bool) (dflt : SigParam → A) (ps : List SigParam)
    (args : List A) (kw : List (Name × A)) : Except Err (Tagged A) :=
  if kw.any (fun e => !(ps.any (fun p => p.name = e.1))) && !allowExtra then .error .unexpectedKw
  -- 29a1f68 (C01-D49): surplus positional arguments are an error unless some parameter is variadic
  else if !(ps.any (fun p => p.isInput && p.variadic)) && args.length > ps.length then .error .tooMany
  else tagLoop fill dflt kw 0 args ps

/-- the two loops of `eval_function` over `tagged_args` / `tagged_kwargs.items()`: inputs are adapted,
attribute values are passed through -/
def adaptTagged {V} (mk : Mk V) (p : SigParam) (a : Arg V) : Except Err (Arg V) :=
  if p.isInput then adapt mk a else .ok a

def adaptArgs {V} (mk : Mk V) : List (Arg V × SigParam) → Except Err (List (Arg V))
  | [] => .ok []
  | (a, p) :: r =>
    match adaptTagged mk p a with
    | .error e => .error e
    | .ok y => match adaptArgs mk r with | .ok ys => .ok (y :: ys) | .error e => .error e

def adaptKw {V} (mk : Mk V) : List (Name × Arg V × SigParam) → Except Err (List (Name × Arg V))
  | [] => .ok []
  | (n, a, p) :: r =>
    match adaptTagged mk p a with
    | .error e => .error e
    | .ok y => match adaptKw mk r with | .ok ys => .ok ((n, y) :: ys) | .error e => .error e

def flagArgs {V} : List (Arg V × SigParam) → Bool
  | [] => false
  | (a, p) :: r => (p.isInput && hasArr a) || flagArgs r

def flagKw {V} : List (Name × Arg V × SigParam) → Bool
  | [] => false
  | (_, a, p) :: r => (p.isInput && hasArr a) || flagKw r

/-- A parameter of the underlying Python function (`inspect.signature(fn.function)`). -/
structure PyParam (A : Type) where
  name : Name
  dflt : Option A
deriving Repr, Inhabited

/-- CPython binds what is left after the positional arguments: keyword, else default, else TypeError. -/
def bindRest {A} (kw : List (Name × A)) : List (PyParam A) → Except Err (List (Name × A))
  | [] => .ok []
  | p :: ps =>
    match (match lk p.name kw with | some v => some v | none => p.dflt) with
    | none => .error .missing
    | some v => match bindRest kw ps with | .ok r => .ok ((p.name, v) :: r) | .error e => .error e

def bindPos {A} (kw : List (Name × A)) : List (PyParam A) → List A → Except Err (List (Name × A))
  | ps, [] => bindRest kw ps
  | [], _ :: _ => .error .tooMany
  | p :: ps, a :: as => match bindPos kw ps as with | .ok r => .ok ((p.name, a) :: r) | .error e => .error e

/-- `fn(*pos, **kw)` for a plain `def fn(p1, …, pn=dn)`: the local environment at entry, in parameter order
(too many positionals, a keyword that names no parameter or one already given positionally: TypeError). -/
def pyBind {A} (pps : List (PyParam A)) (pos : List A) (kw : List (Name × A)) : Except Err (List (Name × A)) :=
  if pos.length > pps.length then .error .tooMany
  else if kw.any (fun e => !((pps.drop pos.length).any (fun p => p.name = e.1))) then .error .badKw
  else bindPos kw pps pos

/-- `eval_function` up to the call of the Python function: the environment its body starts from and `has_array`.
(`fill_defaults=False`: an omitted attribute parameter gets its value from CPython's own default.) -/
def eagerCall {V} (mk : Mk V) (allowExtra : Bool) (ps : List SigParam) (pps : List (PyParam (Arg V)))
    (args : List (Arg V)) (kw : List (Name × Arg V)) : Except Err (List (Name × Arg V) × Bool) :=
  match tagArguments false allowExtra (fun _ => Arg.none) ps args kw with
  | .error e => .error e
  | .ok (ta, tk) =>
    match adaptArgs mk ta with
    | .error e => .error e
    | .ok pos =>
      match adaptKw mk tk with
      | .error e => .error e
      | .ok kws =>
        match pyBind pps pos kws with
        | .error e => .error e
        | .ok env => .ok (env, flagArgs ta || flagKw tk)

/-- `return _adapt_to_user_mode(result) if has_array else result` -/
def finish {V} (flag : Bool) (r : Arg V) : Except Err (Arg V) := if flag then toUser r else .ok r

/-! ## The reference: CPython binds the caller's arguments, tensors-to-be are promoted -/

/-- promote the value of every input parameter of an environment given in parameter order -/
def adaptEnv {V} (mk : Mk V) : List SigParam → List (Name × Arg V) → Except Err (List (Name × Arg V))
  | p :: ps, (n, a) :: r =>
    match adaptTagged mk p a with
    | .error e => .error e
    | .ok y => match adaptEnv mk ps r with | .ok ys => .ok ((n, y) :: ys) | .error e => .error e
  | _, _ => .ok []

def flagEnv {V} : List SigParam → List (Name × Arg V) → Bool
  | p :: ps, (_, a) :: r => (p.isInput && hasArr a) || flagEnv ps r
  | _, _ => false

/-- the signature `script()` derived and the Python function's own parameters describe the same `def`:
same names in the same order, nothing variadic, tensor parameters carry no Python default, a parameter with a
Python default is not a required-without-default entry of the signature -/
def sigMatch {A} : List SigParam → List (PyParam A) → Bool
  | [], [] => true
  | p :: ps, q :: qs =>
    (p.name = q.name) && !p.variadic && (!p.isInput || q.dflt.isNone)
      && (q.dflt.isNone || p.hasDefault || !p.required) && sigMatch ps qs
  | _, _ => false

/-- parameter names are pairwise different (Python refuses a `def` with a duplicate argument) -/
def nodupP : List SigParam → Bool
  | [] => true
  | p :: ps => !(ps.any (fun q => q.name = p.name)) && nodupP ps

/-- what `tag_arguments_with_signature` returns on a call CPython accepts (`eager_tagging_is_python_binding`):
the positional values paired with the leading parameters, then the keyword values of the others, in
parameter order -/
def kwTag {A} (kw : List (Name × A)) : List SigParam → List (Name × A × SigParam)
  | [] => []
  | p :: ps => match lk p.name kw with
    | some v => (p.name, v, p) :: kwTag kw ps
    | none => kwTag kw ps

def tagSpec {A} (kw : List (Name × A)) : List A → List SigParam → Tagged A
  | [], ps => ([], kwTag kw ps)
  | _ :: _, [] => ([], [])
  | a :: as, p :: ps => ((a, p) :: (tagSpec kw as ps).1, (tagSpec kw as ps).2)

end OV.C01.Eager
