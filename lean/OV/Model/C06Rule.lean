import OV.Model.C06Commute
import OV.Model.C06Exc
/-
  OV.Model.C06Rule — C06: the entry `commute=True` goes through.

  `RewriteRuleSet(rules, commute=True)` replaces every rule by `rule.commute()`; `RewriteRule.commute` builds one
  rule per variant of `GraphPattern.commute()` with `replace_pattern`, which passes on the rule's own fields —
  for the matcher: the condition function (part of `GPat.cond`), a fresh matcher of the same class for the new
  pattern, and `remove_nodes`.  `try_rewrite` then matches a rule with `check_nodes_are_removable =
  self.remove_nodes`.

  anchors: onnxscript/rewriter/_rewrite_rule.py  RewriteRule.commute / replace_pattern, RewriteRule.try_rewrite
-/
namespace OV.C06

/-- the part of a `RewriteRule` the matcher sees -/
structure Rule where
  p : GPat
  removeNodes : Bool := true
  deriving Repr

/-- `RewriteRule.commute` -/
def Rule.commute (fix7a : Bool) (r : Rule) (fix7b : Bool := true) (fix7c : Bool := true) :
    Except CommuteErr (List Rule) :=
  match OV.C06.commute fix7a r.p fix7b fix7c with
  | .error e => .error e
  | .ok ps => .ok (ps.map (fun q => { p := q, removeNodes := r.removeNodes }))

/-- the match half of `RewriteRule.try_rewrite`: `self.match(model, graph, node,
check_nodes_are_removable=self.remove_nodes)` -/
def Rule.tryMatch (E : Env) (r : Rule) (root : NodeId) : Except Exc (Option Result) :=
  patternMatchX { E with p := r.p } root r.removeNodes

end OV.C06
