import OV.Model.C08View
/-!
# C08 — pool / conv / pad attribute adjustment (nn.py `_adjust_attributes_of_avg_pool`,
`_adjust_attributes_of_max_pool`, core.py `aten_convolution`, `aten_conv{1,2,3}d`,
`aten_constant_pad_nd`, nn.py `_process_padding`)

Pure integer / list bookkeeping: an int-or-tuple `kernel_size / stride / padding / dilation` is expanded
into the ONNX attribute lists; ONNX `pads` is **all begins, then all ends**.
-/
namespace OV.C08

/-- A Python argument that is either an `int` or a sequence of ints. -/
inductive IntOrList where
  | int (v : Int)
  | list (l : List Int)
  deriving Repr, DecidableEq

/-- Python `l * n` on lists. -/
def pyMul (l : List Int) : Nat → List Int
  | 0 => []
  | n + 1 => l ++ pyMul l n

namespace attr

/-- `_adjust_attributes_of_avg_pool(expand_size, kernel_size, stride, padding)`. -/
def avgPool (k : Nat) (ks st pad : IntOrList) : List Int × List Int × List Int :=
  -- fix df33c3d: 1-element kernel_size / stride are broadcast like a 1-element padding
  let kernel := match ks with | .int v => List.replicate k v | .list l => if l.length = 1 then pyMul l k else l
  let pads := match pad with
    | .int v => pyMul (pyMul [v] k) 2
    | .list p =>
      if p.length = 1 then pyMul (pyMul p k) 2
      else if p.length = 2 then pyMul p k
      else pyMul p 2
  let strides := match st with
    | .int v => List.replicate k v
    | .list l => if l.isEmpty then kernel else if l.length = 1 then pyMul l k else l
  (kernel, strides, pads)

/-- `_adjust_attributes_of_max_pool(expand_size, kernel_size, stride, padding, dilation)`. -/
def maxPool (k : Nat) (ks st pad dil : IntOrList) : List Int × List Int × List Int × List Int :=
  let dils := match dil with | .int v => List.replicate k v | .list l => if l.length = 1 then pyMul l k else l
  let kernel := match ks with | .int v => List.replicate k v | .list l => if l.length = 1 then pyMul l k else l
  let pads := match pad with
    | .int v => pyMul (pyMul [v] k) 2
    | .list p =>
      if p.length = 1 then pyMul (pyMul p k) 2
      else if p.length = 2 then pyMul p 2
      else if p.length = 3 then pyMul p 2
      else p
  let strides := match st with
    | .int v => List.replicate k v
    | .list l => if l.isEmpty then kernel else if l.length = 1 then pyMul l k else l
  (kernel, strides, pads, dils)

/-- `aten_convolution`: `image_d = rank - 2`; an int or a 1-element sequence is repeated `image_d` times;
`pads = [*padding, *padding]`.  Returns (strides, pads, dilations). -/
def convolution (imageD : Nat) (st pad dil : IntOrList) : List Int × List Int × List Int :=
  let ex (a : IntOrList) : List Int := match a with
    | .int v => List.replicate imageD v
    | .list l => if l.length = 1 then List.replicate imageD (l.getD 0 0) else l
  let p := ex pad
  (ex st, p ++ p, ex dil)

/-- `aten_conv1d / conv2d / conv3d` (`n` spatial dims): an int becomes an `n`-tuple, sequences are taken as they are. -/
def convNd (n : Nat) (st pad dil : IntOrList) : List Int × List Int × List Int :=
  let ex (a : IntOrList) : List Int := match a with
    | .int v => List.replicate n v
    | .list l => l
  let p := ex pad
  (ex st, p ++ p, ex dil)

/-- Python `l[-1::-2]` (`odd = false`) and `l[-2::-2]` (`odd = true`) on the *reversed* list. -/
def everyOther : List Int → Bool → List Int
  | [], _ => []
  | x :: xs, false => x :: everyOther xs true
  | _ :: xs, true => everyOther xs false

/-- `aten_constant_pad_nd` / `_process_padding`:
`paddings = pad + [0]*(2*rank - len(pad)); paddings[-2::-2] + paddings[-1::-2]`. -/
def padLayout (rank : Nat) (pad : List Int) : List Int :=
  let full := pad ++ List.replicate (2 * rank - pad.length) 0
  everyOther full.reverse true ++ everyOther full.reverse false

/-- PyTorch's `pad` argument built from one `(begin, end)` pair per padded axis, last axis first. -/
def flatPairs (ps : List (Int × Int)) : List Int := ps.flatMap (fun p => [p.1, p.2])

/-! ### operator semantics (ONNX spec / onnxruntime `PoolAttributes::ComputeOutputSize`, `Conv`, `Pad`) -/

def ceilDivI (n d : Int) : Int := (n + d - 1) / d

/-- One spatial axis of `AveragePool` / `MaxPool`. -/
def poolOut (ceil : Bool) (n k s pb pe d : Int) : Int :=
  let num := n + pb + pe - d * (k - 1) - 1
  if ceil then
    let o := ceilDivI num s + 1
    if (o - 1) * s ≥ n + pb then o - 1 else o
  else num / s + 1

/-- PyTorch `pooling_output_shape` (Pool.h): symmetric padding `p`. -/
def torchPoolOut (ceil : Bool) (n k s p d : Int) : Int :=
  let num := n + 2 * p - d * (k - 1) - 1
  if ceil then
    let o := ceilDivI num s + 1
    if (o - 1) * s ≥ n + p then o - 1 else o
  else num / s + 1

/-- One spatial axis of `Conv`. -/
def convOut (n k s pb pe d : Int) : Int := (n + pb + pe - d * (k - 1) - 1) / s + 1
/-- PyTorch `conv` output size. -/
def torchConvOut (n k s p d : Int) : Int := (n + 2 * p - d * (k - 1) - 1) / s + 1
/-- One spatial axis of `ConvTranspose`. -/
def convTOut (n k s pb pe d op : Int) : Int := s * (n - 1) + op + ((k - 1) * d + 1) - pb - pe
def torchConvTOut (n k s p d op : Int) : Int := (n - 1) * s - 2 * p + d * (k - 1) + op + 1

def getI (l : List Int) (i : Nat) : Int := l.getD i 0

/-- Spatial output sizes from attribute lists in the ONNX layout (`pads[i]`, `pads[i + k]`). -/
def poolSpatial (ceil : Bool) (sp : List Nat) (kernel strides pads dils : List Int) : Option (List Nat) :=
  let k := sp.length
  if kernel.length ≠ k ∨ strides.length ≠ k ∨ pads.length ≠ 2 * k ∨ dils.length ≠ k then none
  else if strides.any (· ≤ 0) then none
  else
    let outs := (List.range k).map (fun i =>
      poolOut ceil (sp.getD i 0) (getI kernel i) (getI strides i) (getI pads i) (getI pads (i + k)) (getI dils i))
    if outs.any (· ≤ 0) then none else some (outs.map Int.toNat)

/-- PyTorch's per-axis result for symmetric paddings `p` (already expanded to `k` entries). -/
def torchPoolSpatial (ceil : Bool) (sp : List Nat) (kernel strides p dils : List Int) : Option (List Nat) :=
  let k := sp.length
  if kernel.length ≠ k ∨ strides.length ≠ k ∨ p.length ≠ k ∨ dils.length ≠ k then none
  else if strides.any (· ≤ 0) ∨ kernel.any (· ≤ 0) ∨ dils.any (· ≤ 0) ∨ p.any (· < 0) then none
  -- "pad should be at most half of kernel size"
  else if (List.range k).any (fun i => 2 * getI p i > getI kernel i) then none
  -- pool3d_shape_check: "input image smaller than kernel size"
  else if k = 3 ∧ (List.range k).any (fun i => (sp.getD i 0 : Int) < getI kernel i) then none
  else
    let outs := (List.range k).map (fun i =>
      torchPoolOut ceil (sp.getD i 0) (getI kernel i) (getI strides i) (getI p i) (getI dils i))
    if outs.any (· ≤ 0) then none else some (outs.map Int.toNat)

/-- Expansion PyTorch applies to an `int[k]` argument given as an int or a 1-tuple. -/
def torchExpand (k : Nat) (a : IntOrList) (dflt : List Int) : List Int :=
  match a with
  | .int v => List.replicate k v
  | .list l => if l.isEmpty then dflt else if l.length = 1 then List.replicate k (l.getD 0 0) else l

end attr

/-! ### the traced functions -/

def tIL (l : List Int) : String := tInts l

namespace avg_pool

/-- `aten_avg_poolKd`: input `[N?, C, spatial…]`. -/
def model (k : Nat) (s : Shape) (ks st pad : IntOrList) (ceil : Bool) : Option Shape :=
  let (kernel, strides, pads) := attr.avgPool k ks st pad
  -- `_aten_avg_pool_onnx`: rank == len(kernel_shape) + 1 → Unsqueeze / Squeeze
  let unb := s.length = kernel.length + 1
  let s' := if unb then 1 :: s else s
  if s'.length ≠ kernel.length + 2 then none
  else
    match attr.poolSpatial ceil (s'.drop 2) kernel strides pads (List.replicate kernel.length 1) with
    | none => none
    | some sp => let out := s'.take 2 ++ sp; some (if unb then out.drop 1 else out)

def term (k : Nat) (r : Nat) (ks st pad : IntOrList) (ceil cip : Bool) : String :=
  let (kernel, strides, pads) := attr.avgPool k ks st pad
  let unb := r = kernel.length + 1
  let x := if unb then tOp "Unsqueeze" ["x0", "[0]"] else "x0"
  let p := tOp "AveragePool" [x] [("auto_pad", "NOTSET"), ("ceil_mode", tB ceil), ("count_include_pad", tB cip),
    ("kernel_shape", tIL kernel), ("pads", tIL pads), ("strides", tIL strides)]
  if unb then tOp "Squeeze" [p, "[0]"] else p

def spec (k : Nat) (s : Shape) (ks st pad : IntOrList) (ceil : Bool) : Option Shape :=
  if s.length ≠ k + 1 ∧ s.length ≠ k + 2 then none
  else
    let kernel := attr.torchExpand k ks []
    let strides := attr.torchExpand k st kernel
    let p := attr.torchExpand k pad []
    let lead := s.take (s.length - k)
    (attr.torchPoolSpatial ceil (s.drop (s.length - k)) kernel strides p (List.replicate k 1)).map (lead ++ ·)

end avg_pool

namespace max_pool

def model (k : Nat) (s : Shape) (ks st pad dil : IntOrList) (ceil : Bool) : Option Shape :=
  let (kernel, strides, pads, dils) := attr.maxPool k ks st pad dil
  let unb := s.length = k + 1
  let s' := if unb then 1 :: s else s
  if s'.length ≠ kernel.length + 2 then none
  else
    match attr.poolSpatial ceil (s'.drop 2) kernel strides pads dils with
    | none => none
    | some sp => let out := s'.take 2 ++ sp; some (if unb then out.drop 1 else out)

def poolTerm (x : String) (kernel strides pads dils : List Int) (ceil : Bool) : String :=
  tOp "MaxPool" [x] [("auto_pad", "NOTSET"), ("ceil_mode", tB ceil), ("dilations", tIL dils),
    ("kernel_shape", tIL kernel), ("pads", tIL pads), ("storage_order", "0"), ("strides", tIL strides)]

def term (k : Nat) (r : Nat) (ks st pad dil : IntOrList) (ceil : Bool) : String :=
  let (kernel, strides, pads, dils) := attr.maxPool k ks st pad dil
  let unb := r = k + 1
  let x := if unb then tOp "Unsqueeze" ["x0", "[0]"] else "x0"
  let p := poolTerm x kernel strides pads dils ceil ++ "#0"
  if unb then tOp "Squeeze" [p, "[0]"] else p

/-- `aten_max_poolKd_with_indices`, batched input: `(values, indices - first index of each plane)`. -/
def termWithIndices (k : Nat) (ks st pad dil : IntOrList) (ceil : Bool) : String :=
  let (kernel, strides, pads, dils) := attr.maxPool k ks st pad dil
  let ones := List.replicate k (1 : Int)
  let flat := tOp "MaxPool" ["x0"] [("auto_pad", "NOTSET"), ("ceil_mode", "0"), ("dilations", tIL dils),
    ("kernel_shape", tIL ones), ("storage_order", "0"), ("strides", tIL ones)] ++ "#1"
  let axes := (List.range k).map (fun i => ((i : Nat) : Int) + 2)
  poolTerm "x0" kernel strides pads dils ceil ++ "#0 || " ++
    tOp "Sub" [poolTerm "x0" kernel strides pads dils ceil ++ "#1",
      tOp "Slice" [flat, tIL (List.replicate k 0), tIL ones, tIL axes]]

def spec (k : Nat) (s : Shape) (ks st pad dil : IntOrList) (ceil : Bool) : Option Shape :=
  if s.length ≠ k + 1 ∧ s.length ≠ k + 2 then none
  else
    let kernel := attr.torchExpand k ks []
    let strides := attr.torchExpand k st kernel
    let p := attr.torchExpand k pad []
    let dils := attr.torchExpand k dil []
    let lead := s.take (s.length - k)
    (attr.torchPoolSpatial ceil (s.drop (s.length - k)) kernel strides p dils).map (lead ++ ·)

end max_pool

namespace conv

/-- `aten_convolution` (batched input `[N, C, spatial…]`, weight `[O, C/g, kernel…]` resp. `[C, O/g, kernel…]`). -/
def model (s w : Shape) (st pad dil : IntOrList) (transposed : Bool) (outPad : List Int) (groups : Nat) : Option Shape :=
  let imageD := s.length - 2
  let (strides, pads, dils) := attr.convolution imageD st pad dil
  let kernel := w.drop 2
  if s.length < 3 ∨ w.length ≠ s.length ∨ strides.length ≠ imageD ∨ pads.length ≠ 2 * imageD ∨ dils.length ≠ imageD then none
  else
    let sp := s.drop 2
    let outs := (List.range imageD).map (fun i =>
      if transposed then
        attr.convTOut (sp.getD i 0) (kernel.getD i 0) (attr.getI strides i) (attr.getI pads i) (attr.getI pads (i + imageD))
          (attr.getI dils i) (attr.getI outPad i)
      else
        attr.convOut (sp.getD i 0) (kernel.getD i 0) (attr.getI strides i) (attr.getI pads i) (attr.getI pads (i + imageD))
          (attr.getI dils i))
    if outs.any (· ≤ 0) then none
    else some (s.getD 0 0 :: (if transposed then w.getD 1 0 * groups else w.getD 0 0) :: outs.map Int.toNat)

def term (s w : Shape) (st pad dil : IntOrList) (transposed : Bool) (outPad : List Int) (groups : Nat) : String :=
  let imageD := s.length - 2
  let (strides, pads, dils) := attr.convolution imageD st pad dil
  let kernel := (w.drop 2).map (Int.ofNat ·)
  if transposed then
    tOp "ConvTranspose" ["x0", "x1", "x2"] [("auto_pad", "NOTSET"), ("dilations", tIL dils), ("group", toString groups),
      ("kernel_shape", tIL kernel), ("output_padding", tIL outPad), ("pads", tIL pads), ("strides", tIL strides)]
  else
    tOp "Conv" ["x0", "x1", "x2"] [("auto_pad", "NOTSET"), ("dilations", tIL dils), ("group", toString groups),
      ("kernel_shape", tIL kernel), ("pads", tIL pads), ("strides", tIL strides)]

def spec (s w : Shape) (st pad dil : IntOrList) (transposed : Bool) (outPad : List Int) (groups : Nat) : Option Shape :=
  let k := s.length - 2
  if s.length < 3 ∨ w.length ≠ s.length then none
  else
    let strides := attr.torchExpand k st []
    let p := attr.torchExpand k pad []
    let dils := attr.torchExpand k dil []
    let kernel := w.drop 2
    let sp := s.drop 2
    if strides.length ≠ k ∨ p.length ≠ k ∨ dils.length ≠ k then none
    else
      let outs := (List.range k).map (fun i =>
        if transposed then
          attr.torchConvTOut (sp.getD i 0) (kernel.getD i 0) (attr.getI strides i) (attr.getI p i) (attr.getI dils i) (attr.getI outPad i)
        else
          attr.torchConvOut (sp.getD i 0) (kernel.getD i 0) (attr.getI strides i) (attr.getI p i) (attr.getI dils i))
      if outs.any (· ≤ 0) ∨ (List.range k).any (fun i => attr.getI outPad i ≥ attr.getI strides i) then none
      else some (s.getD 0 0 :: (if transposed then w.getD 1 0 * groups else w.getD 0 0) :: outs.map Int.toNat)

end conv

namespace convnd

/-- `aten_conv1d` / `aten_conv2d` / `aten_conv3d` with `bias=None`: the zero bias is `Expand(0, Expand(Shape(weight)[0:1], [1]))` = `[O]`
(conv3d built `[O, 2]` before fix 0fc3090). -/
def biasShape (_imageD : Nat) (w : Shape) : Shape := [w.getD 0 0]

def biasTerm (_imageD : Nat) : String :=
  let w0 := tOp "Shape" ["x1"] [("end", "1"), ("start", "0")]
  tOp "Expand" [tOp "CastLike" ["0.0:FLOAT", "x0"], tOp "Expand" [w0, "[1]"]]

/-- ONNX `Conv` needs a 1-D bias of size `O`; everything else is `aten_convolution`'s non-transposed path with full-length lists. -/
def model (s w : Shape) (hasBias : Bool) (st pad dil : List Int) (groups : Nat) : Option Shape :=
  let b := if hasBias then [w.getD 0 0] else biasShape (s.length - 2) w
  if b ≠ [w.getD 0 0] then none else conv.model s w (.list st) (.list pad) (.list dil) false [] groups

def term (s w : Shape) (hasBias : Bool) (st pad dil : List Int) (groups : Nat) : String :=
  let kernel := (w.drop 2).map (Int.ofNat ·)
  tOp "Conv" ["x0", "x1", if hasBias then "x2" else biasTerm (s.length - 2)] [("auto_pad", "NOTSET"), ("dilations", tIL dil),
    ("group", toString groups), ("kernel_shape", tIL kernel), ("pads", tIL (pad ++ pad)), ("strides", tIL st)]

/-- `torch.nn.functional.conv{1,2,3}d(x, w, bias?, stride, padding, dilation, groups)`: the bias does not change the shape. -/
def spec (s w : Shape) (st pad dil : List Int) (groups : Nat) : Option Shape :=
  conv.spec s w (.list st) (.list pad) (.list dil) false [] groups

end convnd

namespace pad

/-- `Pad(x, pads)` with the layout of `padLayout`: axis `i` grows by `pads[i] + pads[i + rank]`. -/
def model (s : Shape) (p : List Int) : Option Shape :=
  let r := s.length
  let lay := attr.padLayout r p
  if p.length > 2 * r ∨ lay.length ≠ 2 * r then none
  else
    let outs := (List.range r).map (fun i => (s.getD i 0 : Int) + attr.getI lay i + attr.getI lay (i + r))
    if outs.any (· < 0) then none else some (outs.map Int.toNat)

def termConst (r : Nat) (p : List Int) (value : String) : String :=
  tOp "Pad" ["x0", tInts (attr.padLayout r p), value] [("mode", "constant")]

def termMode (r : Nat) (p : List Int) (mode : String) : String :=
  tOp "Pad" ["x0", tInts (attr.padLayout r p)] [("mode", mode)]

/-- `torch.nn.functional.pad(x, pad)`: `pad = (last_begin, last_end, second_last_begin, …)`. -/
def spec (s : Shape) (p : List Int) : Option Shape :=
  let r := s.length
  if p.length % 2 ≠ 0 ∨ p.length > 2 * r then none
  else
    let outs := (List.range r).map (fun i =>
      let j := r - 1 - i            -- distance from the last axis
      (s.getD i 0 : Int) + attr.getI p (2 * j) + attr.getI p (2 * j + 1))
    if outs.any (· < 0) then none else some (outs.map Int.toNat)

end pad

end OV.C08

/-! ## second attribute-helper family: unfold (size/step), upsample (size / scales → Resize inputs),
col2im (pads), im2col (index ranges) -/
namespace OV.C08

namespace unfold_

/-- Number of windows as emitted: `Range(0, d - (size - 1), step)`. -/
def windows (d size step : Int) : Nat := rangeLen 0 (d - (size - 1)) step

/-- PyTorch: `(d - size) / step + 1`. -/
def specWindows (d size step : Int) : Int := (d - size) / step + 1

def model (s : Shape) (dim size step : Int) : Option Shape :=
  if s.length = 0 then some [1]
  else
    let r : Int := s.length
    let dm := if dim < 0 then dim + r else dim
    if dm < 0 ∨ dm ≥ r ∨ size < 0 then none
    else
      let a := dm.toNat
      some (setAt s a (windows (s.getD a 0) size step) ++ [size.toNat])

def term (r : Nat) (dim size step : Int) : String :=
  if r = 0 then tOp "Unsqueeze" ["x0", "[0]"]
  else
    let dm := if dim < 0 then dim + (r : Int) else dim
    let perm := ((List.range (r + 1)).eraseIdx (dm.toNat + 1)) ++ [dm.toNat + 1]
    let starts := tOp "Range" ["0", tOp "Sub" [tOp "Gather" [tOp "Shape" ["x0"] [("start", "0")], tInts [dm]] [("axis", "0")],
      tI (size - 1)], tI step]
    let idx := tOp "Add" [tOp "Unsqueeze" [starts, "[1]"],
      tOp "Unsqueeze" [tInts ((List.range size.toNat).map (Int.ofNat ·)), "[0]"]]
    tOp "Transpose" [tOp "Gather" ["x0", idx] [("axis", tI dm)]] [("perm", tNats perm)]

def spec (s : Shape) (dim size step : Int) : Option Shape :=
  match torchDim s.length dim with
  | none => none
  | some a =>
    if step ≤ 0 ∨ size < 0 then none
    else if s.length = 0 then (if size ≤ 1 then some [size.toNat] else none)
    else
      let d : Int := s.getD a 0
      if size > d then none
      else some (setAt s a (specWindows d size step).toNat ++ [size.toNat])

/-- Value level: the `Gather` index matrix of the graph, `Unsqueeze(Range(0, d-(size-1), step), 1) + Unsqueeze([0..size-1], 0)`: row `w`
(one per `Range` element `0 + w·step`) holds `w·step + j`, `j < size`. -/
def modelIdx (d size step : Int) : List (List Int) :=
  (List.range (windows d size step)).map (fun (w : Nat) => (List.range size.toNat).map (fun (j : Nat) => (0 + (w : Int) * step) + (j : Int)))

/-- `Tensor.unfold(dim, size, step)`: window `w < (d - size)/step + 1`, element `j < size` is `x[w·step + j]`. -/
def specIdx (d size step : Int) : List (List Int) :=
  (List.range (specWindows d size step).toNat).map (fun (w : Nat) => (List.range size.toNat).map (fun (j : Nat) => (w : Int) * step + (j : Int)))

end unfold_

namespace upsample

/-- A scale given in halves (`n` means `n/2`): the only scales the generators use (exact in binary). -/
def scaleStr (n : Int) : String :=
  toString (n / 2) ++ (if n % 2 = 0 then ".0" else ".5") ++ ":FLOAT"

/-- `_aten_upsample_output_size` / `_aten_upsample_scales` for the nearest / linear families:
`scales = none` → `Resize(sizes = [N, C] ++ output_size)`, else `Resize(scales = [1, 1] ++ scales)`
and ONNX computes `floor(in * scale)`. -/
def model (s : Shape) (outSize : List Int) (scales : Option (List Int)) : Option Shape :=
  if s.length < 3 then none
  else match scales with
    | none => if outSize.length + 2 = s.length ∧ outSize.all (0 < ·) then some (s.take 2 ++ outSize.map Int.toNat) else none
    | some sc =>
      if sc.length + 2 ≠ s.length then none
      else some (s.take 2 ++ (List.range sc.length).map (fun i => (((s.getD (i + 2) 0 : Nat) : Int) * sc.getD i 0 / 2).toNat))

def term (outSize : List Int) (scales : Option (List Int)) (mode ctm : String) : String :=
  let attrs := [("antialias", "0"), ("coordinate_transformation_mode", ctm), ("cubic_coeff_a", "-0.75"),
    ("exclude_outside", "0"), ("extrapolation_value", "0.0"), ("keep_aspect_ratio_policy", "stretch"),
    ("mode", mode), ("nearest_mode", "floor")]
  match scales with
  | none => tOp "Resize" ["x0", "_", "_", tOp "Concat" [tOp "Shape" ["x0"] [("end", "2"), ("start", "0")],
      tOp "Cast" [tInts outSize] [("to", "7")]] [("axis", "0")]] attrs
  | some sc => tOp "Resize" ["x0", "_", "[" ++ ",".intercalate ("1.0:FLOAT" :: "1.0:FLOAT" :: sc.map scaleStr) ++ "]"] attrs

/-- `aten::upsample_*(x, output_size, scales…)`: the result has `output_size`. -/
def spec (s : Shape) (outSize : List Int) : Option Shape :=
  if s.length < 3 ∨ outSize.length + 2 ≠ s.length ∨ outSize.any (· ≤ 0) then none
  else some (s.take 2 ++ outSize.map Int.toNat)

end upsample

namespace col2im

/-- `aten_col2im` pads: `[w] → [w,w,w,w]`, `[w,x] → [w,x,w,x]`, else unchanged. -/
def pads (p : List Int) : List Int :=
  if p.length = 1 then pyMul p 4 else if p.length = 2 then pyMul p 2 else p

def term (outSize kernel dil pad stride : List Int) : String :=
  tOp "Col2Im" ["x0", tInts outSize, tInts kernel] [("dilations", tInts dil), ("pads", tInts (pads pad)), ("strides", tInts stride)]

/-- number of sliding blocks along one axis -/
def blocks (n k s pb pe d : Int) : Int := (n + pb + pe - d * (k - 1) - 1) / s + 1

def model (s : Shape) (outSize kernel dil pad stride : List Int) : Option Shape :=
  let ps := pads pad
  if s.length ≠ 3 ∨ outSize.length ≠ 2 ∨ kernel.length ≠ 2 ∨ dil.length ≠ 2 ∨ stride.length ≠ 2 ∨ ps.length ≠ 4 then none
  else
    let kk := (attr.getI kernel 0 * attr.getI kernel 1).toNat
    let l := (List.range 2).map (fun i => blocks (attr.getI outSize i) (attr.getI kernel i) (attr.getI stride i)
      (attr.getI ps i) (attr.getI ps (i + 2)) (attr.getI dil i))
    if kk = 0 ∨ s.getD 1 0 % kk ≠ 0 ∨ l.any (· ≤ 0) ∨ ((attr.getI l 0) * (attr.getI l 1)).toNat ≠ s.getD 2 0 then none
    else some [s.getD 0 0, s.getD 1 0 / kk, (attr.getI outSize 0).toNat, (attr.getI outSize 1).toNat]

def spec (s : Shape) (outSize kernel dil pad stride : List Int) : Option Shape :=
  if s.length ≠ 3 ∨ outSize.length ≠ 2 ∨ kernel.length ≠ 2 ∨ dil.length ≠ 2 ∨ stride.length ≠ 2 ∨ pad.length ≠ 2 then none
  else
    let kk := (attr.getI kernel 0 * attr.getI kernel 1).toNat
    let l := (List.range 2).map (fun i => attr.torchConvOut (attr.getI outSize i) (attr.getI kernel i) (attr.getI stride i)
      (attr.getI pad i) (attr.getI dil i))
    if stride.any (· ≤ 0) then none else
    if kk = 0 ∨ s.getD 1 0 % kk ≠ 0 ∨ l.any (· ≤ 0) ∨ ((attr.getI l 0) * (attr.getI l 1)).toNat ≠ s.getD 2 0 then none
    else some [s.getD 0 0, s.getD 1 0 / kk, (attr.getI outSize 0).toNat, (attr.getI outSize 1).toNat]

end col2im

namespace im2col

/-- blocks along one axis as emitted: `Range(0, n + (2p - d(k-1)), s)`. -/
def blocksModel (n k s p d : Int) : Nat := rangeLen 0 (n + (2 * p - d * (k - 1))) s

def model (s : Shape) (kernel dil pad stride : List Int) : Option Shape :=
  if s.length ≠ 4 ∨ kernel.length ≠ 2 ∨ dil.length ≠ 2 ∨ pad.length ≠ 2 ∨ stride.length ≠ 2 then none
  else
    let l := (List.range 2).map (fun i => blocksModel (s.getD (i + 2) 0) (attr.getI kernel i) (attr.getI stride i)
      (attr.getI pad i) (attr.getI dil i))
    if l.any (· = 0) then none
    else some [s.getD 0 0, s.getD 1 0 * (attr.getI kernel 0 * attr.getI kernel 1).toNat, l.getD 0 0 * l.getD 1 0]

def term (kernel dil pad stride : List Int) : String :=
  let kh := attr.getI kernel 0; let kw := attr.getI kernel 1
  let dh := attr.getI dil 0; let dw := attr.getI dil 1
  let ph := attr.getI pad 0; let pw := attr.getI pad 1
  let sh := attr.getI stride 0; let sw := attr.getI stride 1
  let shp := tOp "Shape" ["x0"] [("start", "0")]
  let u (x : String) := tOp "Unsqueeze" [x, "[0]"]
  let padT := tOp "Pad" ["x0", tOp "Concat" ["[0,0]", u (tI ph), u (tI pw), "[0,0]", u (tI ph), u (tI pw)] [("axis", "0")]]
    [("mode", "constant")]
  let idx (ax : Nat) (k d p s : Int) :=
    tOp "Add" [tOp "Unsqueeze" [tOp "Range" ["0", tOp "Add" [tOp "Gather" [shp, toString ax] [("axis", "0")], tI (2 * p - d * (k - 1))], tI s], "[0]"],
      tOp "Unsqueeze" [tOp "Range" ["0", tI (k * d), tI d], "[1]"]]
  let g1 := tOp "Gather" [padT, idx 2 kh dh ph sh] [("axis", "2")]
  let g2 := tOp "Gather" [g1, idx 3 kw dw pw sw] [("axis", "4")]
  let outShape := tOp "Concat" [u (tOp "Gather" [shp, "0"] [("axis", "0")]),
    u (tOp "Mul" [tOp "Gather" [shp, "1"] [("axis", "0")], tI (kh * kw)]), "[-1]"] [("axis", "0")]
  tOp "Reshape" [tOp "Transpose" [g2] [("perm", "[0,1,2,4,3,5]")], outShape] [("allowzero", "0")]

def spec (s : Shape) (kernel dil pad stride : List Int) : Option Shape :=
  if s.length ≠ 4 ∨ kernel.length ≠ 2 ∨ dil.length ≠ 2 ∨ pad.length ≠ 2 ∨ stride.length ≠ 2 then none
  else
    let l := (List.range 2).map (fun i => attr.torchConvOut (s.getD (i + 2) 0) (attr.getI kernel i) (attr.getI stride i)
      (attr.getI pad i) (attr.getI dil i))
    if stride.any (· ≤ 0) then none
    else if l.any (· ≤ 0) then none
    else some [s.getD 0 0, s.getD 1 0 * (attr.getI kernel 0 * attr.getI kernel 1).toNat, ((attr.getI l 0) * (attr.getI l 1)).toNat]

end im2col

end OV.C08
