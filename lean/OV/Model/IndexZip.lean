/-
  OV.Model.IndexZip — C11: NumPy indexing with ANY number of 1-D tensor indices.

  Core Lean only.  `numpyIndex` / `numpyIndexT` (OV.Model.Index) answer `unmodelled` as soon as an
  expression holds two 1-D indices, because a per-axis `View` cannot express what NumPy does there:
  the 1-D indices are *broadcast against each other and zipped* — `X[I, J][t] = X[I[t], J[t]]` — so all
  their axes collapse into ONE output axis.  This file models exactly that (`numpyIndexZ`); it is
  validated against real NumPy on every generated case (driver command `numpy`, harness/c11.py).
-/
import OV.Model.Index
namespace OV.Index

def Comp.vecLen? : Comp → Option Nat
  | .tVec vs => some vs.length
  | _ => none

/-- NumPy broadcasting of 1-D shapes `(n₁,) … (n_k,)`: every length is the common length or 1
(`none`: "shape mismatch: indexing arrays could not be broadcast together"). -/
def bcastLen (lens : List Nat) : Option Nat :=
  match lens.filter (fun n => n != 1) with
  | [] => some 1
  | n :: rest => if rest.all (fun m => m == n) then some n else none

/-- A length-1 index is repeated along the broadcast axis.  (With a broadcast length of 0 nothing is
left of it — NumPy does not bounds-check index arrays when the broadcast result is empty.) -/
def Comp.stretch (n : Nat) : Comp → Comp
  | .tVec [i] => .tVec (List.replicate n i)
  | c => c

/-- One source axis of a NumPy result: removed, kept as an axis of its own, or *zipped* — all
zipped axes share one output axis, output position `t` reads `srcs[t]` on each of them. -/
inductive ZAxis where
  | drop (src : Nat)
  | pick (srcs : List Nat)
  | zip (srcs : List Nat)
  deriving Repr, DecidableEq

def ZAxis.isZip : ZAxis → Bool
  | .zip _ => true
  | _ => false

def ZAxis.ofAxis (vec : Bool) : AxisMap → ZAxis
  | .drop s => .drop s
  | .pick s => if vec then .zip s else .pick s

/-- Mark the axes selected by 1-D indices as zipped. -/
def zmark : List Comp → View → List ZAxis
  | c :: cs, a :: as => ZAxis.ofAxis c.isVec a :: zmark cs as
  | _, as => as.map (ZAxis.ofAxis false)

/-- A NumPy result: the per-axis maps, and whether the shared (broadcast) axis comes first in the
output or stays at the place of the first 1-D index. -/
structure ZRes where
  axes : List ZAxis
  front : Bool
  deriving Repr, DecidableEq

def keptDims (v : List ZAxis) : List Nat :=
  v.filterMap (fun a => match a with | .pick s => some s.length | _ => none)

def zipLen? (v : List ZAxis) : Option Nat :=
  v.findSome? (fun a => match a with | .zip s => some s.length | _ => none)

/-- Output shape: the kept axes in source order, and ONE axis for all the zipped ones. -/
def ZRes.shape (z : ZRes) : List Nat :=
  match zipLen? z.axes with
  | none => keptDims z.axes
  | some n =>
    if z.front then n :: keptDims z.axes
    else keptDims (z.axes.takeWhile (fun a => !a.isZip)) ++ n :: keptDims (z.axes.dropWhile (fun a => !a.isZip))

/-- Does NumPy put the broadcast axis first *and* does that differ from leaving it where the first
1-D index stands?  (The advanced indices — ints, rank-0 tensors, 1-D indices — are not adjacent, and a
kept axis precedes the first 1-D index.)  For exactly one 1-D index this is `needsTranspose`. -/
def moveFront (comps : List Comp) : Bool :=
  let idx := comps.zipIdx
  let adv := idx.filter (fun p => p.1.isAdvanced)
  match adv.head?, adv.getLast? with
  | some f, some l =>
    let adjacent := (adv.length == l.2 - f.2 + 1)
    match (idx.filter (fun p => p.1.isVec)).map (·.2) with
    | p :: _ => !adjacent && (idx.any (fun q => !q.1.isAdvanced && q.2 < p))
    | [] => false
  | _, _ => false

/-- **NumPy indexing, any number of 1-D indices**: too many indices and 1-D indices that do not
broadcast are IndexErrors; otherwise length-1 indices are stretched to the broadcast length, every
axis is indexed as usual (bounds checks included) and the axes of the 1-D indices are zipped. -/
def numpyIndexZ (comps : List Comp) (shape : List Nat) : Except Err ZRes :=
  if comps.length > shape.length then .error .indexError
  else
    match bcastLen (comps.filterMap Comp.vecLen?) with
    | none => .error .indexError
    | some n => do
      let v ← axiswise numpyAxis (comps.map (Comp.stretch n)) shape
      pure ⟨zmark comps v, moveFront comps⟩

/-- The view of a front end read as a NumPy result would be: the same maps, nothing zipped. -/
def unzip (v : List ZAxis) : View :=
  v.map (fun a => match a with | .drop s => .drop s | .pick s => .pick s | .zip s => .pick s)

end OV.Index
