/-!
# C05 — order-algebra rules (`_min_max_to_clip.py`, `_fuse_relus_clips.py`)

Restates `check()` / `rewrite()` of
`FuseSuccessiveRelu`, `FuseSuccessiveClip`, `FuseSuccessiveClipRelu`, `FuseSuccessiveReluClip`,
`FuseSuccessiveMin`, `FuseSuccessiveMax`, `FuseMaxMinToClip`, `FuseMinMaxToClip`.
Generic over the element carrier (`Min`/`Max`), so the driver runs it on `Int` and the theorems
(`OV/Props/C05.lean`) quantify over every linear order.  Core Lean only.
-/
namespace OV.C05.Order

variable {α : Type}

/-- ONNX `Clip(x, lo?, hi?)` : `min (max x lo) hi`, an absent bound is no bound.  (When `lo > hi` the
specification says every element becomes `hi`; `min (max x lo) hi` is exactly that.) -/
def clip [Min α] [Max α] (lo hi : Option α) (x : α) : α :=
  let y := match lo with | some l => max x l | none => x
  match hi with | some h => min y h | none => y

def relu [Max α] (zero : α) (x : α) : α := max x zero

/-- One optional `min`/`max` operand of a Clip node as `check()` sees it. -/
inductive Bound (α : Type) where
  | absent                      -- input missing / `None`
  | const (v : α)               -- initializer or Constant node (not a graph input)
  | constInput (v : α)          -- initializer that is also a graph input: `is_graph_input()` is true
  | dynamic                     -- no constant value
  deriving Repr, DecidableEq

def Bound.val? : Bound α → Option α
  | .const v => some v
  | .constInput v => some v
  | _ => none

/-- `_FuseReluClipBase.check`: every present bound must not be a graph input and must be constant. -/
def boundOk : Bound α → Bool
  | .absent => true
  | .const _ => true
  | .constInput _ => false
  | .dynamic => false

/-- `get_const_tensor(bound) is not None` for a present bound (an initializer that is also a graph input has one). -/
def Bound.hasTensor : Bound α → Bool
  | .const _ => true
  | .constInput _ => true
  | _ => false

/-- `_FuseReluClipBase._clip_dtype(node) is not None` (commit c0ccb25): the element type of a Clip node is that of its input
or, when the input carries no type information, that of a constant bound. -/
def clipDtypeKnown (inputTyped : Bool) (lo hi : Bound α) : Bool :=
  inputTyped || lo.hasTensor || hi.hasTensor

inductive Outcome (β : Type) where
  | nofire
  | raises
  | fire (r : β)
  deriving Repr, DecidableEq

/-- Replacement `Clip(x, lo?, hi?)`. -/
structure ClipRepl (α : Type) where
  lo : Option α
  hi : Option α
  deriving Repr, DecidableEq

/-- `combine(val1, val2, op)` of `FuseSuccessiveClip.compute_clip_min_max`. -/
def combine (op : α → α → α) : Option α → Option α → Option α
  | some a, some b => some (op a b)
  | some a, none => some a
  | none, some b => some b
  | none, none => none

structure ClipClip (α : Type) where
  a : Bound α   -- first Clip min
  b : Bound α   -- first Clip max
  c : Bound α   -- second Clip min
  d : Bound α   -- second Clip max
  /-- `node.inputs[0].dtype` known for the first / second Clip.  Since commit c0ccb25 only the first Clip's element type
  is needed (`check` refuses when `_clip_dtype(first_clip_node)` is unknown); `dtype2` is no longer consulted. -/
  dtype1 : Bool := true
  dtype2 : Bool := true
  /-- the model's default-domain opset is ≥ 11 (before that Clip carries min/max as attributes) -/
  opsetGe11 : Bool := true

def ClipClip.check (p : ClipClip α) : Bool :=
  boundOk p.a && boundOk p.b && boundOk p.c && boundOk p.d

/-- `FuseSuccessiveClip` **before fix F3** (commit b85b7db): `lo' = max a c`, `hi' = min b d` — kept for the
`…_prefix_refuted` documentation theorems only. -/
def ClipClip.buildPrefix [Min α] [Max α] (p : ClipClip α) : ClipRepl α :=
  { lo := combine max p.a.val? p.c.val?, hi := combine min p.b.val? p.d.val? }

/-- `FuseSuccessiveClip.compute_clip_min_max` as it is now: `lo' = max a c`;
`if max1 and min2 are present: max1 = max(max1, min2)`; `hi' = min max1 d`. -/
def ClipClip.build [Min α] [Max α] (p : ClipClip α) : ClipRepl α :=
  { lo := combine max p.a.val? p.c.val?,
    hi := combine min (combine max p.b.val? (match p.b.val? with | some _ => p.c.val? | none => none)) p.d.val? }

def ClipClip.run [Min α] [Max α] (p : ClipClip α) : Outcome (ClipRepl α) :=
  if !p.opsetGe11 then .nofire      -- commit 625745e (finding C05-N2, fixed)
  else if !p.check then .nofire
  else if !clipDtypeKnown p.dtype1 p.a p.b then .nofire      -- commit c0ccb25 (before: AttributeError in `extract_min_max`)
  else .fire p.build

def ClipClip.lhs [Min α] [Max α] (p : ClipClip α) (x : α) : α :=
  clip p.c.val? p.d.val? (clip p.a.val? p.b.val? x)

def ClipRepl.rhs [Min α] [Max α] (r : ClipRepl α) (x : α) : α := clip r.lo r.hi x

/-- Exactly the region where the pre-fix formula was wrong (finding D2, fixed): both `b` and `c` are present,
`b < c`, and `d` is absent or `b < d`. -/
def ClipClip.d2 [LT α] [DecidableRel (α := α) (· < ·)] (p : ClipClip α) : Bool :=
  match p.b.val?, p.c.val? with
  | some b, some c => decide (b < c) && (match p.d.val? with | some d => decide (b < d) | none => true)
  | _, _ => false

/-- `Clip(Relu(x), a?, b?)` or `Relu(Clip(x, a?, b?))`. -/
structure ReluClip (α : Type) where
  a : Bound α
  b : Bound α
  dtype1 : Bool := true
  opsetGe11 : Bool := true

def ReluClip.check (p : ReluClip α) : Bool := boundOk p.a && boundOk p.b

/-- `FuseSuccessiveClipRelu.compute_clip_min_max` (`Clip(Relu(x), a, b)`): `lo' = max 0 (a or 0)`, `hi' = b`.
Before fix F4 (commit 979daa2) `FuseSuccessiveReluClip` inherited this formula (`…_prefix_refuted`). -/
def ReluClip.build [Max α] (zero : α) (p : ReluClip α) : ClipRepl α :=
  { lo := some (max zero (p.a.val?.getD zero)), hi := p.b.val? }

/-- `FuseSuccessiveReluClip.compute_clip_min_max` (`Relu(Clip(x, a, b))`) as it is now:
`lo' = max 0 (a or 0)`, `hi' = max 0 b`. -/
def ReluClip.buildReluClip [Max α] (zero : α) (p : ReluClip α) : ClipRepl α :=
  { lo := some (max zero (p.a.val?.getD zero)), hi := p.b.val?.map (max zero) }

def ReluClip.run [Max α] (zero : α) (p : ReluClip α) : Outcome (ClipRepl α) :=
  if !p.opsetGe11 then .nofire
  else if !p.check then .nofire
  else if !clipDtypeKnown p.dtype1 p.a p.b then .nofire      -- commit c0ccb25
  else .fire (p.build zero)

def ReluClip.runReluClip [Max α] (zero : α) (p : ReluClip α) : Outcome (ClipRepl α) :=
  if !p.opsetGe11 then .nofire
  else if !p.check then .nofire
  else if !clipDtypeKnown p.dtype1 p.a p.b then .nofire      -- commit c0ccb25
  else .fire (p.buildReluClip zero)

/-- `Clip(Relu(x), a, b)`. -/
def ReluClip.lhsClipRelu [Min α] [Max α] (zero : α) (p : ReluClip α) (x : α) : α :=
  clip p.a.val? p.b.val? (relu zero x)

/-- `Relu(Clip(x, a, b))`. -/
def ReluClip.lhsReluClip [Min α] [Max α] (zero : α) (p : ReluClip α) (x : α) : α :=
  relu zero (clip p.a.val? p.b.val? x)

/-- Region where the pre-fix `Relu(Clip(x,a,b)) → Clip(x, max 0 a, b)` was wrong (finding D1, fixed): `b` present and `b < 0`. -/
def ReluClip.d1 [LT α] [DecidableRel (α := α) (· < ·)] (zero : α) (p : ReluClip α) : Bool :=
  match p.b.val? with
  | some b => decide (b < zero)
  | none => false

/-! ## Min/Max fusion -/

/-- A constant operand of `Min`/`Max` as the rule sees it: numpy value (`rank`, flat `data`; the model
covers size-1 tensors of any rank and 1-D vectors) or not a constant. -/
inductive MMConst (α : Type) where
  | const (rank : Nat) (data : List α)
  | dynamic
  deriving Repr, DecidableEq

def MMConst.isConst : MMConst α → Bool
  | .const .. => true
  | .dynamic => false

/-- `_is_scalar`: `np.isscalar(v) or np.size(v) == 1`. -/
def MMConst.isScalar : MMConst α → Bool
  | .const _ d => d.length == 1
  | .dynamic => false

def MMConst.rank : MMConst α → Nat
  | .const r _ => r
  | .dynamic => 0

def MMConst.data : MMConst α → List α
  | .const _ d => d
  | .dynamic => []

inductive MMKind where
  | minMin   -- Min(Min(x, cs…), ds…)       → Min(x, reduce minimum)
  | maxMax   -- Max(Max(x, cs…), ds…)       → Max(x, reduce maximum)
  | maxMin   -- Min(Max(x, lbs…), ubs…)     → Clip(x, max lbs, min ubs)          (`max_min_rule`)
  | minMax   -- Max(Min(x, ubs…), lbs…)     → Clip(x, max lbs, min ubs) if lb ≤ ub (`min_max_rule`)
  deriving Repr, DecidableEq

def MMKind.needScalars : MMKind → Bool
  | .maxMin | .minMax => true
  | _ => false

structure MinMax (α : Type) where
  kind : MMKind
  first : List (MMConst α)    -- `first_node.inputs[1:]`
  second : List (MMConst α)   -- `second_node.inputs[1:]`
  /-- rank of `x` (`first_node.inputs[0].shape`), `none` when the shape is unknown -/
  xRank : Option Nat := none
  /-- the model's default-domain opset is ≥ 11 (Clip takes min/max as inputs) -/
  opsetGe11 : Bool := true

/-- numpy broadcasting of two (rank, flat data) values restricted to size-1 tensors and equal-length vectors. -/
def bop (op : α → α → α) : (Nat × List α) → (Nat × List α) → (Nat × List α)
  | (r1, d1), (r2, d2) =>
    let r := if r1 < r2 then r2 else r1
    match d1, d2 with
    | [a], _ => (r, d2.map (op a))
    | _, [b] => (r, d1.map (fun a => op a b))
    | _, _ => (r, List.zipWith op d1 d2)

def reduceAll (op : α → α → α) : List (Nat × List α) → Option (Nat × List α)
  | [] => none
  | v :: vs => some (vs.foldl (bop op) v)

def flatReduce (op : α → α → α) : List α → Option α
  | [] => none
  | v :: vs => some (vs.foldl op v)

inductive MMRepl (α : Type) where
  | sameOp (rank : Nat) (data : List α)   -- Min/Max(x, fused constant)
  | clip (lo hi : α)                      -- Clip(x, lo, hi) with rank-0 bounds
  deriving Repr, DecidableEq

def MinMax.consts (p : MinMax α) : List (MMConst α) := p.first ++ p.second

/-- `np.max([v1, v2, …])` builds an array from the list first: operands of different shapes make an
inhomogeneous array (ValueError).  Among size-1 tensors: all ranks must agree. -/
def homogeneous (cs : List (MMConst α)) : Bool :=
  match cs with
  | [] => true
  | c :: rest => rest.all (fun c' => c'.rank == c.rank)

/-- Lower/upper bound lists of the two Clip forms. -/
def MinMax.lbs (p : MinMax α) : List (MMConst α) :=
  match p.kind with | .maxMin => p.first | .minMax => p.second | _ => []
def MinMax.ubs (p : MinMax α) : List (MMConst α) :=
  match p.kind with | .maxMin => p.second | .minMax => p.first | _ => []

def flatVals (cs : List (MMConst α)) : List α := cs.flatMap MMConst.data

/-- commit 1d299da (finding D4, fixed): a one-element constant of rank > 0 must not outrank `x`. -/
def MinMax.rankBad (p : MinMax α) (c : MMConst α) : Bool :=
  c.rank > 0 && (match p.xRank with | some rx => rx < c.rank | none => true)

/-- `_FuseMinMaxBase.check` followed by `rewrite` (Clip kinds: opset guard of commit 625745e first). -/
def MinMax.run [Min α] [Max α] [LT α] [DecidableRel (α := α) (· < ·)] (p : MinMax α) : Outcome (MMRepl α) :=
  if p.kind.needScalars && !p.opsetGe11 then .nofire else
  -- the per-input loop of `check`: first failing input decides
  let bad := p.consts.any (fun c => !c.isConst || (p.kind.needScalars && (!c.isScalar || p.rankBad c)))
  if bad then .nofire
  else
    match p.kind with
    | .minMin =>
      match reduceAll min (p.consts.map (fun c => (c.rank, c.data))) with
      | none => .raises      -- `functools.reduce` of an empty sequence (TypeError)
      | some (r, d) => .fire (.sameOp r d)
    | .maxMax =>
      match reduceAll max (p.consts.map (fun c => (c.rank, c.data))) with
      | none => .raises
      | some (r, d) => .fire (.sameOp r d)
    | .maxMin =>
      if !(homogeneous p.lbs && homogeneous p.ubs) then .raises
      else match flatReduce max (flatVals p.lbs), flatReduce min (flatVals p.ubs) with
        | some l, some u => .fire (.clip l u)
        | _, _ => .raises    -- `np.max([])` (ValueError)
    | .minMax =>
      if !(homogeneous p.lbs && homogeneous p.ubs) then .raises
      else match flatReduce max (flatVals p.lbs), flatReduce min (flatVals p.ubs) with
        | some l, some u => if u < l then .nofire else .fire (.clip l u)
        | _, _ => .raises

/-- Value semantics on one element, for scalar (size-1) constants. -/
def MinMax.lhs [Min α] [Max α] (p : MinMax α) (x : α) : α :=
  match p.kind with
  | .minMin => (flatVals p.second).foldl min ((flatVals p.first).foldl min x)
  | .maxMax => (flatVals p.second).foldl max ((flatVals p.first).foldl max x)
  | .maxMin => (flatVals p.second).foldl min ((flatVals p.first).foldl max x)
  | .minMax => (flatVals p.second).foldl max ((flatVals p.first).foldl min x)

/-- Result rank under numpy broadcasting of size-1 constants against `x` of rank `rx`. -/
def MinMax.lhsRank (p : MinMax α) (rx : Nat) : Nat :=
  p.consts.foldl (fun r c => if r < c.rank then c.rank else r) rx

/-- Finding D4: a Clip is emitted although some size-1 constant has a rank above `x`'s. -/
def MinMax.d4 (p : MinMax α) (rx : Nat) : Bool :=
  p.kind.needScalars && p.consts.any (fun c => rx < c.rank)

end OV.C05.Order
