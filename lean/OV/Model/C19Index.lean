import OV.Model.C19Fusions
/-!
# C19 — index bookkeeping of the fusions (core Lean; theorems in `OV.Props.C19`)

* `effAxis`: which input axis a `FusedMatMul` operand with flags `(transBatch, trans)` reads for each axis of
  the logical `[batch…, M, K]` operand (the docstring of `_TransposeFusedMatMulBaseWithBatch`).
* row-major flat indices of the `Reshape`/`Transpose` layouts used by the attention fusions.
* `rotateHalf`, `rotaryRef`: the rotate-half pattern and the non-interleaved `RotaryEmbedding` definition.
-/
namespace OV.C19

/-- Source axis read for logical axis `k` by a FusedMatMul operand of rank `n` with `(transBatch, trans)`. -/
def effAxis (n : Nat) (tb t : Bool) (k : Nat) : Nat :=
  match tb, t with
  | false, false => k
  | false, true => axSwap n k
  | true, false => axBatch n k
  | true, true => axRotL n k

/-- Row-major flat index in shape `(B,S,H,D)`. -/
def flat4 (S H D : Nat) (b s h d : Nat) : Nat := ((b * S + s) * H + h) * D + d
/-- Row-major flat index in shape `(B,S,Dm)`. -/
def flat3 (S Dm : Nat) (b s c : Nat) : Nat := (b * S + s) * Dm + c

end OV.C19
