import OV.Model.C20Save
/-!
# C20 — histories: several calls of `save_model_with_external_data` on the SAME in-memory model

Core Lean only (compiled into `drv_c20`).  What is carried from one call to the next is what the real program carries:
the model object as the previous call left it (`Result.model`: the `const_value` pointers and the state of the original
tensor objects — objects created during a save are unreferenced once `ir.save`'s `finally` has put the pointers back)
and the file system as the previous call left it (after a fault: whatever had been written up to the fault).  Call
counter, trace, callback log and write handles start afresh with every call (`init`).
-/
namespace OV.C20

/-- One call of a history: destination `dir/name`, verbosity, fault plan. -/
structure Call where
  dir : String
  name : String
  verbose : Bool := false
  k : Option Nat := none
  deriving Repr, DecidableEq, Inhabited

/-- Run the calls one after the other on the same model object; returns the model and the file system after the last. -/
def runHistory (cfg : Cfg) : List Call → Model → FS → Model × FS
  | [], m, fs => (m, fs)
  | c :: cs, m, fs =>
    let r := runSave cfg m c.dir c.name c.verbose fs c.k
    runHistory cfg cs (r.model m) r.st.fs

/-- The outcomes of the calls of a history, in order (`.ok ()` = returned normally). -/
def historyResults (cfg : Cfg) : List Call → Model → FS → List (Except Err Unit)
  | [], _, _ => []
  | c :: cs, m, fs =>
    let r := runSave cfg m c.dir c.name c.verbose fs c.k
    r.res :: historyResults cfg cs (r.model m) r.st.fs

end OV.C20
