import OV.Model.C01Convert
/-
  OV.Model.C01Sem — C01: the meaning of a script function *read as ordinary Python control flow over
  tensors in which every operator and op call denotes the ONNX operator it maps to* (the third voice of
  the property; eager mode is CPython running exactly this).

  Core Lean only.

  * values: a tensor (`PV.t`) or a Python scalar that has not met an operator yet (`PV.py`);
  * a Python scalar consumed by an operator is promoted: `Constant` of its default dtype, then `CastLike`
    to the tensor sibling sharing its type variable (the rule of `autocast.cast_inputs`, applied to values);
  * statements: store-passing big-step semantics with Python scoping (branches and loop bodies share the
    function's store), parallel assignment evaluates all right-hand sides first, `for` over `range(n)`,
    `while` with fuel, trailing conditional `break`.
-/
namespace OV.C01

inductive PV (V : Type)
  | t (v : V)
  | py (l : Lit)

abbrev Store (V : Type) := Name → Option (PV V)

def Store.set {V} (ρ : Store V) (x : Name) (v : PV V) : Store V := fun y => if y = x then some v else ρ y

def Store.setMany {V} (ρ : Store V) : List Name → List (PV V) → Store V
  | x :: xs, v :: vs => Store.setMany (ρ.set x v) xs vs
  | _, _ => ρ

/-- `Constant` of the literal's default dtype (what `np.array(pyvalue, dtype=_get_dtype(pyvalue))` is). -/
def constOf {V} (S : Sem V) (l : Lit) : Option V :=
  match S.op "" "Constant" [] [("value", .const (litPayload l))] with
  | some [v] => some v
  | _ => none

/-- First pass of `cast_inputs` on values: type variable ↦ last tensor-valued actual. -/
def valBindings {V} (sig : Sig) : List (PV V) → Nat → List (String × V) → Option (List (String × V))
  | [], _, acc => some acc
  | a :: as, i, acc =>
    match formalTv sig i with
    | none => none
    | some none => valBindings sig as (i + 1) acc
    | some (some tv) =>
      match a with
      | .py _ => valBindings sig as (i + 1) acc
      | .t v => valBindings sig as (i + 1) ((tv, v) :: acc)

def findVal {V} (bs : List (String × V)) (tv : String) : Option V :=
  match bs with
  | [] => none
  | (t, v) :: rest => if t = tv then some v else findVal rest tv

/-- The binding (if any) of the type variable of actual position `i`, on values. -/
def valTarget {V} (sig : Sig) (bs : List (String × V)) (i : Nat) : Option V :=
  match formalTv sig i with
  | some (some tv) => findVal bs tv
  | _ => none

/-- One actual after promotion: a tensor is passed as is; a Python scalar becomes the `Constant` of its
default dtype, cast like the sibling tensor sharing its type variable when there is one. -/
def promoteOne {V} (S : Sem V) (a : PV V) (tgt : Option V) : Option V :=
  match a with
  | .t v => some v
  | .py l =>
    match constOf S l with
    | none => none
    | some c =>
      match tgt with
      | none => some c
      | some y =>
        match S.op "" "CastLike" [some c, some y] [] with
        | some [v] => some v
        | _ => none

/-- Second pass on values. -/
def promoteArgs {V} (S : Sem V) (sig : Sig) (bs : List (String × V)) : List (PV V) → Nat → Option (List V)
  | [], _ => some []
  | a :: as, i =>
    match promoteOne S a (valTarget sig bs i), promoteArgs S sig bs as (i + 1) with
    | some v, some vs => some (v :: vs)
    | _, _ => none

/-- The tensor actually handed to the operator for a Python-level value that needs no cast. -/
def plainVal {V} (S : Sem V) : PV V → Option V
  | .t v => some v
  | .py l => constOf S l

/-- The operand tensors of a call after promotion (`autocast.cast_inputs` applied to values). -/
def argVals {V} (S : Sem V) (sig : Sig) (args : List (PV V)) : Option (List V) :=
  if !sig.known then args.mapM (plainVal S)
  else
    match valBindings sig args 0 [] with
    | none => none
    | some bs => promoteArgs S sig bs args 0

/-- Apply an operator to Python-level values (promotion included). -/
def applyOp {V} (S : Sem V) (dom op : String) (sig : Sig) (args : List (PV V))
    (attrs : List (String × AttrV)) : Option (List V) :=
  match argVals S sig args with
  | none => none
  | some vs => S.op dom op (vs.map some) attrs

def single {V} : Option (List V) → Option (PV V)
  | some [v] => some (.t v)
  | _ => none

mutual
def evalExpr {V} (S : Sem V) (ρ : Store V) : Expr → Option (PV V)
  | .var x =>
    -- a local variable, else an attribute parameter: a Python scalar that has not met an operator yet
    match ρ x with
    | some pv => some pv
    | none => (S.attrLit x).map PV.py
  | .lit l => some (.py l)
  | .call dom op sig args attrs =>
    match evalExprs S ρ args with
    | none => none
    | some vs => single (applyOp S dom op sig vs attrs)
  | .binop o a b =>
    match primop o, evalExpr S ρ a, evalExpr S ρ b with
    | some oname, some x, some y =>
      single (applyOp S "" oname (sigOfPrim oname) [x, y]
        (if o = "Mod" && isFloatConst b then [("fmod", .const "i:1")] else []))
    | _, _, _ => none
  | .unop o a =>
    match primop o with
    | none => none
    | some oname =>
      match negatedLiteral o a with
      | some l => some (.py (negLit l))
      | none =>
        match evalExpr S ρ a with
        | some x => single (applyOp S "" oname { known := false, variadic := false, homog := false, tvs := [] } [x] [])
        | none => none
  | .cmp o a b =>
    match primop o, evalExpr S ρ a, evalExpr S ρ b with
    | some oname, some x, some y =>
      if oname = "NotEqual" then
        match applyOp S "" "Equal" binSig [x, y] [] with
        | some [e] => single (S.op "" "Not" [some e] [])
        | _ => none
      else single (applyOp S "" oname binSig [x, y] [])
    | _, _, _ => none
  -- the meaning of indexing is C11's; C01 models the emitted structure only (C02), so no refinement claim
  | .subscript _ _ => none
  | .other _ => none
def evalExprs {V} (S : Sem V) (ρ : Store V) : List Expr → Option (List (PV V))
  | [] => some []
  | e :: es =>
    match evalExpr S ρ e, evalExprs S ρ es with
    | some v, some vs => some (v :: vs)
    | _, _ => none
end

inductive Outcome (V : Type)
  | normal (ρ : Store V)
  | broke (ρ : Store V)
  | returned (vs : List (PV V))

def truthPV {V} (S : Sem V) : PV V → Option Bool
  | .t v => S.truth v
  | .py (.bool b) => some b
  | .py (.int i) => some (i ≠ 0)
  | .py _ => none

def natPV {V} (S : Sem V) : PV V → Option Nat
  | .t v => S.natOf v
  | .py (.int i) => some i.toNat
  | .py _ => none

/-- `for i in range(n)`: run `body` for `i = k, …, n-1`; a `break` ends the loop normally. -/
def iterFor {V} (S : Sem V) (i : Name) (body : Store V → Option (Outcome V)) :
    Nat → Nat → Store V → Option (Outcome V)
  | 0, _, ρ => some (.normal ρ)
  | left + 1, k, ρ =>
    match body (ρ.set i (.t (S.ofNat k))) with
    | none => none
    | some (.normal ρ') => iterFor S i body left (k + 1) ρ'
    | some (.broke ρ') => some (.normal ρ')
    | some (.returned vs) => some (.returned vs)

/-- `while c:` with fuel. -/
def iterWhile {V} (cond : Store V → Option Bool) (body : Store V → Option (Outcome V)) :
    Nat → Store V → Option (Outcome V)
  | 0, _ => none
  | fuel + 1, ρ =>
    match cond ρ with
    | none => none
    | some false => some (.normal ρ)
    | some true =>
      match body ρ with
      | none => none
      | some (.normal ρ') => iterWhile cond body fuel ρ'
      | some (.broke ρ') => some (.normal ρ')
      | some (.returned vs) => some (.returned vs)

mutual
def evalStmt {V} (S : Sem V) (fuel : Nat) : Stmt → Store V → Option (Outcome V)
  | .assign x e, ρ =>
    match evalExpr S ρ e with
    | some v => some (.normal (ρ.set x v))
    | none => none
  | .par xs es, ρ =>
    -- Python: the whole right-hand tuple is evaluated before any target is bound
    match evalExprs S ρ es with
    | some vs => if vs.length = xs.length then some (.normal (ρ.setMany xs vs)) else none
    | none => none
  | .tuple xs e, ρ =>
    match e with
    | .call dom op sig args attrs =>
      match evalExprs S ρ args with
      | none => none
      | some vs =>
        match applyOp S dom op sig vs attrs with
        | some rs => if rs.length = xs.length then some (.normal (ρ.setMany xs (rs.map PV.t))) else none
        | none => none
    | _ => none
  | .badAssign _ _, _ => none
  | .ite c t e, ρ =>
    match evalExpr S ρ c with
    | none => none
    | some cv =>
      match truthPV S cv with
      | none => none
      | some true => evalBlock S fuel t ρ
      | some false => evalBlock S fuel e ρ
  | .for_ i ok bound body, ρ =>
    if !ok then none
    else
      match evalExpr S ρ bound with
      | none => none
      | some bv =>
        match natPV S bv with
        | none => none
        | some n => iterFor S i (fun r => evalBlock S fuel body r) n 0 ρ
  | .while_ c body, ρ =>
    iterWhile (fun r => match evalExpr S r c with | some v => truthPV S v | none => none)
      (fun r => evalBlock S fuel body r) fuel ρ
  | .brk c, ρ =>
    match evalExpr S ρ c with
    | none => none
    | some cv =>
      match truthPV S cv with
      | none => none
      | some true => some (.broke ρ)
      | some false => some (.normal ρ)
  | .ret es _, ρ =>
    match evalExprs S ρ es with
    | some vs => some (.returned vs)
    | none => none
  | .skip, ρ => some (.normal ρ)
  | .unsupported, _ => none
def evalBlock {V} (S : Sem V) (fuel : Nat) : List Stmt → Store V → Option (Outcome V)
  | [], ρ => some (.normal ρ)
  | s :: ss, ρ =>
    match evalStmt S fuel s ρ with
    | some (.normal ρ') => evalBlock S fuel ss ρ'
    | other => other
end

mutual
/-- Statements without loops. -/
def loopFree : Stmt → Bool
  | .ite _ t e => loopFreeL t && loopFreeL e
  | .for_ _ _ _ _ => false
  | .while_ _ _ => false
  | _ => true
def loopFreeL : List Stmt → Bool
  | [] => true
  | s :: ss => loopFree s && loopFreeL ss
end

end OV.C01

namespace OV.C01

/-- A returned Python value as a tensor (a scalar that never met an operator becomes a `Constant`). -/
def toTensor {V} (S : Sem V) : PV V → Option V
  | .t v => some v
  | .py l => constOf S l

/-- Run a script function as plain Python on tensor arguments (attribute parameters: closed over by `S`). -/
def evalFunc {V} (S : Sem V) (fuel : Nat) (f : Func) (args : List V) : Option (List V) :=
  let ins := tensorParams f.params
  if args.length = ins.length then
    match evalBlock S fuel f.body (Store.setMany (fun _ => none) ins (args.map PV.t)) with
    | some (.returned vs) => vs.mapM (toTensor S)
    | _ => none
  else none

/-- Node lists without control flow. -/
def opsOnly : List Node → Bool
  | [] => true
  | .op _ _ _ _ _ :: ns => opsOnly ns
  | _ :: _ => false

end OV.C01

namespace OV.C01

/-- Straight-line bodies: assignments `x = e`, parallel assignments `x, y = e1, e2` (and docstrings)
followed by one `return e1, …, en`. -/
def straightLine : List Stmt → Bool
  | [] => false
  | [.ret _ bare] => !bare
  | .assign _ _ :: ss => straightLine ss
  | .par _ _ :: ss => straightLine ss
  | .skip :: ss => straightLine ss
  | _ => false

/-- Straight-line bodies with tuple assignment `x, y = op.Foo(…)` from a multi-output operator. -/
def straightLineT : List Stmt → Bool
  | [] => false
  | [.ret _ bare] => !bare
  | .assign _ _ :: ss => straightLineT ss
  | .par _ _ :: ss => straightLineT ss
  | .tuple _ (.call _ _ _ _ _) :: ss => straightLineT ss
  | .skip :: ss => straightLineT ss
  | _ => false

end OV.C01

namespace OV.C01

def vsubset (a b : VSet) : Bool := a.all (fun x => b.contains x)

mutual
/-- The `while curr != prev` iterations of `do_liveness_analysis` have reached their fixpoints (the model
iterates with fuel; the real code iterates until stable, so there this always holds on termination). -/
def stableStmt : Stmt → VSet → Bool
  | .ite _ t e, lo => stableBlock t lo && stableBlock e lo
  | .for_ i ok b body, lo =>
    let F := loopBodyLo (.for_ i ok b body) lo
    vsubset lo F && vsubset (vdiff (liveInBlock body F) [i]) F && stableBlock body F
  | .while_ c body, lo =>
    let F := loopBodyLo (.while_ c body) lo
    vsubset lo F && vsubset (usedVars c) F && vsubset (liveInBlock body F) F && stableBlock body F
  | _, _ => true
def stableBlock : List Stmt → VSet → Bool
  | [], _ => true
  | s :: ss, lo => stableStmt s (liveInBlock ss lo) && stableBlock ss lo
end

mutual
/-- `break` occurs only as `if b: break` at the very end of a loop body (what the converter accepts). -/
def noBrkS : Stmt → Bool
  | .brk _ => false
  | .ite _ t e => noBrkL t && noBrkL e
  | .for_ _ _ _ body => bodyBrkOK body
  | .while_ _ body => bodyBrkOK body
  | _ => true
def noBrkL : List Stmt → Bool
  | [] => true
  | s :: ss => noBrkS s && noBrkL ss
/-- A loop body: break-free statements, optionally followed by one trailing `if b: break`. -/
def bodyBrkOK : List Stmt → Bool
  | [] => true
  | s :: ss => (match s, ss with
                | .brk _, [] => true
                | _, _ => noBrkS s) && bodyBrkOK ss
end

end OV.C01

namespace OV.C01

/-- The expression does not denote a bare Python scalar (a literal or a negated literal): its value, when it
has one, is a tensor (given that all variables hold tensors). -/
def tensorRhs : Expr → Bool
  | .lit _ => false
  | .unop o a => (negatedLiteral o a).isNone
  | _ => true

mutual
/-- Statements of the `if` fragment: assignments and parallel assignments of tensor-valued expressions,
docstrings, and `if`/`else` over such statements, nested to any depth. -/
def ifStmt : Stmt → Bool
  | .assign _ e => tensorRhs e
  | .par _ es => es.all tensorRhs
  | .skip => true
  | .ite c t e => tensorRhs c && ifBlock t && ifBlock e
  | _ => false
def ifBlock : List Stmt → Bool
  | [] => true
  | s :: ss => ifStmt s && ifBlock ss
end

/-- Function bodies of the `if` fragment: such statements followed by one `return e1, …, en`. -/
def ifLine : List Stmt → Bool
  | [] => false
  | s :: ss =>
    match s, ss with
    | .ret _ bare, [] => !bare
    | _, _ => ifStmt s && ifLine ss

/-- `pre; if t: break` ↦ `(pre, t)`. -/
def splitBrk (body : List Stmt) : Option (List Stmt × Name) :=
  match body.getLast? with
  | some (.brk (.var t)) => some (body.dropLast, t)
  | _ => none

/-- Loop bodies of the `for` fragment: statements of the `if` fragment, optionally followed by one
`if t: break` (the only place the converter accepts a `break`). -/
def loopBodyOK (body : List Stmt) : Bool :=
  ifBlock body ||
    (match splitBrk body with
     | some (pre, _) => ifBlock pre
     | none => false)

/-- Side conditions on a top-level `for i in range(b): body` covered by the loop refinement theorem (the bound
may be any expression, a literal included): the body is in the `if` fragment up to a trailing `if t: break` (so no nested loop),
the loop variable is not assigned in the body, and liveness analysis reached its fixpoint.  (That the loop
variable is not read after the loop need not be assumed: since 9b326d7 the converter refuses such loops.) -/
def forOK (i : Name) (b : Expr) (body : List Stmt) (lo : VSet) : Bool :=
  loopBodyOK body &&
  (match assignedBlock body with
   | some d => !(d.contains i)
   | none => false) &&
  stableStmt (.for_ i true b body) lo

/-- Side conditions on a top-level `while t: body` covered by the loop refinement theorem: the body is in the
`if` fragment up to a trailing `if b: break`, liveness analysis reached its fixpoint, and the condition variable
is loop-carried or (re)computed in the body before anything reads it (when it is only *conditionally* assigned
and not read elsewhere, an iteration that skips the assignment re-exports the value from before the loop — same
truth value, but not the same tensor of the abstract semantics). -/
def whileOK (t : Name) (body : List Stmt) (lo : VSet) : Bool :=
  loopBodyOK body &&
  (match assignedBlock body, loopState body lo with
   | some _, some state =>
     state.contains t || !(liveInBlock body (loopBodyLo (.while_ (.var t) body) lo)).contains t
   | _, _ => false) &&
  stableStmt (.while_ (.var t) body) lo

mutual
/-- Statements of the nested-loop fragment, given the live-out set of the statement: assignments of tensor-valued
expressions, tuple assignments from a multi-output operator call, `if`/`else`, `for i in range(b)` and `while t` loops (no `break`), nested in each other to any
depth.  The side conditions of a loop are those of `forOK` / `whileOK`, taken at the live-out set the analysis
computes for it; that the loop variable of a `for` is not live after it is listed explicitly (the converter
refuses the loop otherwise: 9b326d7). -/
def nestStmt : Stmt → VSet → Bool
  | .assign _ e, _ => tensorRhs e
  | .par _ es, _ => es.all tensorRhs
  | .skip, _ => true
  | .tuple xs (.call _ _ _ _ _), _ => nodupB xs     -- `x, y = op.Foo(…)`: a multi-output operator, distinct targets
  | .ite c t e, lo => tensorRhs c && nestBlock t lo && nestBlock e lo
  | .for_ i ok b body, lo =>
    ok && !(lo.contains i) &&
    (match assignedBlock body with
     | some d => !(d.contains i)
     | none => false) &&
    stableStmt (.for_ i ok b body) lo && nestBlock body (loopBodyLo (.for_ i ok b body) lo)
  | .while_ (.var t) body, lo =>
    (match assignedBlock body, loopState body lo with
     | some _, some state =>
       state.contains t || !(liveInBlock body (loopBodyLo (.while_ (.var t) body) lo)).contains t
     | _, _ => false) &&
    stableStmt (.while_ (.var t) body) lo && nestBlock body (loopBodyLo (.while_ (.var t) body) lo)
  | _, _ => false
def nestBlock : List Stmt → VSet → Bool
  | [], _ => true
  | s :: ss, lo => nestStmt s (liveInBlock ss lo) && nestBlock ss lo
end

/-- Top-level statements of the loop fragment: `if`-fragment statements, `for i in range(b)` and `while t` loops. -/
def forTopStmt : Stmt → VSet → Bool
  | .for_ i ok b body, lo => ok && forOK i b body lo
  | .while_ (.var t) body, lo => whileOK t body lo
  | s, _ => ifStmt s

/-- `x = <literal>` / `x = -<literal>`: the variable holds a Python scalar until an operator consumes it. -/
def litAssign : Stmt → Bool
  | .assign _ e => !tensorRhs e
  | _ => false

/-- Function bodies of the loop fragment: `if`-fragment statements and `for i in range(b)` / `while t` loops over
`if`-fragment bodies (optionally ending in `if b: break`), followed by one `return e1, …, en`. -/
def forLine : List Stmt → Bool
  | [] => false
  | s :: ss =>
    match s, ss with
    | .ret _ bare, [] => !bare
    | _, _ => forTopStmt s (liveInBlock ss []) && forLine ss

/-- Function bodies of the nested-loop fragment: statements of `nestStmt` (loops nested in loops and branches
to any depth, no `break`), top-level assignments of a bare literal `x = 2.0`, or of the loop fragment of `forLine` (top-level loops over `if`-fragment bodies, with a
trailing `break` allowed), followed by one `return e1, …, en`. -/
def nestLine : List Stmt → Bool
  | [] => false
  | s :: ss =>
    match s, ss with
    | .ret _ bare, [] => !bare
    | _, _ => (litAssign s || nestStmt s (liveInBlock ss []) || forTopStmt s (liveInBlock ss [])) && nestLine ss

/-- The variables a function body assigns a bare literal at top level … -/
def litTargets : List Stmt → List Name
  | [] => []
  | .assign x e :: ss => if tensorRhs e then litTargets ss else x :: litTargets ss
  | _ :: ss => litTargets ss

/-- … and the names every other top-level statement may bind or reads bare. -/
def targetsTop : List Stmt → List Name
  | [] => []
  | s :: ss => (if litAssign s then [] else targetsStmt s) ++ targetsTop ss

end OV.C01
