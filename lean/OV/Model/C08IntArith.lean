import OV.Model.C08Term
/-!
# C08 — integer arithmetic family, element level on `Int`

ONNX integer operators as onnxruntime's CPU kernels compute them:
`Div` truncates toward zero (C++ `/`), `Mod(fmod=0)` is C++ `%` corrected so that the sign follows
the divisor, `Mod(fmod=1)` is C `fmod` (sign follows the dividend).  Division by zero is undefined
behaviour in the runtime and excluded everywhere (`b ≠ 0`).
-/
namespace OV.C08.IntArith

def onnxDiv (a b : Int) : Int := Int.tdiv a b

/-- onnxruntime `Mod` with `fmod=0` on integers: `r = a % b; if ((r<0 && b>0) || (r>0 && b<0)) r += b`. -/
def onnxMod (a b : Int) : Int :=
  let r := Int.tmod a b
  if (r < 0 ∧ b > 0) ∨ (r > 0 ∧ b < 0) then r + b else r

def onnxFmod (a b : Int) : Int := Int.tmod a b

/-- `aten_floor_divide`, signed integer branch:
`Sub(Div(a,b), Cast(And(Equal(Less(a,0), Greater(b,0)), Cast(Mod(a,b), BOOL))))`. -/
def floorDivideSigned (a b : Int) : Int :=
  let offset : Bool := ((decide (a < 0)) == (decide (b > 0))) && (onnxMod a b != 0)
  onnxDiv a b - (if offset then 1 else 0)

/-- unsigned branch: plain `Div`. -/
def floorDivideUnsigned (a b : Int) : Int := onnxDiv a b

/-- dtype classes: `"i64"`, `"i32"` (signed branch; the zero constant and the final Cast carry the
dtype) and `"u8"` (unsigned branch). -/
def floorDivideTerm (dt : String) : String :=
  if dt == "u8" then "Div(x0,x1)"
  else
    let z := if dt == "i32" then "0:INT32" else "0"
    let to := if dt == "i32" then "6" else "7"
    "Sub(Div(x0,x1),Cast(And(Equal(Less(x0," ++ z ++ "),Greater(x1," ++ z ++ ")),Cast(Mod(x0,x1;fmod=0);to=9));to=" ++ to ++ "))"

/-- `aten_remainder` (integer): `Mod(a, b)`. -/
def remainder (a b : Int) : Int := onnxMod a b
/-- `aten_fmod`: `Mod(a, b, fmod=1)`. -/
def fmod (a b : Int) : Int := onnxFmod a b

/-- `aten_add(self, other, alpha)`: `Add(self, Mul(other, CastLike(alpha, other)))`, `alpha ≠ 1`. -/
def addAlpha (a b alpha : Int) : Int := if alpha = 1 then a + b else a + b * alpha
def subAlpha (a b alpha : Int) : Int := if alpha = 1 then a - b else a - b * alpha

/-! ### PyTorch's documented meanings -/

/-- `torch.floor_divide`: the largest integer `q` with `q * b ≤ a` (b > 0) resp. `q * b ≥ a` (b < 0):
floor of the real quotient. -/
def specFloorDiv (a b : Int) : Int := Int.fdiv a b
/-- `torch.remainder(a,b) = a - a.div(b, rounding_mode="floor") * b`. -/
def specRemainder (a b : Int) : Int := a - Int.fdiv a b * b
/-- `torch.fmod(a,b) = a - a.div(b, rounding_mode="trunc") * b`. -/
def specFmod (a b : Int) : Int := a - Int.tdiv a b * b
/-- `torch.add(a, b, alpha=k) = a + k * b`. -/
def specAdd (a b alpha : Int) : Int := a + alpha * b
def specSub (a b alpha : Int) : Int := a - alpha * b

/-! ### Shifts on `w`-bit two's complement -/

def toU (w : Nat) (a : Int) : Nat := (a % (2 ^ w : Int)).toNat
def toS (w : Nat) (u : Nat) : Int := if u ≥ 2 ^ (w - 1) then (u : Int) - 2 ^ w else u

/-- `aten_bitwise_left_shift`: `Cast(BitShift(Cast(a,U), Cast(s,U), LEFT), S)`. -/
def shl (w : Nat) (a : Int) (s : Nat) : Int := toS w ((toU w a * 2 ^ s) % 2 ^ w)

/-- `aten_bitwise_right_shift`: logical shift of the unsigned image, sign bits re-inserted with
`BitwiseOr(shifted, BitwiseNot(BitShift(ones, s, RIGHT)))` for negative inputs. -/
def shr (w : Nat) (a : Int) (s : Nat) : Int :=
  let ones : Nat := 2 ^ w - 1
  let mask : Nat := ones - (ones >>> s)            -- BitwiseNot within w bits
  let shifted : Nat := toU w a >>> s
  if a < 0 then toS w (shifted ||| mask) else toS w shifted

/-- PyTorch `a << s` on a `w`-bit signed integer: the product wrapped to `w` bits. -/
def specShl (w : Nat) (a : Int) (s : Nat) : Int := toS w (((a * 2 ^ s) % (2 ^ w : Int)).toNat)
/-- PyTorch `a >> s`: arithmetic shift = floor division by `2^s`. -/
def specShr (a : Int) (s : Nat) : Int := a / (2 ^ s : Int)

/-! ### `div.Tensor_mode` on integers (fix 5204ab5): exact integer operators

`rounding_mode="trunc"` → ONNX integer `Div`; `"floor"` → `aten_floor_divide`. -/
def divModeTrunc (a b : Int) : Int := onnxDiv a b
def divModeFloor (signed : Bool) (a b : Int) : Int := if signed then floorDivideSigned a b else floorDivideUnsigned a b
/-- `torch.div(a, b, rounding_mode="trunc")` on integers: C-style division. -/
def specDivTrunc (a b : Int) : Int := Int.tdiv a b

end OV.C08.IntArith
