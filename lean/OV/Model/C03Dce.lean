import OV.Model.C03Pass
import OV.Model.C03Frag
/-
  OV.Model.C03Dce — `onnx_ir.passes.common.RemoveUnusedNodesPass` (unused_removal.py), the `dce` slot of `optimize_ir`
  (run after every fold/rewrite round and once more after the loop), restated on the C03 graph type.

  * `_remove_unused_nodes_in_graph_like`: one sweep over the nodes **in reverse**; a node is removed when none of its
    outputs is a graph output of the *current* graph-like or has a use.  `Value.uses()` is global: reads inside nested bodies
    count, and — because `graph.remove(node, safe=True)` detaches only the node's own inputs — the reads inside the bodies of
    an already *removed* node keep counting (`ghosts`).  A kept node loses its trailing absent inputs
    (`_remove_trailing_empty_inputs`), then (only when the graph-like has an opset import for `""`; nested graphs have none)
    its unused optional outputs (`_remove_unused_optional_outputs`: schema lookup, the `BatchNormalization` special case that
    also pops `training_mode`, renaming to `""`, dropping trailing `""`), then its bodies are swept.
  * `RemoveUnusedNodesPass.call`: sweep of the main graph, then every main-graph initializer that is unused, not a graph
    output and not a graph input is deleted; `modified = (count ≠ 0)` where `count` = removed nodes + removed initializers
    (trimming inputs/outputs does not count).
  Schema facts (`onnx.defs.get_schema(op, opset).outputs[i].option`) are data of the case: `DceCtx.schema`.
-/
namespace OV.C03

structure DceCtx where
  /-- op_type ↦ `none` (get_schema raised) or the formal outputs' options: 0 Single, 1 Optional, 2 Variadic -/
  schema : List (String × Option (List Nat)) := []

structure DceOut where
  nodes : List Node := []
  /-- removed nodes that own bodies: the reads inside their bodies stay registered as uses -/
  ghosts : List Node := []
  count : Nat := 0
  hist : List String := []

/-- drop the longest suffix whose elements satisfy `p` -/
def dropTrailing {α} (p : α → Bool) : List α → List α
  | [] => []
  | a :: l =>
    match dropTrailing p l with
    | [] => if p a then [] else [a]
    | r => a :: r

def bodyReads (n : Node) (x : Name) : Bool := n.subs.any fun s => readsName maxDepth s.2 x
def nodeReads (n : Node) (x : Name) : Bool := n.inputs.contains (some x) || bodyReads n x

/-- `x in graph_outputs or x.uses()` at the moment a node is visited: `later` are the already processed later nodes -/
def usedLater (outs : List Name) (later ghosts : List Node) (x : Name) : Bool :=
  outs.contains x || later.any (nodeReads · x) || ghosts.any (bodyReads · x)

def Node.setOutputs (n : Node) (o : List Name) : Node := .mk n.op n.domain n.inputs o n.attrs n.subs
def Node.setAttrs (n : Node) (a : List (String × Attr)) : Node := .mk n.op n.domain n.inputs n.outputs a n.subs

/-- `out.name = ""` for unused outputs whose formal parameter is Optional (a node with more outputs than the schema has
formal outputs raises IndexError in the real code — not a checker-valid model; the rest is left alone here) -/
def renameUnused (used : Name → Bool) : List Nat → List Name → List Name
  | _, [] => []
  | [], os => os
  | f :: fs, o :: os => (if f == 1 && !used o then "" else o) :: renameUnused used fs os

/-- the `BatchNormalization` branch: outputs 1 and 2 unused → both renamed to `""` (not resized) and `training_mode` popped -/
def bnOuts : List Name → List Name
  | y :: _ :: _ :: r => y :: "" :: "" :: r
  | [y, _] => [y, ""]
  | l => l

/-- `is_used_output(i)` -/
def bnUsed (used : Name → Bool) (n : Node) (i : Nat) : Bool :=
  match n.outputs[i]? with | some o => used o | none => false

def bnTrim (used : Name → Bool) (n : Node) : Node :=
  if bnUsed used n 1 || bnUsed used n 2 then n else
  (n.setOutputs (bnOuts n.outputs)).setAttrs (n.attrs.filter fun a => a.1 != "training_mode")

def trimOptionalOutputs (ctx : DceCtx) (used : Name → Bool) (n : Node) : Node :=
  if n.domain != "" then n else
  match lookupA ctx.schema n.op with
  | some (some flags) =>
    if n.op == "BatchNormalization" then bnTrim used n
    else if flags.contains 2 then n
    else n.setOutputs (dropTrailing (· == "") (renameUnused used flags n.outputs))
  | _ => n

def dceSubs (sub : Graph → DceOut × Graph) : List (String × Graph) → DceOut × List (String × Graph)
  | [] => ({}, [])
  | (k, g) :: r =>
    let (o1, g') := sub g
    let (o2, r') := dceSubs sub r
    ({ ghosts := o1.ghosts ++ o2.ghosts, count := o1.count + o2.count, hist := o2.hist ++ o1.hist }, (k, g') :: r')

/-- the kept-node branch, before the bodies are swept -/
def trimNode (ctx : DceCtx) (hasOpset : Bool) (used : Name → Bool) (n : Node) : Node :=
  let n1 := n.setInputs (dropTrailing Option.isNone n.inputs)
  if hasOpset then trimOptionalOutputs ctx used n1 else n1

/-- `for node in reversed(graph_like)`: the tail is processed first -/
def dceNodes (ctx : DceCtx) (sub : Graph → DceOut × Graph) (hasOpset : Bool) (outs : List Name) : List Node → DceOut
  | [] => {}
  | n :: rest =>
    let r := dceNodes ctx sub hasOpset outs rest
    let used := usedLater outs r.nodes r.ghosts
    if n.outputs.all (fun o => !used o) then
      { r with count := r.count + 1, ghosts := if n.subs.isEmpty then r.ghosts else n :: r.ghosts,
               hist := (if n.subs.isEmpty then "dce:removed" else "dce:removed-ghost") :: r.hist }
    else
      let n2 := trimNode ctx hasOpset used n
      let (o, subs') := dceSubs sub n2.subs
      { nodes := n2.setSubs subs' :: r.nodes, ghosts := o.ghosts ++ r.ghosts, count := r.count + o.count,
        hist := (if n2.inputs.length != n.inputs.length then ["dce:trim-inputs"] else []) ++
                (if n2.outputs != n.outputs then ["dce:trim-outputs"] else []) ++
                (if n2.attrs.length != n.attrs.length then ["dce:bn-training-mode-popped"] else []) ++
                (if n.subs.isEmpty then [] else ["dce:bodies"]) ++ o.hist ++ r.hist }

def dceGraphLike (ctx : DceCtx) : Nat → Bool → Graph → DceOut × Graph
  | 0, _, g => ({ hist := ["dce:too-deep"] }, g)
  | d + 1, hasOpset, g =>
    let o := dceNodes ctx (dceGraphLike ctx d false) hasOpset g.outputs g.nodes
    ({ o with nodes := [] }, Graph.mk g.inputs g.inits o.nodes g.outputs)

/-- names of the main-graph initializers `RemoveUnusedNodesPass.call` deletes after the sweep -/
def deadInits (g : Graph) (ghosts : List Node) : List Name :=
  (g.inits.filter fun p => !(usedLater g.outputs g.nodes ghosts p.1 || g.inputs.contains p.1)).map (·.1)

/-- `RemoveUnusedNodesPass.call` on a model without functions: result graph, removal count, branch tokens -/
def dcePass (ctx : DceCtx) (hasOpset : Bool) (g : Graph) : DceOut × Graph :=
  let (o, g1) := dceGraphLike ctx maxDepth hasOpset g
  let dead := deadInits g1 o.ghosts
  ({ o with count := o.count + (g1.inits.filter fun p => dead.contains p.1).length,
            hist := (if dead.isEmpty then [] else ["dce:init-removed"]) ++ o.hist },
   Graph.mk g1.inputs (g1.inits.filter fun p => !dead.contains p.1) g1.nodes g1.outputs)

/-- the `dce` slot of `IrPasses` (`PassResult.modified = bool(count)`) -/
def dceSlot (ctx : DceCtx) (hasOpset : Bool) (g : Graph) : Graph × Bool :=
  let r := dcePass ctx hasOpset g
  (r.2, r.1.count != 0)

/-! ### the decidable domain of `dce_refines` (Props/C03.lean) -/

def isBnTraining (n : Node) : Bool :=
  n.op == "BatchNormalization" && n.domain == "" && n.attrs.any (·.1 == "training_mode")

/-- `orderOK` (C03Frag) that does not count the empty name (a skipped optional output may occur in several nodes) -/
def orderOKE : List Node → Bool
  | [] => true
  | n :: rest => rest.all (fun m => m.outputs.all (fun o => o == "" || !mentionsTop n o)) && orderOKE rest

/-- bodiless nodes; definition before use and single assignment (`orderOKE`); no node reads its own output; a `Constant`
node has no inputs; the empty name (a skipped optional output) is never read and never a graph output or input;
no `BatchNormalization` carrying `training_mode` (finding C03-D4). -/
def dceFragB (g : Graph) : Bool :=
  g.nodes.all (fun n => n.subs.isEmpty && !isBnTraining n &&
      n.outputs.all (fun o => !n.inputs.contains (some o)) &&
      !n.inputs.contains (some "") && (!n.isOp "Constant" || n.inputs.isEmpty)) &&
  orderOKE g.nodes && !g.outputs.contains "" && !g.inputs.contains ""

end OV.C03
