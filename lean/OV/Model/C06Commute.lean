import OV.Model.C06Pattern
/-
  OV.Model.C06Commute — C06: `GraphPattern.commute` / `NodePattern.clone(swap)` /
  `ValuePattern.clone` transcribed.

  Cloning creates new Python objects; in the model a clone of a leaf / OR object gets a fresh id
  (a counter threaded through the traversal), a `NodeOutputPattern` keeps `(np, idx)` because
  `new_nodes` is built in the order of `self._nodes`.
-/
namespace OV.C06

def commutativeOps : List String :=
  ["Add", "Mul", "And", "Or", "Xor", "BitwiseAnd", "BitwiseOr", "BitwiseXor", "Equal", "Max",
   "Mean", "Min", "Sum"]

/-- `node.op_identifier() in COMMUTATIVE_OPS` -/
def NPat.isCommutative (np : NPat) : Bool :=
  match np.opId with
  | some (d, o) => d == "" && commutativeOps.contains o
  | none => false

/-- the node is offered for swapping: its identifier is commutative, and — with proposed fix C06-F7b
(`fix7b = true`) — it is written with exactly two inputs -/
def NPat.swappable (fix7b : Bool) (np : NPat) : Bool :=
  np.isCommutative && (!fix7b || np.inputs.length == 2)

/-- `commute_node` -/
def commuteNode (fix7b : Bool) (np : NPat) : List Bool :=
  if np.swappable fix7b then [false, true] else [false]

/-- `itertools.product(*iteration_space)` (last factor varies fastest) -/
def masks (fix7b : Bool) : List NPat → List (List Bool)
  | [] => [[]]
  | np :: rest => (commuteNode fix7b np).flatMap (fun b => (masks fix7b rest).map (b :: ·))

mutual
/-- `ValuePattern.clone` and its overrides; state = next fresh object id -/
def cloneV : VPat → Nat → VPat × Nat
  -- Var.clone: a new `Var` object with the same name.  Object identity of a *named* pattern is immaterial
  -- (it is bound by name; after repair C06-F2 a checked one is also recorded per object, with the same
  -- checker and value), so the model keeps its id; an unnamed `Var` gets a fresh id.
  | .var id name true canNone check, k =>
    if name.isSome then (.var id name true canNone check, k) else (.var k name true canNone check, k + 1)
  | .var _ name false _ check, k => (.var k name false false check, k + 1)            -- ValuePattern.clone drops can_match_none
  | .any, k => (.any, k)                                                              -- AnyValue.clone returns self
  | .const _ c, k => (.const k c, k + 1)
  | .out np idx, k => (.out np idx, k)                                                -- node_map[producer].outputs[idx]
  | .orD _ name tagVar alts, k => (.orD k name tagVar alts, k + 1)
  | .orB _ name tagVar tags alts, k =>
    let r := cloneL alts (k + 1)
    (.orB k name tagVar tags r.1, r.2)
def cloneL : List VPat → Nat → List VPat × Nat
  | [], k => ([], k)
  | a :: rest, k =>
    let r := cloneV a k
    let r2 := cloneL rest r.2
    (r.1 :: r2.1, r2.2)
end

def cloneInputs : List (Option VPat) → Nat → List (Option VPat) × Nat
  | [], k => ([], k)
  | none :: rest, k =>
    let r := cloneInputs rest k
    (none :: r.1, r.2)
  | some v :: rest, k =>
    let r := cloneV v k
    let r2 := cloneInputs rest r.2
    (some r.1 :: r2.1, r2.2)

mutual
/-- `BacktrackingOr.clone` passes `self._tag_values` (never `None` after `__init__`) to the constructor,
which raises `ValueError` when `tag_var` is `None`. -/
def cloneRaises : VPat → Bool
  | .orB _ _ tagVar _ alts => tagVar.isNone || cloneRaisesL alts
  | _ => false
def cloneRaisesL : List VPat → Bool
  | [] => false
  | a :: rest => cloneRaises a || cloneRaisesL rest
end

mutual
/-- the `Constant` patterns (value and both tolerances) inside a value pattern -/
def constsV : VPat → List ConstPat
  | .const _ c => [c]
  | .orB _ _ _ _ alts => constsL alts
  | _ => []
def constsL : List VPat → List ConstPat
  | [] => []
  | a :: rest => constsV a ++ constsL rest
end

/-- the `Constant` patterns among the inputs of a node pattern, in input order -/
def NPat.consts (n : NPat) : List ConstPat := constsL (n.inputs.filterMap id)

mutual
/-- a value pattern up to object identity: ids erased (and `can_match_none` of a bare
`ValuePattern`, which `ValuePattern.clone` does not copy) -/
def skel : VPat → VPat
  | .var _ name isVar canNone check => .var 0 name isVar (isVar && canNone) check
  | .any => .any
  | .const _ c => .const 0 c
  | .out np idx => .out np idx
  | .orD _ name tagVar alts => .orD 0 name tagVar alts
  | .orB _ name tagVar tags alts => .orB 0 name tagVar tags (skelL alts)
def skelL : List VPat → List VPat
  | [] => []
  | a :: rest => skel a :: skelL rest
end

def skelInputs (ins : List (Option VPat)) : List (Option VPat) := ins.map (fun i => i.map skel)

inductive CommuteErr where
  | valueError       -- BacktrackingOr.__init__: "tag_var must be specified if tag_values is provided."
  | assertion        -- "commutative swap applies only to binary ops"
  | notImplemented   -- GraphPattern.__init__: "Returning uncovered choice-values is not supported."
  deriving DecidableEq, Repr

/-- `NodePattern.clone(node_map, swap)` -/
def cloneNode (fix7a : Bool) (np : NPat) (swap : Bool) (k : Nat) : Except CommuteErr (NPat × Nat) :=
  let r := cloneInputs np.inputs k
  if !fix7a && cloneRaisesL (np.inputs.filterMap id) then .error .valueError else
  if swap then
    match r.1 with
    | [a, b] => .ok ({ np with inputs := [b, a], opIsStr := false }, r.2)
    | _ => .error .assertion
  else .ok ({ np with inputs := r.1, opIsStr := false }, r.2)

def cloneNodes (fix7a : Bool) : List NPat → List Bool → Nat → Except CommuteErr (List NPat × Nat)
  | np :: rest, b :: bs, k =>
    match cloneNode fix7a np b k with
    | .error e => .error e
    | .ok (np', k') =>
      match cloneNodes fix7a rest bs k' with
      | .error e => .error e
      | .ok (l, k'') => .ok (np' :: l, k'')
  | _, _, k => .ok ([], k)

mutual
def maxIdV : VPat → Nat
  | .var id .. => id
  | .any => 0
  | .const id _ => id
  | .out .. => 0
  | .orD id .. => id
  | .orB id _ _ _ alts => max id (maxIdL alts)
def maxIdL : List VPat → Nat
  | [] => 0
  | a :: rest => max (maxIdV a) (maxIdL rest)
end

def GPat.maxId (p : GPat) : Nat :=
  max (maxIdL p.outputs)
    (p.nodes.foldl (fun m n => max m (maxIdL (n.inputs.filterMap id))) 0)

/-- position `(node, input)` of the first node input that is the OR object `id` (`value is v`) -/
def findOrInput (id : Nat) : List NPat → Nat → Option (Nat × Nat)
  | [], _ => none
  | n :: rest, i =>
    match n.inputs.findIdx? (fun v => (v.bind orId) == some id) with
    | some j => some (i, j)
    | none => findOrInput id rest (i + 1)

/-- `clone_output` of repair C06-F7c (/repo 531a7ae): a returned OR value is the copy already made for the node
input it is (`new_node.inputs[1 - index if swap else index]`); everything else is cloned -/
def cloneOutput (fix7c : Bool) (p : GPat) (newNodes : List NPat) (swaps : List Bool) (vp : VPat) (k : Nat) :
    VPat × Nat :=
  if fix7c then
    match orId vp with
    | some id =>
      match findOrInput id p.nodes 0 with
      | some (i, j) =>
        match newNodes[i]?, swaps[i]? with
        | some n', some sw =>
          match n'.inputs[if sw then 1 - j else j]? with
          | some (some v') => (v', k)
          | _ => cloneV vp k
        | _, _ => cloneV vp k
      | none => cloneV vp k
    | none => cloneV vp k
  else cloneV vp k

def cloneOutputs (fix7c : Bool) (p : GPat) (newNodes : List NPat) (swaps : List Bool) :
    List VPat → Nat → List VPat × Nat
  | [], k => ([], k)
  | a :: rest, k =>
    let r := cloneOutput fix7c p newNodes swaps a k
    let r2 := cloneOutputs fix7c p newNodes swaps rest r.2
    (r.1 :: r2.1, r2.2)

/-- `copy_graph(swap_list)`; `fix7a = true` restates the repaired `BacktrackingOr.clone`
(no `ValueError`, finding C06-F7a) -/
def copyGraph (fix7a : Bool) (p : GPat) (swaps : List Bool) (fix7c : Bool) : Except CommuteErr GPat :=
  if !swaps.any id then .ok p else
  match cloneNodes fix7a p.nodes swaps (p.maxId + 1) with
  | .error e => .error e
  | .ok (nodes, k) =>
    if !fix7a && cloneRaisesL p.outputs then .error .valueError else
    let outs := (cloneOutputs fix7c p nodes swaps p.outputs k).1
    let q : GPat := { p with nodes := nodes, outputs := outs }
    if q.ctorOk then .ok q else .error .notImplemented

/-- `GraphPattern.commute`; `fix7b`, `fix7c` select the repaired revisions (/repo 3353ca3, 531a7ae), the defaults;
`false` restates the code before the repair -/
def commute (fix7a : Bool) (p : GPat) (fix7b : Bool := true) (fix7c : Bool := true) :
    Except CommuteErr (List GPat) :=
  (masks fix7b p.nodes).mapM (fun m => copyGraph fix7a p m fix7c)

end OV.C06
