/-
  OV.Model.C02Collect — C02: what `to_function_proto` / `to_model_proto` put around the body:
  the opset-import tables and the collection of called functions.  Core Lean only.

  Transcribed from /repo:
  * `IRFunction.append_node` (onnxscript/_internal/irbuilder.py): `opset_imports[domain] = version` when the domain
    is not there yet (a dict: first version wins; a second version only warns)            → `setDefault`;
  * `Converter._exit_scope` (converter.py): when a branch / loop body is finished, its own import table is merged
    into the enclosing function's with `setdefault`                                          → `mergeDefault`;
    the `If` / `Loop` node itself is appended afterwards (default domain)                    → `nodeImports`;
  * `IRFunction.get_called_functions`: `visit` walks `RecursiveGraphIterator` (node, then its subgraphs, in order),
    `add` keys the dict `called_functions` by `(domain, name)` (d4270e9; by `f.name` alone before) and recurses into
    the callee                                                                              → `visitBy`, `collect`;
  * `OnnxFunction._to_model_proto`: `main_graph.opset_imports.copy()`, then per collected function its own domain
    (`func.meta["opset_version"]`) and the default domain from the first function that has it, then the default
    domain from `opset_version` / the installed onnx                                         → `modelImports`.
-/
namespace OV.C02

/-- A node as `append_node`, `_exit_scope` and `get_called_functions` see it. -/
inductive CNode where
  /-- ordinary node: domain, opset version (copied from the callee's opset object), and `node.meta["callee"]`
  when that is an `OnnxFunction` (an object reference: index into the `World`) -/
  | op (dom : String) (ver : Nat) (callee : Option Nat)
  /-- `If` (default domain, version of `default_opset`) with then / else branch -/
  | ifN (ver : Nat) (tn en : List CNode)
  /-- `Loop` with its body -/
  | loop (ver : Nat) (bn : List CNode)
deriving Repr, Inhabited

/-- An insertion-ordered dict `domain ↦ version`. -/
abbrev Imports := List (String × Nat)

def hasKey (imp : Imports) (d : String) : Bool := imp.any (fun p => p.1 == d)

def keys (imp : Imports) : List String := imp.map (·.1)

def lookup (imp : Imports) (d : String) : Option Nat :=
  match imp with
  | [] => none
  | p :: rest => if p.1 == d then some p.2 else lookup rest d

/-- `if domain not in d: d[domain] = version` / `dict.setdefault`. -/
def setDefault (imp : Imports) (d : String) (v : Nat) : Imports :=
  if hasKey imp d then imp else imp ++ [(d, v)]

/-- `for domain, version in sub.items(): imp.setdefault(domain, version)` (`_exit_scope`). -/
def mergeDefault (imp : Imports) : Imports → Imports
  | [] => imp
  | p :: rest => mergeDefault (setDefault imp p.1 p.2) rest

mutual
/-- The import table of the current graph after translating one statement's node (subgraphs are finished,
and merged, before their `If` / `Loop` node is appended). -/
def nodeImports (imp : Imports) : CNode → Imports
  | .op d v _ => setDefault imp d v
  | .ifN v tn en => setDefault (mergeDefault (mergeDefault imp (graphImports [] tn)) (graphImports [] en)) "" v
  | .loop v bn => setDefault (mergeDefault imp (graphImports [] bn)) "" v
/-- `opset_imports` of a graph whose nodes were appended in this order, starting from `imp`. -/
def graphImports (imp : Imports) : List CNode → Imports
  | [] => imp
  | n :: ns => graphImports (nodeImports imp n) ns
end

mutual
/-- Every operator domain used by a node, at any depth. -/
def nodeDomains : CNode → List String
  | .op d _ _ => [d]
  | .ifN _ tn en => "" :: (domainsL tn ++ domainsL en)
  | .loop _ bn => "" :: domainsL bn
def domainsL : List CNode → List String
  | [] => []
  | n :: ns => nodeDomains n ++ domainsL ns
end

mutual
/-- `node.meta["callee"]` of every node in `RecursiveGraphIterator` order (a node, then its subgraphs). -/
def nodeCallees : CNode → List Nat
  | .op _ _ c => c.toList
  | .ifN _ tn en => calleesL tn ++ calleesL en
  | .loop _ bn => calleesL bn
def calleesL : List CNode → List Nat
  | [] => []
  | n :: ns => nodeCallees n ++ calleesL ns
end

/-- A script function as `to_model_proto` sees it. -/
structure CFunc where
  name : String
  /-- domain of the opset the function was defined in -/
  domain : String
  /-- `function_ir.meta["opset_version"]`: version of that opset -/
  version : Nat
  nodes : List CNode
deriving Repr, Inhabited

/-- All `OnnxFunction` objects; a callee reference is an index. -/
abbrev World := List CFunc

/-- The identifier under which a function is stored in `ModelProto.functions`. -/
def ident (f : CFunc) : String × String := (f.domain, f.name)

/-- An insertion-ordered dict `key ↦ function`. -/
def hasK {κ : Type} [BEq κ] (acc : List (κ × Nat)) (k : κ) : Bool := acc.any (fun p => p.1 == k)

/-- `visit` / `add` of `get_called_functions` as a depth-first walk with an explicit stack of pending callee
references (the recursion of `add` into the callee = pushing the callee's references in front), for a dict keyed by
`key f`.  `none`: a dangling reference, or the step budget is exhausted (never, with the budget of `collect`:
`collect_total`). -/
def visitBy {κ : Type} [BEq κ] (key : CFunc → κ) (w : World) : Nat → List Nat → List (κ × Nat) → Option (List (κ × Nat))
  | _, [], acc => some acc
  | 0, _ :: _, _ => none
  | fuel + 1, c :: cs, acc =>
    match w[c]? with
    | none => none
    | some f =>
      if hasK acc (key f) then visitBy key w fuel cs acc
      else visitBy key w fuel (calleesL f.nodes ++ cs) (acc ++ [(key f, c)])

/-- Pending references that can still be pushed: callee references of the functions whose key is not in the dict yet. -/
def pendingWork {κ : Type} [BEq κ] (key : CFunc → κ) (w : World) (acc : List (κ × Nat)) : Nat :=
  match w with
  | [] => 0
  | f :: rest => (if hasK acc (key f) then 0 else (calleesL f.nodes).length) + pendingWork key rest acc

def collectBy {κ : Type} [BEq κ] (key : CFunc → κ) (w : World) (main : List CNode) : Option (List (κ × Nat)) :=
  visitBy key w ((calleesL main).length + pendingWork key w []) (calleesL main) []

/-- `called_functions` of the code (since d4270e9): keyed by `(f.function_ir.domain, f.name)`. -/
abbrev Called := List ((String × String) × Nat)

/-- **`IRFunction.get_called_functions`** as it is in /repo: `key = (domain, name)`. -/
def collect (w : World) (main : List CNode) : Option Called := collectBy ident w main

/-- The walk as it was before d4270e9 (finding C02-D1): the dict keyed by `f.name` alone.  Not the code any more;
kept because the partial / refuted pair of theorems about it documents why the key had to change. -/
def collectByName (w : World) (main : List CNode) : Option (List (String × Nat)) := collectBy CFunc.name w main

/-- `_to_model_proto`, the import table. `mainImp` = `main_graph.opset_imports`; `funcs` = the collected functions
in dict order; `ov` = the `opset_version` argument; `latest` = `onnx.defs.onnx_opset_version()`. -/
def modelImports (mainImp : Imports) (funcs : List CFunc) (ov : Option Nat) (latest : Nat) : Imports :=
  let imp := funcs.foldl (fun imp f =>
    let imp := setDefault imp f.domain f.version
    if hasKey imp "" then imp
    else match lookup (graphImports [] f.nodes) "" with
      | some v => imp ++ [("", v)]
      | none => imp) mainImp
  setDefault imp "" (ov.getD latest)

/-- What `to_model_proto` adds around the main graph. -/
structure ModelEnv where
  imports : Imports
  /-- `ModelProto.functions`: references, in order -/
  functions : List Nat
deriving Repr

def funcsOf (w : World) (refs : List Nat) : List CFunc := refs.filterMap (fun i => w[i]?)

def toModel (w : World) (main : List CNode) (ov : Option Nat) (latest : Nat) : Option ModelEnv :=
  match collect w main with
  | none => none
  | some called =>
    let refs := called.map (·.2)
    some { imports := modelImports (graphImports [] main) (funcsOf w refs) ov latest, functions := refs }

end OV.C02
