/-
  OV.Model.C13Export — the decision logic of `onnxscript/backend/onnx_export.py`
  (`export2python` = `onnxscript.proto2python`), restated as total functions.  Core Lean only.

  What is modelled (the code as it is now, after the fixes e68372f, 4af3eb7, b6d60b3, 71b4284, 4e95266, 9e40403,
  7dcad6a, efaa07e, da27432; remaining defects included, see design_notes/C13.md):
  * `_cleanup_variable_name` over ASCII (`cleanupL` on `List Char`, `cleanup` on `String`);
  * `_make_unique_name_mapper` (`uniqStep`/`uniqueName`: cleaned name, `_1`, `_2`, … on collision, one Python name
    per ONNX name), `_make_short_name_mapper` (`shortName`: `v1, v2, …` keyed by the ONNX name, in order of first
    request), `_handle_attrname_conflict` (`newRenamer`, `findCand`), the `_name_remappings` scope stack
    (`lookupRemap`), `_rename_domain`, `_make_callee_name`;
  * `_get_const_repr` (`constRepr`): no dimension 0, FLOAT/INT64, rank 0 or rank 1 with < 5 elements, all finite;
  * `_translate_node` (inline constants, control flow dispatch, graph-attribute refusal, the operator-sugar table —
    with the dead key `"Lesser"` —, parentheses around a `-…` base of `**`, call form, `_i` for missing outputs,
    suppression of `x = Identity(x)`), `_translate_attributes`, `_translate_if`, `_translate_loop` (the table of inlined constants saved/restored per branch and body, fix e0cdb9e), `_emit_assign`,
    `_translate_graph_body` (initializers → `Constant` with the ONNX name, translated once; `skip_initializers`;
    sparse refusal), `_translate_function` (sorted used names, attributes registered before the inputs),
    `_translate_graph` (own remapping scope, body first, signature through the renamer, dedent when nothing was
    skipped), `_substitute_initializers` (`generate_rand` dtype table).
  The result is a canonical *program* (`List String`, one line per emitted statement, with its
  nesting depth) that the harness compares with the `ast` of the text the real exporter returns.
  Rendering of values (float `repr`, tensors) is not modelled: literals are opaque tokens supplied
  by the harness and checked there.
-/
namespace OV.C13

/-! ## Characters: `str.isalpha` / `str.isalnum` restricted to ASCII -/

def isAlpha (c : Char) : Bool :=
  (decide ('a' ≤ c) && decide (c ≤ 'z')) || (decide ('A' ≤ c) && decide (c ≤ 'Z'))
def isDigit (c : Char) : Bool := decide ('0' ≤ c) && decide (c ≤ '9')
def isAlnum (c : Char) : Bool := isAlpha c || isDigit c
/-- `first.isalpha() or first == "_"` -/
def idStart (c : Char) : Bool := isAlpha c || c == '_'
/-- `char.isalnum() or char == "_"` -/
def idChar (c : Char) : Bool := isAlnum c || c == '_'
/-- `rename_char` -/
def renameChar (c : Char) : Char := if idChar c then c else '_'

/-- `kwlist` of onnx_export.py (35 entries; `match`/`case`/`type` soft keywords are not in it). -/
def kwlist : List String :=
  ["False", "None", "True", "and", "as", "assert", "async", "await", "break", "class",
   "continue", "def", "del", "elif", "else", "except", "finally", "for", "from", "global",
   "if", "import", "in", "is", "lambda", "nonlocal", "not", "or", "pass", "raise",
   "return", "try", "while", "with", "yield"]

def kwlistL : List (List Char) := kwlist.map String.toList

/-- `_cleanup_variable_name` on the character list of a non-empty name. -/
def cleanupL (n : List Char) : List Char :=
  if n ∈ kwlistL then 'r' :: '_' :: n
  else match n with
    | [] => []
    | c :: _ => (if idStart c then n else '_' :: '_' :: n).map renameChar

def cleanup (s : String) : String := String.ofList (cleanupL s.toList)

/-- ASCII Python identifier. -/
def isPyIdentL : List Char → Bool
  | [] => false
  | c :: cs => idStart c && cs.all idChar

/-! ## Options, errors, state -/

structure Opts where
  rename : Bool
  useOps : Bool
  inlineConst : Bool
  skipInit : Bool
  deriving Repr, DecidableEq

/-- Exceptions the exporter raises, by site. -/
inductive Err where
  | sparseInit      -- NotImplementedError: sparse_initializer
  | scan            -- NotImplementedError: _translate_scan
  | graphAttr       -- RuntimeError: graph attribute on an op other than If/Loop/Scan
  | attrKind        -- NotImplementedError: _attribute_value on an unsupported attribute kind
  | ifAttrs         -- RuntimeError: If without exactly two attributes
  | loopNoStop      -- RuntimeError: loop without trip count use and without condition
  | remapIndex      -- IndexError: `self._name_remappings[-1]` on an empty stack
  | dupSkipped      -- RuntimeError: initializer already in skipped_initializers
  | emptyName       -- AssertionError: `assert name != ""`
  | noOpset         -- KeyError: `opsets[node.domain]`
  | noAttr          -- IndexError: `const_node.attribute[0]` / missing list element
  | randInit        -- NotImplementedError: generate_rand on a dtype other than FLOAT/INT8
  | depth           -- (model only) nesting deeper than the fuel handed to the model
  deriving Repr, DecidableEq

/-- Python exception class of each site (what the harness can observe). -/
def Err.pyClass : Err → String
  | .sparseInit | .scan | .attrKind | .randInit => "NotImplementedError"
  | .graphAttr | .ifAttrs | .loopNoStop | .dupSkipped => "RuntimeError"
  | .remapIndex | .noAttr => "IndexError"
  | .emptyName => "AssertionError"
  | .noOpset => "KeyError"
  | .depth => "ModelDepth"

structure St where
  /-- `variable_names` of the short-name mapper: keys (cleaned names) in insertion order. -/
  shortKeys : List String := []
  /-- `_attr_renaming` -/
  attrRen : List (String × Option String) := []
  /-- `_names_used` -/
  namesUsed : List String := []
  /-- `_name_remappings`, innermost scope first. -/
  remaps : List (List (String × String)) := []
  /-- `constants`: ONNX name ↦ literal token -/
  constants : List (String × String) := []
  /-- keys of `skipped_initializers` with their dtype, in insertion order -/
  skipped : List (String × Nat) := []
  /-- `_names_read`: names read in the current function / main graph (fix 0215218) -/
  namesRead : List String := []
  /-- `_local_functions`: Python name ↦ (domain, name) of the function printed under that name (fix 41fb399) -/
  localFns : List (String × String × String) := []
  /-- `python_names` of `_make_unique_name_mapper` (ONNX name ↦ Python name, insertion order);
      its `used` set is the list of second components -/
  uniq : List (String × String) := []
  deriving Repr

/-! ## Renaming -/

/-- One request to the short-name mapper on the key list `keys` (cleaned names in insertion order):
    the 0-based index the name gets and the new key list. -/
def shortStep (keys : List String) (k : String) : Nat × List String :=
  if k ∈ keys then (keys.idxOf k, keys) else (keys.length, keys ++ [k])

/-- `_make_short_name_mapper().renamer`: `v{index+1}`, keyed by the ONNX name itself (fix da27432; it was
    keyed by the cleaned name before). -/
def shortName (st : St) (name : String) : String × St :=
  let r := shortStep st.shortKeys name
  ("v" ++ Nat.repr (r.1 + 1), { st with shortKeys := r.2 })

/-- the `k`-th candidate of `_make_unique_name_mapper`: the cleaned name, then `<cleaned>_1`, `<cleaned>_2`, … -/
def uniqCand (cleaned : String) (k : Nat) : String :=
  if k = 0 then cleaned else cleaned ++ "_" ++ Nat.repr k

/-- `while candidate in used: counter += 1; candidate = f"{cleaned}_{counter}"` (fuel `used.length + 1` suffices) -/
def findFree (cleaned : String) (used : List String) : Nat → Nat → String
  | 0, k => uniqCand cleaned k
  | fuel + 1, k => if uniqCand cleaned k ∈ used then findFree cleaned used fuel (k + 1) else uniqCand cleaned k

/-- one request to `_make_unique_name_mapper().renamer` on the table `u` -/
def uniqStep (u : List (String × String)) (name : String) : String × List (String × String) :=
  match u.lookup name with
  | some r => (r, u)
  | none =>
    let r := findFree (cleanup name) (u.map (·.2)) (u.length + 1) 0
    (r, u ++ [(name, r)])

/-- a request to the unique-name mapper as `_translate_onnx_var` issues it: the empty name (absent input)
    does not reach the mapper -/
def uniqReq (u : List (String × String)) (v : String) : List (String × String) :=
  if v = "" then u else (uniqStep u v).2

/-- the table after a sequence of requests -/
def uniqRun (u : List (String × String)) : List String → List (String × String)
  | [] => u
  | v :: vs => uniqRun (uniqReq u v) vs

/-- the printed name of `v` according to table `T` (`""` ↦ `None`) -/
def pyT (T : List (String × String)) (v : String) : String :=
  if v = "" then "None" else (T.lookup v).getD ""

/-- `_make_unique_name_mapper().renamer` (fix da27432): clean-up, made injective by a numeric suffix -/
def uniqueName (st : St) (name : String) : String × St :=
  let r := uniqStep st.uniq name
  (r.1, { st with uniq := r.2 })

/-- a sequence of requests -/
def shortRun : List String → List String → List Nat × List String
  | keys, [] => ([], keys)
  | keys, k :: ks =>
    let r := shortStep keys k
    let rest := shortRun r.2 ks
    (r.1 :: rest.1, rest.2)

/-- the `while candidate in self._names_used` loop; `fuel` = `used.length + 1` suffices. -/
def findCand (base : String) (used : List String) : Nat → Nat → String → String
  | 0, _, cand => cand
  | fuel + 1, k, cand =>
    if cand ∈ used then findCand base used fuel (k + 1) (base ++ "_" ++ Nat.repr k) else cand

/-- the layer `_handle_attrname_conflict` puts over a base name `nn`: names that are not attribute parameters
    pass; an attribute parameter's name is replaced by its cached alternate, or by the first of
    `nn, nn_0, nn_1, …` that is not in `_names_used` (which is then cached and marked used) -/
def conflictStep (ar : List (String × Option String)) (nu : List String) (nn : String) :
    String × List (String × Option String) × List String :=
  match ar.lookup nn with
  | none => (nn, ar, nu)
  | some (some alt) => (alt, ar, nu)
  | some none =>
    let cand := findCand nn nu (nu.length + 1) 0 nn
    (cand, (nn, some cand) :: ar, cand :: nu)

/-- a sequence of requests to the conflict layer -/
def conflictRun (ar : List (String × Option String)) (nu : List String) :
    List String → List String × List (String × Option String) × List String
  | [] => ([], ar, nu)
  | nn :: rest =>
    let r := conflictStep ar nu nn
    let rs := conflictRun r.2.1 r.2.2 rest
    (r.1 :: rs.1, rs.2)

/-- `rename_function` (short mapper or unique-name mapper) wrapped by `_handle_attrname_conflict`. -/
def newRenamer (o : Opts) (st : St) (name : String) : String × St :=
  let (nn, st) := if o.rename then shortName st name else uniqueName st name
  let r := conflictStep st.attrRen st.namesUsed nn
  (r.1, { st with attrRen := r.2.1, namesUsed := r.2.2 })

def lookupRemap : List (List (String × String)) → String → Option String
  | [], _ => none
  | sc :: rest, v => match sc.lookup v with
    | some r => some r
    | none => lookupRemap rest v

/-- `_translate_onnx_var` -/
def translateVar (o : Opts) (st : St) (v : String) : String × St :=
  if v == "" then ("None", st)
  else match lookupRemap st.remaps v with
    | some r => (r, st)
    | none => newRenamer o st v

/-- `_translate_onnx_var_ref` -/
def translateVarRef (o : Opts) (st : St) (v : String) : String × St :=
  match st.constants.lookup v with
  | some lit => (lit, st)
  | none => translateVar o st v

def translateVars (o : Opts) : St → List String → List String × St
  | st, [] => ([], st)
  | st, v :: vs =>
    let (r, st) := translateVar o st v
    let (rs, st) := translateVars o st vs
    (r :: rs, st)

def translateVarRefs (o : Opts) : St → List String → List String × St
  | st, [] => ([], st)
  | st, v :: vs =>
    let (r, st) := translateVarRef o st v
    let (rs, st) := translateVarRefs o st vs
    (r :: rs, st)

/-- `_rename_domain` -/
def renameDomain (d : String) : String :=
  if d == "" || d == "ai.onnx" then "opset" else cleanup d

/-- `_make_opset_name` -/
def opsetName (d : String) (version : Nat) : String := renameDomain d ++ Nat.repr version

/-- `_default_opset_arg` (fix 24e6aa0): with `use_operators` the decorator names the standard-domain opset the
    proto imports (`""` first, then `"ai.onnx"`), so that a body made of Python operators only still converts -/
def defaultOpsetArg (o : Opts) (opsets : List (String × Nat)) : String :=
  if o.useOps then
    match opsets.lookup "" with
    | some v => "default_opset=" ++ opsetName "" v
    | none => match opsets.lookup "ai.onnx" with
      | some v => "default_opset=" ++ opsetName "ai.onnx" v
      | none => ""
  else ""

/-! ## Protos -/

mutual
inductive Attr where
  /-- FLOAT / INT / STRING / FLOATS / INTS / STRINGS: rendered by `repr` -/
  | plain
  /-- `HasField("t")`: dtype, dims, whether all elements are finite, literal token of the value
      (meaningful when inlinable; a token starting with `-` is a text starting with `-`) -/
  | tensor (dtype : Nat) (dims : List Nat) (finite : Bool) (lit : String)
  /-- `ref_attr_name` set -/
  | ref (r : String)
  /-- non-empty `g` -/
  | graph (g : Graph)
  /-- anything `_attribute_value` refuses that carries no non-empty `g`
      (GRAPHS, SPARSE_TENSOR, TYPE_PROTO, TENSORS, empty GRAPH, …) -/
  | unsupported
inductive Node where
  | mk (op domain name : String) (ins outs : List String) (attrs : List (String × Attr))
inductive Graph where
  /-- inits: (name, element count, dtype, dims, all-finite, literal token) -/
  | mk (inputs outputs : List String) (inits : List (String × Nat × Nat × List Nat × Bool × String))
       (nSparse : Nat) (nodes : List Node)
end

instance : Inhabited Graph := ⟨.mk [] [] [] 0 []⟩
instance : Inhabited Node := ⟨.mk "" "" "" [] [] []⟩

namespace Node
def op : Node → String | .mk o _ _ _ _ _ => o
def domain : Node → String | .mk _ d _ _ _ _ => d
def name : Node → String | .mk _ _ n _ _ _ => n
def ins : Node → List String | .mk _ _ _ i _ _ => i
def outs : Node → List String | .mk _ _ _ _ o _ => o
def attrs : Node → List (String × Attr) | .mk _ _ _ _ _ a => a
end Node

namespace Graph
def inputs : Graph → List String | .mk i _ _ _ _ => i
def outputs : Graph → List String | .mk _ o _ _ _ => o
def inits : Graph → List (String × Nat × Nat × List Nat × Bool × String) | .mk _ _ i _ _ => i
def nSparse : Graph → Nat | .mk _ _ _ s _ => s
def nodes : Graph → List Node | .mk _ _ _ _ n => n
def empty : Graph := .mk [] [] [] 0 []
end Graph

/-- `attr.g` (an empty GraphProto when the field is not set) -/
def Attr.g : Attr → Graph
  | .graph g => g
  | _ => Graph.empty

def Attr.isGraph : Attr → Bool
  | .graph _ => true
  | _ => false

/-- `_update_names_used_in_node` / `_update_names_used_in_graph`, to nesting depth `d`. -/
def namesOfNode : Nat → Node → List String
  | 0, n => n.ins ++ n.outs
  | d + 1, n =>
    n.ins ++ n.outs ++ n.attrs.flatMap (fun a =>
      match a.2 with
      | .graph g => g.inputs ++ g.outputs ++ g.inits.map (·.1) ++ g.nodes.flatMap (namesOfNode d)
      | _ => [])

/-- `_update_names_read`: the names read by nodes — their inputs and, for nested graphs, the graph outputs and the
    names read by their nodes (to nesting depth `d`) -/
def namesReadBy : Nat → List Node → List String
  | 0, ns => ns.flatMap (·.ins)
  | d + 1, ns =>
    ns.flatMap (fun n => n.ins ++ n.attrs.flatMap (fun a =>
      match a.2 with
      | .graph g => g.outputs ++ namesReadBy d g.nodes
      | _ => []))

def namesOfGraph (d : Nat) (g : Graph) : List String :=
  g.inputs ++ g.outputs ++ g.inits.map (·.1) ++ g.nodes.flatMap (namesOfNode d)

/-- `is_onnx_op` -/
def isOnnxOp (n : Node) (op : String) : Bool :=
  n.op == op && (n.domain == "" || n.domain == "ai.onnx")

/-- `has_input` -/
def hasInput (n : Node) (i : Nat) : Bool :=
  match n.ins[i]? with
  | some x => x != ""
  | none => false

/-- `_is_used_in_graph_body` -/
def isUsedInBody (d : Nat) (name : String) (g : Graph) : Bool :=
  (g.nodes.flatMap (namesOfNode d)).contains name

/-- `_cond_is_used_in_loop_body` -/
def condIsUsed (d : Nat) (g : Graph) : Bool :=
  let condIn := g.inputs.getD 1 ""
  let condOut := g.outputs.getD 0 ""
  g.nodes.any (fun n =>
    if isOnnxOp n "Identity" && n.ins.length == 1 && n.outs.length == 1
        && n.ins.getD 0 "" == condIn && n.outs.getD 0 "" == condOut then false
    else
      let ns := namesOfNode d n
      ns.contains condIn || ns.contains condOut)

/-! ## Inline constants, operator table, attributes -/

/-- `_get_const_repr` on `attribute[0]`: no dimension 0 (fix 4e95266), FLOAT (1) / INT64 (7), rank 0 or rank 1
    with `dims[0] < 5`, and every element finite (fix 71b4284). -/
def constRepr : Attr → Option String
  | .tensor dtype dims finite lit =>
    if dims.contains 0 then none
    else if dtype == 1 || dtype == 7 then
      match dims with
      | [] => if finite then some lit else none
      | [n] => if n < 5 then (if finite then some lit else none) else none
      | _ => none
    else none
  | _ => none

/-- the `ops` table of `_translate_node` (`"Lesser"` is not an ONNX operator: `Less` is never sugared). -/
def opsTable : List (String × String) :=
  [("Add", "+"), ("Sub", "-"), ("Mul", "*"), ("MatMul", "@"), ("Div", "/"), ("Pow", "**"),
   ("And", "&"), ("Or", "|"), ("Greater", ">"), ("Equal", "=="), ("Lesser", "<"),
   ("GreaterOrEqual", ">="), ("LessOrEqual", "<=")]

/-- `_translate_attributes`: the rendered keyword list (`k` or `k=@ref`), or the refusal. -/
def translateAttrs : List (String × Attr) → Except Err (List String)
  | [] => .ok []
  | (k, a) :: rest =>
    match a with
    | .ref r => (translateAttrs rest).map (fun l => (k ++ "=@" ++ r) :: l)
    | .plain => (translateAttrs rest).map (fun l => k :: l)
    | .tensor _ _ _ _ => (translateAttrs rest).map (fun l => k :: l)
    | .graph _ => .error .attrKind
    | .unsupported => .error .attrKind

/-! ## Statements -/

abbrev R := Except Err (List String × St)

def comma (l : List String) : String := ",".intercalate l

def line (indent : Nat) (s : String) : String := "L" ++ Nat.repr indent ++ " " ++ s

/-- `_emit_assign` on two lists (`zip`); each pair: lhs translated first, then rhs. -/
def emitAssign (o : Opts) (indent : Nat) : St → List String → List String → List String × St
  | st, l :: ls, r :: rs =>
    let (a, st) := translateVar o st l
    let (b, st) := translateVarRef o st r   -- a right-hand side may be an inlined constant (fix b124a38)
    let (rest, st) := emitAssign o indent st ls rs
    (line indent ("assign " ++ a ++ " = " ++ b) :: rest, st)
  | st, _, _ => ([], st)

/-- run `f` over the nodes, concatenating the emitted lines -/
def nodesLoop (f : Node → St → R) : List Node → St → R
  | [], st => .ok ([], st)
  | n :: ns, st =>
    match f n st with
    | .error e => .error e
    | .ok (l1, st) =>
      match nodesLoop f ns st with
      | .error e => .error e
      | .ok (l2, st) => .ok (l1 ++ l2, st)

/-- the initializer loop of `_translate_graph_body` -/
def initsLoop (o : Opts) (rec : Node → St → R) :
    List (String × Nat × Nat × List Nat × Bool × String) → St → R
  | [], st => .ok ([], st)
  | (name, size, dtype, dims, finite, lit) :: rest, st =>
    if o.skipInit && size > 4 then
      let (py, st) := translateVar o st name
      if (st.skipped.map (·.1)).contains py then .error .dupSkipped
      else initsLoop o rec rest { st with skipped := st.skipped ++ [(py, dtype)] }
    else
      -- make_node("Constant", [], [init.name], value=init): the output keeps its ONNX name and is
      -- translated (once) by `_translate_node` (fix efaa07e)
      match rec (.mk "Constant" "" "" [] [name] [("value", .tensor dtype dims finite lit)]) st with
      | .error e => .error e
      | .ok (l1, st) =>
        match initsLoop o rec rest st with
        | .error e => .error e
        | .ok (l2, st) => .ok (l1 ++ l2, st)

/-- `_translate_graph_body` -/
def graphBody (o : Opts) (rec : Node → St → R) (g : Graph) (st : St) : R :=
  match initsLoop o rec g.inits st with
  | .error e => .error e
  | .ok (l1, st) =>
    if g.nSparse > 0 then .error .sparseInit
    else match nodesLoop rec g.nodes st with
      | .error e => .error e
      | .ok (l2, st) => .ok (l1 ++ l2, st)

/-- `_translate_graph_body` of a subgraph together with its read set (fix ce0fc89): `_names_read` is the set of the
    graph being translated — its outputs and the names read by its nodes, to nesting depth `d` — and the enclosing
    graph's set is restored afterwards.  (For a main graph `_translate_graph` has already set the same set.) -/
def graphBodyR (o : Opts) (d : Nat) (rec : Node → St → R) (g : Graph) (st : St) : R :=
  let outer := st.namesRead
  match graphBody o rec g { st with namesRead := g.outputs ++ namesReadBy d g.nodes } with
  | .error e => .error e
  | .ok (l, st) => .ok (l, { st with namesRead := outer })

/-- `_translate_if`; `d` is the depth to which the names read inside the branches are collected. -/
def translateIf (o : Opts) (recIn : Node → St → R) (d : Nat) (n : Node) (indent : Nat) (st : St) : R :=
  let (cond, st) := translateVarRef o st (n.ins.getD 0 "")
  match n.attrs with
  | [a0, a1] =>
    let (elseB, thenB) := if a0.1 == "else_branch" then (a0.2.g, a1.2.g) else (a1.2.g, a0.2.g)
    -- fix e0cdb9e: a constant inlined in a branch is local to it — the table is saved here and restored after the
    -- assignments closing each branch (which may still refer to a constant of that branch)
    let outer := st.constants
    match graphBodyR o d recIn thenB st with
    | .error e => .error e
    | .ok (tl, st) =>
      let (ta, st) := emitAssign o (indent + 1) st n.outs thenB.outputs
      let st := { st with constants := outer }
      match graphBodyR o d recIn elseB st with
      | .error e => .error e
      | .ok (el, st) =>
        let (ea, st) := emitAssign o (indent + 1) st n.outs elseB.outputs
        let st := { st with constants := outer }
        -- no output is read in the enclosing graph (its own read set, fix ce0fc89): the (checked) translation is
        -- dropped (fix 0215218)
        if !(n.outs.any (fun x => st.namesRead.contains x)) then .ok ([], st)
        else .ok ([line indent ("if " ++ cond)] ++ tl ++ ta ++ [line indent "else"] ++ el ++ ea, st)
  | _ => .error .ifAttrs

/-- `_translate_loop`; `d` is the depth to which names inside the body are collected. -/
def translateLoop (o : Opts) (recIn : Node → St → R) (d : Nat) (n : Node) (indent : Nat) (st : St) : R :=
  match n.attrs with
  | [] => .error .noAttr
  | a0 :: _ =>
    let body := a0.2.g
    match body.inputs, body.outputs with
    | iterVar :: condIn :: formalIns, condOut :: bodyOuts =>
      let (useIter, nIter, st) :=
        if hasInput n 0 then
          let (r, st) := translateVarRef o st (n.ins.getD 0 "")   -- may be an inlined constant (fix b124a38)
          (true, r, st)
        else (isUsedInBody d iterVar body, "None", st)
      let (iterPy, st) := translateVar o st iterVar
      let (pyCond, st) := translateVar o st condIn
      let (rows1, useCond, st) :=
        if hasInput n 1 then
          let (r, st) := emitAssign o indent st [condIn] [n.ins.getD 1 ""]
          (r, true, st)
        else ([], condIsUsed d body, st)
      let numState := n.ins.length - 2
      let actualIns := n.ins.drop 2
      let formalOuts := bodyOuts.take numState
      let actualOuts := n.outs.take numState
      let (rows2, st) := emitAssign o indent st formalIns actualIns
      let breakLast := useIter && useCond && !hasInput n 1 && !isUsedInBody d condIn body
      let hdr : Except Err (List String × St) :=
        if useIter && !useCond then
          let (r, st) := translateVar o st condIn
          match st.remaps with
          | [] => .error .remapIndex
          | sc :: rest => .ok ([line indent ("for " ++ iterPy ++ " " ++ nIter)],
                               { st with remaps := ((condOut, r) :: sc) :: rest })
        else if !useIter && useCond then .ok ([line indent ("while " ++ pyCond)], st)
        else if useIter && useCond then
          -- fix 413fb60: without an initial condition, and when the body does not read cond_in, the loop is
          -- printed `for …: <body>; c_in = Not(c_out); <hand-over>; if c_in: break`
          if breakLast then .ok ([line indent ("for " ++ iterPy ++ " " ++ nIter)], st)
          else .ok ([line indent ("forbreak " ++ iterPy ++ " " ++ nIter ++ " " ++ pyCond)], st)
        else .error .loopNoStop
      match hdr with
      | .error e => .error e
      | .ok (h, st) =>
        -- fix e0cdb9e: a constant inlined in the loop body is local to the body
        let outer := st.constants
        match graphBodyR o d recIn body st with
        | .error e => .error e
        | .ok (bl, st) =>
          let r3 : Except Err (List String × St) :=
            if breakLast then recIn (.mk "Not" n.domain "" [condOut] [condIn] []) st
            else if useCond then .ok (emitAssign o (indent + 1) st [condIn] [condOut])
            else .ok ([], st)
          match r3 with
          | .error e => .error e
          | .ok (rows3, st) =>
            let (rows4, st) := emitAssign o (indent + 1) st formalIns formalOuts
            let st := { st with constants := outer }
            let brk := if breakLast then [line (indent + 1) ("breakif " ++ pyCond)] else []
            let (rows5, st) := emitAssign o indent st actualOuts formalIns
            .ok (rows1 ++ rows2 ++ h ++ bl ++ rows3 ++ rows4 ++ brk ++ rows5, st)
    | _, _ => .error .noAttr

/-- output names of a call: `_i` for a missing output, else `_translate_onnx_var` -/
def outNames (o : Opts) (st : St) (i : Nat) : List String → List String × St
  | [] => ([], st)
  | x :: xs =>
    if x == "" then
      let (rs, st) := outNames o st (i + 1) xs
      (("_" ++ Nat.repr i) :: rs, st)
    else
      let (r, st) := translateVar o st x
      let (rs, st) := outNames o st (i + 1) xs
      (r :: rs, st)

/-- fix b6d60b3: the left operand of `**` is parenthesised when its text starts with `-` (only an inlined
    negative constant can) -/
def powParen (op : String) (args : List String) : List String :=
  match args with
  | a :: rest => if op == "Pow" && a.toList.head? == some '-' then ("(" ++ a ++ ")") :: rest else args
  | [] => []

/-- the non-control-flow tail of `_translate_node` -/
def translatePlain (o : Opts) (opsets : List (String × Nat)) (n : Node) (indent : Nat) (st : St) : R :=
  if n.attrs.any (·.2.isGraph) then .error .graphAttr
  else match (if o.useOps then opsTable.lookup n.op else none) with
    | some sym =>
      let (out, st) := translateVar o st (n.outs.getD 0 "")
      let (args, st) := translateVarRefs o st n.ins
      .ok ([line indent ("op " ++ out ++ " = " ++ (" " ++ sym ++ " ").intercalate (powParen n.op args))], st)
    | none =>
      match opsets.lookup n.domain with
      | none => .error .noOpset
      | some ver =>
        -- a call of a function printed above goes through the python function (fix 41fb399)
        let callee := match st.localFns.lookup (cleanup n.op) with
          | some (dm, nm) => if dm == n.domain && nm == n.op then cleanup n.op
                             else opsetName n.domain ver ++ "." ++ cleanup n.op
          | none => opsetName n.domain ver ++ "." ++ cleanup n.op
        match translateAttrs n.attrs with
        | .error e => .error e
        | .ok attrs =>
          let (outs, st) := outNames o st 0 n.outs
          let (args, st) := translateVarRefs o st n.ins
          if n.op == "Identity" && n.ins.length == 1 && n.outs.length == 1 && outs.getD 0 "" == args.getD 0 "" then
            .ok ([], st)
          else
            .ok ([line indent ("call " ++ comma outs ++ " = " ++ callee ++ "(" ++ comma args ++ "|" ++ comma attrs ++ ")")], st)

/-- `_translate_node`.  `d` bounds the nesting depth of subgraphs (structural recursion). -/
def translateNode (o : Opts) (opsets : List (String × Nat)) : Nat → Nat → Node → St → R
  | 0, _, _, _ => .error .depth
  | d + 1, indent, n, st =>
    let inlined : Option (Except Err St) :=
      if o.inlineConst && n.op == "Constant" then
        match n.attrs with
        | [] => some (.error .noAttr)
        | a0 :: _ =>
          match constRepr a0.2 with
          | some lit => some (.ok { st with constants := (n.outs.getD 0 "", lit) :: st.constants })
          | none => none
      else none
    match inlined with
    | some (.error e) => .error e
    | some (.ok st) => .ok ([], st)
    | none =>
      if n.op == "If" then translateIf o (translateNode o opsets d (indent + 1)) d n indent st
      else if n.op == "Loop" then translateLoop o (translateNode o opsets d (indent + 1)) d n indent st
      else if n.op == "Scan" then .error .scan
      else translatePlain o opsets n indent st

/-! ## Whole protos -/

structure FunctionP where
  name : String
  domain : String
  inputs : List String
  outputs : List String
  attrs : List String
  /-- `sorted(_names_used_in_function(f))` (fix da27432 sorts the set; the sorted list is supplied by the harness) -/
  usedOrder : List String
  opsets : List (String × Nat)
  nodes : List Node

structure ModelP where
  graphName : String
  functionName : Option String
  opsets : List (String × Nat)
  graph : Graph

/-- the exporter state of `_translate_function` when the signature is printed: `_attr_renaming` reset, the pre-pass
    over the (sorted) used names done, `_names_used`/`_names_read`/`_local_functions` set, the attribute parameters
    registered (fix 9e40403: before the inputs are translated) -/
def funcState (o : Opts) (d : Nat) (f : FunctionP) (st : St) : St :=
  let st := { st with attrRen := [], constants := [] }  -- fix e0cdb9e: inlined constants are local to the function
  let (renamed, st) := translateVars o st f.usedOrder
  let st := { st with namesUsed := renamed, namesRead := f.outputs ++ namesReadBy d f.nodes }
  let st := { st with localFns := (cleanup f.name, f.domain, f.name) :: st.localFns }
  { st with attrRen := f.attrs.reverse.map (·, none) ++ st.attrRen,
            namesUsed := f.attrs.reverse ++ st.namesUsed }

/-- nodes of a function body: every node's line list is kept (even when empty) -/
def translateFunction (o : Opts) (d : Nat) (f : FunctionP) (st : St) : R :=
  let funName := cleanup f.name
  let st := funcState o d f st
  let (ins, st) := translateVars o st f.inputs
  let st := { st with remaps := [] :: st.remaps }
  match nodesLoop (translateNode o f.opsets d 1) f.nodes st with
  | .error e => .error e
  | .ok (body, st) =>
    let (rets, st) := translateVarRefs o st f.outputs
    let st := { st with remaps := st.remaps.drop 1 }
    let dflt := defaultOpsetArg o f.opsets
    let deco := "deco " ++ opsetName f.domain 1 ++ (if dflt == "" then "" else "," ++ dflt)
    .ok ([deco, "sig " ++ funName ++ "(" ++ comma ins ++ "|" ++ comma f.attrs ++ ")"] ++ body
          ++ [line 1 ("return " ++ comma rets)], st)

/-- `generate_rand` (fix 7dcad6a): FLOAT (1), INT8 (3); FLOAT16 (10), DOUBLE (11); the integer types
    UINT8 (2), UINT16 (4), INT16 (5), INT32 (6), INT64 (7), UINT32 (12), UINT64 (13) and BOOL (9) -/
def randOk (dtype : Nat) : Bool := [1, 3, 10, 11, 2, 4, 5, 6, 7, 12, 13, 9].contains dtype

/-- `function_name`, or the cleaned graph name -/
def ModelP.funName (m : ModelP) : String :=
  match m.functionName with
  | some f => f
  | none => cleanup m.graphName

/-- body, signature and `return` of `_translate_graph` at a given indentation level.  The main graph gets its own
    remapping scope (pushed before the body, popped after the `return` line) — fix e68372f. -/
def graphProg (o : Opts) (d : Nat) (m : ModelP) (funName : String) (indent : Nat) (st : St) : R :=
  -- fix e0cdb9e: the inlined constants of the functions translated before are not visible in the main graph
  let st := { st with remaps := [] :: st.remaps, namesRead := m.graph.outputs ++ namesReadBy d m.graph.nodes,
                      constants := [] }
  -- the body is translated first; the signature then goes through the exporter's renamer (fix efaa07e)
  match graphBody o (translateNode o m.opsets d indent) m.graph st with
  | .error e => .error e
  | .ok (body, st) =>
    let (sigNames, st) := translateVars o st m.graph.inputs
    let sig := "sig " ++ funName ++ "(" ++ comma sigNames ++ "|)"
    let (rets, st) := translateVarRefs o st m.graph.outputs
    let st := { st with remaps := st.remaps.drop 1 }
    .ok (["deco " ++ defaultOpsetArg o m.opsets, sig] ++ body ++ [line indent ("return " ++ comma rets)], st)

/-- `_translate_graph` (+ `_substitute_initializers`).  Under `skip_initializers` the function is printed one
    level deeper; when nothing was skipped that extra indentation is removed again (fix 4af3eb7) — the
    indentation influences nothing but the printed depth, so the dedented text is the program at depth 1. -/
def translateGraph (o : Opts) (d : Nat) (m : ModelP) (st0 : St) : R :=
  if m.functionName.isNone && m.graphName == "" then .error .emptyName
  else
  let funName := m.funName
  let indent := if o.skipInit then 2 else 1
  match graphProg o d m funName indent st0 with
  | .error e => .error e
  | .ok (prog, st) =>
    if st.skipped.isEmpty then
      (if o.skipInit then graphProg o d m funName 1 st0 else .ok (prog, st))
    else
      -- `generate_rand` has a fallback for every dtype since 718c87b (zeros through `make_tensor`)
      .ok (["wrap " ++ comma (st.skipped.map (·.1))] ++ prog, st)

/-- a set of names as a duplicate-free list -/
def dedup : List String → List String
  | [] => []
  | x :: xs => if x ∈ dedup xs then dedup xs else x :: dedup xs

/-- `_reserve_global_names` + the type names `_import_onnx_types` adds: the module-level names of the generated text
    that `_make_unique_name_mapper` never produces (fix 7e6d802).  `tys` are the type names of the graph inputs and
    outputs (types are not part of this model: supplied by the harness). -/
def reservedNames (tys : List String) (opsetLists : List (List (String × Nat))) (funDomains : List String) : List String :=
  (["np", "TensorProto", "make_tensor", "script", "external_tensor", "Opset", "value_infos"]
    ++ opsetLists.flatMap (fun l => l.map (fun dv => opsetName dv.1 dv.2))
    ++ funDomains.map (fun dmn => opsetName dmn 1) ++ tys) |> dedup

/-- the initial table of the unique-name mapper: the reserved names count as used; their key `""` is never
    looked up (`_translate_onnx_var("")` is `None` and does not reach the mapper) -/
def reservedTable (res : List String) : List (String × String) := res.map (fun r => ("", r))

/-- `export()` on a ModelProto without model-local functions; `tys`: type names of the graph inputs/outputs -/
def exportModelT (tys : List String) (o : Opts) (d : Nat) (m : ModelP) : Except Err (List String) :=
  (translateGraph o d m { uniq := reservedTable (reservedNames tys [m.opsets] []) }).map (·.1)

/-- the same when no type name is imported -/
def exportModel (o : Opts) (d : Nat) (m : ModelP) : Except Err (List String) := exportModelT [] o d m

/-- `_translate_opset_imports_of`: one line per opset import — `from onnxscript.onnx_opset import opsetN` for the
    standard domains, `alias = Opset('domain', version)` otherwise; for a FunctionProto additionally the function's
    own domain at version 1 when it is not imported.  Printed as `alias` resp. `alias=domain:version`. -/
def importTok (dv : String × Nat) : String :=
  if dv.1 == "" || dv.1 == "ai.onnx" then opsetName dv.1 dv.2
  else opsetName dv.1 dv.2 ++ "=" ++ dv.1 ++ ":" ++ Nat.repr dv.2

def importsLine (imports : List (String × Nat)) (funDomain : Option String) : String :=
  let extra := match funDomain with
    | some d => if imports.any (·.1 == d) then [] else [(d, 1)]
    | none => []
  "imports " ++ comma ((imports ++ extra).map importTok)

/-- `export()` on a ModelProto with model-local functions: `_translate_function` for each function in order, then
    `_translate_graph`, all on the same exporter state (renaming tables, inlined constants persist) -/
def functionsLoop (o : Opts) (d : Nat) : List FunctionP → St → R
  | [], st => .ok ([], st)
  | f :: fs, st =>
    match translateFunction o d f st with
    | .error e => .error e
    | .ok (p1, st) =>
      match functionsLoop o d fs st with
      | .error e => .error e
      | .ok (p2, st) => .ok (p1 ++ p2, st)

/-- the functions a function calls (in all nested graphs), as `(domain, op_type)` keys, in order of occurrence -/
def calledKeys : Nat → List Node → List (String × String)
  | 0, ns => ns.map (fun n => (n.domain, n.op))
  | d + 1, ns =>
    ns.flatMap (fun n => (n.domain, n.op) :: n.attrs.flatMap (fun a =>
      match a.2 with
      | .graph g => calledKeys d g.nodes
      | _ => []))

/-- `visit` of `_callees_first`: depth-first, a callee is placed before its caller; `pending` breaks cycles -/
def cfVisit (byId : List ((String × String) × FunctionP)) (d : Nat) :
    Nat → List (String × String) → List (String × String) → List ((String × String) × FunctionP) →
    List ((String × String) × FunctionP)
  | 0, _, _, ordered => ordered
  | fuel + 1, keys, pending, ordered =>
    keys.foldl (fun ord key =>
      match byId.lookup key with
      | some f =>
        if (ord.lookup key).isSome || pending.contains key then ord
        else
          let ord := cfVisit byId d fuel (calledKeys d f.nodes) (key :: pending) ord
          ord ++ [(key, f)]
      | none => ord) ordered

/-- `_callees_first` (fix 41fb399): a function follows the functions it calls; the given order otherwise -/
def calleesFirst (d : Nat) (fs : List FunctionP) : List FunctionP :=
  -- `by_id` is a dict: for equal keys the last function wins
  let byId := fs.reverse.map (fun f => ((f.domain, f.name), f))
  let ordered := fs.foldl (fun ord f =>
    let key := (f.domain, f.name)
    if (ord.lookup key).isSome then ord
    else
      let ord := cfVisit byId d (fs.length + 1) (calledKeys d f.nodes) [key] ord
      ord ++ [(key, f)]) []
  if ordered.length == fs.length then ordered.map (·.2) else fs

def exportModelF (tys : List String) (o : Opts) (d : Nat) (fs : List FunctionP) (m : ModelP) : Except Err (List String) :=
  let st0 : St := { uniq := reservedTable (reservedNames tys (m.opsets :: fs.map (·.opsets)) (fs.map (·.domain))) }
  match functionsLoop o d (calleesFirst d fs) st0 with
  | .error e => .error e
  | .ok (pf, st) => (translateGraph o d m st).map (fun r => pf ++ r.1)

def exportFunction (o : Opts) (d : Nat) (f : FunctionP) : Except Err (List String) :=
  (translateFunction o d f { uniq := reservedTable (reservedNames [] [f.opsets] [f.domain]) }).map (·.1)

/-- The renaming the exporter applies to the value names `ns` of a *main graph* when they are
    requested in the order `ns` (no attribute parameters, no remapping scope): the table
    `name ↦ Python name`. -/
def renameTable (o : Opts) (ns : List String) : List (String × String) :=
  ns.zip (translateVars o {} ns).1

end OV.C13
