import OV.Model.C08View
import OV.Model.C08Scalar
import OV.Model.C08Linalg
/-!
# C08 — normalisation / sort / addmm family (round 5)

`aten_layer_norm`, `aten_native_layer_norm` (core.py: `start_axis = -len(normalized_shape)`, default weight
`Expand(1, Shape(input, start=start_axis))`, ONNX `LayerNormalization`), `aten_sort` (rank-0 branch / `TopK` with
`k = Shape(self)[dim]`), `aten_addmm` (`Gemm` with `self` as the unidirectionally broadcast `C`), `aten_baddbmm`
(`MatMul` + optional `Mul`s by alpha / beta + multidirectional `Add`), `aten_glu` (nn.py, scripted: `Split(num_outputs=2)`).
Kept in its own module (with its own trace table `OV.Gen.C08TraceB*`) so that the large table of the earlier rounds
is not rebuilt.
-/
namespace OV.C08

/-- `c` (reversed) is expandable to `t` (reversed) in PyTorch's sense (`Tensor.expand`): not longer than `t`, and every
right-aligned size equal to the target's or 1. -/
def expandableRev : List Nat → List Nat → Bool
  | [], _ => true
  | _ :: _, [] => false
  | x :: xs, y :: ys => (x == y || x == 1) && expandableRev xs ys

def torchExpandable (c t : Shape) : Bool := expandableRev c.reverse t.reverse

namespace layer_norm

/-- The dataflow term.  `native` = `aten_native_layer_norm` (three outputs, default weight built from the float list
`[1.0]` and `CastLike`d), otherwise `aten_layer_norm` (first output only, default weight a 0-d constant of the input's
dtype).  `k = len(normalized_shape)`; `-k` is both the `Shape(start=…)` of the default weight and the `axis`. -/
def term (native : Bool) (k : Nat) (hasW hasB : Bool) : String :=
  let ax := tI (-(k : Int))
  let shp := tOp "Shape" ["x0"] [("start", ax)]
  let w := if hasW then "x1"
           else if native then tOp "CastLike" [tOp "Expand" ["[1.0:FLOAT]", shp], "x0"]
           else tOp "Expand" ["1.0:FLOAT", shp]
  let b := if hasB then (if hasW then ["x2"] else ["x1"]) else []
  let t := tOp "LayerNormalization" (["x0", w] ++ b) [("axis", ax), ("epsilon", "1e-05"), ("stash_type", "1")]
  if native then t ++ "#0 || " ++ t ++ "#1 || " ++ t ++ "#2" else t ++ "#0"

/-- ONNX `LayerNormalization(X, Scale, B; axis)` as onnxruntime runs it: `axis ∈ [-r, r-1]`, the normalised block
`X.shape[axis:]` must be non-empty, `Scale` / `B` hold exactly one value per element of the block; `Y` has `X`'s shape,
`Mean` / `InvStdDev` have `X.shape[:axis] ++ [1, …, 1]`. -/
def lnOp (s w : Shape) (b : Option Shape) (axis : Int) : Option (List Shape) :=
  match normAxis s.length axis with
  | none => none
  | some a =>
    let blk := numel (s.drop a)
    if blk = 0 then none
    else if numel w ≠ blk then none
    else if b ≠ none ∧ b.map numel ≠ some blk then none
    else
      let st := s.take a ++ List.replicate (s.length - a) 1
      some [s, st, st]

/-- The traced graph: default weight = `Expand(1, Shape(x, start=-k))` (the `start` attribute of `Shape` is clamped to
`[0, r]`, so the truncating subtraction is exact). -/
def model (native : Bool) (s : Shape) (k : Nat) (w b : Option Shape) : Option (List Shape) :=
  let ax : Int := -(k : Int)
  let wS := match w with
    | some ws => ws
    | none => s.drop (s.length - k)
  match lnOp s wS b ax with
  | none => none
  | some outs => if native then some outs else some (outs.take 1)

/-- `torch.layer_norm` / `torch.native_layer_norm`: `normalized_shape` has at least one entry and is the tail of the
input's shape; weight and bias, when given, have exactly that shape; mean / rstd keep the leading dims and have 1s
in place of the normalised ones. -/
def spec (native : Bool) (s : Shape) (ns : Shape) (w b : Option Shape) : Option (List Shape) :=
  let k := ns.length
  if k = 0 ∨ s.length < k then none
  else if s.drop (s.length - k) ≠ ns then none
  else if w ≠ none ∧ w ≠ some ns then none
  else if b ≠ none ∧ b ≠ some ns then none
  else
    let st := s.take (s.length - k) ++ List.replicate k 1
    if native then some [s, st, st] else some [s]

end layer_norm

namespace sort

/-- `aten_sort(self, dim, descending, stable)`: rank 0 (static) → `Identity(self)`, constant index `0`; otherwise
`TopK(self, Reshape(Gather(Shape(self), dim), [1]), axis=dim, largest=descending, sorted=1)`; `stable` is not used. -/
def term (r : Nat) (dim : Int) (desc : Bool) : String :=
  if r = 0 then tOp "Identity" ["x0"] ++ " || 0"
  else
    let k := tOp "Reshape" [tOp "Gather" [tOp "Shape" ["x0"] [("start", "0")], tI dim] [("axis", "0")], "[1]"] [("allowzero", "0")]
    let t := tOp "TopK" ["x0", k] [("axis", tI dim), ("largest", tB desc), ("sorted", "1")]
    t ++ "#0 || " ++ t ++ "#1"

/-- `Gather(Shape(x), dim)` needs `dim ∈ [-r, r-1]`; `TopK(axis=dim, K)` replaces that size by `K`. -/
def model (s : Shape) (dim : Int) : Option (List Shape) :=
  if s.length = 0 then some [[], []]
  else match normAxis s.length dim with
    | none => none
    | some a => let kk := s.getD a 0; some [setAt s a kk, setAt s a kk]

/-- `torch.sort`: values and indices of the input's shape; `dim` wrapped (rank 0 accepts `-1, 0`). -/
def spec (s : Shape) (dim : Int) : Option (List Shape) := (torchDim s.length dim).map (fun _ => [s, s])

end sort

namespace addmm

/-- Python `repr(float(n))` of an integer-valued float. -/
def fl (n : Int) : String := toString n ++ ".0"

/-- `aten_addmm(self, mat1, mat2, beta, alpha)` = `Gemm(mat1, mat2, self, alpha=float(alpha), beta=float(beta))`. -/
def term (alpha beta : Int) : String :=
  tOp "Gemm" ["x1", "x2", "x0"] [("alpha", fl alpha), ("beta", fl beta), ("transA", "0"), ("transB", "0")]

/-- ONNX `Gemm(A[M,K], B[K,N], C)`: `C` unidirectionally broadcastable to `[M, N]`. -/
def model (c a b : Shape) : Option Shape :=
  match a, b with
  | [m, k], [k', n] =>
    if k ≠ k' then none
    else if expandOp c [m, n] = some [m, n] then some [m, n] else none
  | _, _ => none

/-- `torch.addmm(self, mat1[M,K], mat2[K,N])`: `self` expandable to `[M, N]`. -/
def spec (c a b : Shape) : Option Shape :=
  match a, b with
  | [m, k], [k', n] => if k = k' ∧ torchExpandable c [m, n] then some [m, n] else none
  | _, _ => none

end addmm

namespace baddbmm

/-- `aten_baddbmm`: `alpha` / `beta` equal to `None` or `1` leave the operand alone (trace-time test), otherwise a
`Mul` by `CastLike(value, self)`; Python ints are rendered as INT64 constants. -/
def term (alpha beta : Option Int) : String :=
  let mm := tOp "MatMul" ["x1", "x2"]
  let a := match alpha with
    | none => mm
    | some v => if v = 1 then mm else tOp "Mul" [mm, tOp "CastLike" [tI v, "x0"]]
  let b := match beta with
    | none => "x0"
    | some v => if v = 1 then "x0" else tOp "Mul" ["x0", tOp "CastLike" [tI v, "x0"]]
  tOp "Add" [a, b]

/-- `Add(MatMul(batch1, batch2), self)`: numpy `matmul` rule, then multidirectional broadcasting. -/
def model (c a b : Shape) : Option Shape :=
  match matmulOp a b with
  | none => none
  | some o => bcast2 o c

/-- `torch.baddbmm(self, batch1[B,M,K], batch2[B,K,N])`: `self` expandable to `[B, M, N]`. -/
def spec (c a b : Shape) : Option Shape :=
  match a, b with
  | [b1, m, k], [b2, k', n] => if b1 = b2 ∧ k = k' ∧ torchExpandable c [b1, m, n] then some [b1, m, n] else none
  | _, _ => none

end baddbmm

namespace glu

/-- Scripted function: one call node carrying the attribute. -/
def term (dim : Int) : String := "pkg.onnxscript.torch_lib::aten_glu(x0;dim=" ++ tI dim ++ ")"

/-- Body: `first, second = Split(self, axis=dim, num_outputs=2)`; `Mul(first, Sigmoid(second))`. -/
def model (s : Shape) (dim : Int) : Option Shape :=
  match normAxis s.length dim with
  | none => none
  | some a =>
    match splitNumOutputs (s.getD a 0) 2 with
    | some [p, q] => bcast2 (setAt s a p) (setAt s a q)
    | _ => none

/-- `torch.nn.functional.glu`: no scalars, `dim` wrapped, the size along `dim` even; it is halved. -/
def spec (s : Shape) (dim : Int) : Option Shape :=
  if s.length = 0 then none
  else match normAxis s.length dim with
    | none => none
    | some a => let d := s.getD a 0; if d % 2 ≠ 0 then none else some (setAt s a (d / 2))

end glu

end OV.C08
