/-!
# C10 — model of `onnxscript.version_converter`

Transcribes the decision logic of
* `onnxscript/version_converter/_version_converter.py` (`version_supported`, `_get_onnx_opset_version`,
  `_set_onnx_opset_version`, the three adapters, `process_node`, `visit_node`,
  `visit_graph_or_function`, `visit_model`, `convert_version`), and
* `onnxscript/version_converter/__init__.py` (`ConvertVersionPass`, `_ConvertVersionPassRequiresInline`,
  `convert_version` with its ModelProto branch) and `_c_api_utils.call_onnx_api`.

Core Lean only.  Bugs of the code are restated, not repaired.  Outside the model (contracts, A-ir):
`InlinePass`, `RemoveUnused*Pass`, `NameFixPass`, `replace_nodes_and_values`, serde, and the ONNX C-API
converter (a parameter `capi`).
-/
namespace OV.C10

/-! ## Constants read from the source (`SUPPORTED_MIN/MAX_ONNX_OPSET`) -/
def supportedMin : Nat := 18
def supportedMax : Nat := 25

/-! ## Nodes -/

/-- What an adapter can see of a shape entry: `missing` (`value.shape is None`), `symbolic`
(the dimension is not an `int`), `known`. -/
inductive Vis | missing | symbolic | known
  deriving DecidableEq, Repr, Inhabited

/-- Facts about a `GroupNormalization` node.  `c`, `sLen`, `bLen` are the run-time sizes (number of
channels, length of scale, length of bias); the `Vis` fields say what the static annotation shows of
them (annotations are truthful: A-shape). -/
structure GN where
  hasX : Bool
  hasScale : Bool
  hasBias : Bool
  groups : Option Nat
  eps : Option String
  c : Nat
  sLen : Nat
  bLen : Nat
  xVis : Vis
  sVis : Vis
  bVis : Vis
  deriving DecidableEq, Repr, Inhabited

inductive Op
  /-- any default- or custom-domain operator without an adapter (Relu, Add, If, Reshape, Expand …) -/
  | plain (name : String)
  /-- `Constant(value_int=…)` (`scalar = true`) / `Constant(value_ints=…)` emitted by adapters -/
  | const (scalar : Bool) (ints : List Int)
  | gridSample (mode : Option String) (align : Option Int) (padding : Option String)
  /-- `axis`/`inverse`/`onesided` attributes, presence of `dft_length`, constant value of the
  `axis` *input* (opset ≥ 20), run-time rank of the input -/
  | dft (axis : Option Int) (inverse onesided : Option Int) (hasLen : Bool) (axisIn : Option Int) (rank : Nat)
  | groupNorm (gn : GN)
  /-- call of model-local function number `f` (custom domain) -/
  | call (f : Nat)
  deriving DecidableEq, Repr, Inhabited

/-- A node without subgraphs (body of a subgraph, or a node emitted by an adapter). -/
structure Leaf where
  dflt : Bool            -- `node.domain == ""`
  op : Op
  version : Option Nat   -- `node.version`
  refAttr : Bool         -- some attribute is a reference attribute
  deriving DecidableEq, Repr, Inhabited

/-- A node of a graph or function; `bodies` are its graph-valued attributes in attribute order.  The nodes
of the subgraphs have type `α`: `Leaf` for innermost subgraphs, again `Node …` for subgraphs whose nodes own
subgraphs themselves (`NodeD d`: nesting depth at most `d`, every `d`). -/
structure Node (α : Type) where
  leaf : Leaf
  bodies : List (List α)
  deriving DecidableEq, Repr, Inhabited

/-- `ir.from_proto`: a `NodeProto` has no version field. -/
def eraseLeaf (l : Leaf) : Leaf := { l with version := none }

/-! ## Adapters -/

inductive AdaptRes
  | noAdapter                     -- registry lookup returned `None`
  | raised                        -- adapter raised `VersionConverterError`
  | retNone                       -- adapter returned `None`
  | replaced (news : List Op)     -- nodes recorded on the tape, in order
  deriving DecidableEq, Repr

/-- `dft_19_20` (since 765f1d4: the opset-19 default `axis = 1` is materialised when the attribute is absent) -/
def dft_19_20 : Op → AdaptRes
  | .dft axis inv one hasLen _ rank =>
    let a := axis.getD 1
    .replaced [.const true [a], .dft none (some (inv.getD 0)) (some (one.getD 0)) hasLen (some a) rank]
  | _ => .retNone

/-- `dft_19_20` before 765f1d4 (kept for the regression theorem only): nothing was done without an `axis` attribute. -/
def dft_19_20_prefix : Op → AdaptRes
  | .dft axis inv one hasLen _ rank =>
    match axis with
    | some a => .replaced [.const true [a], .dft none (some (inv.getD 0)) (some (one.getD 0)) hasLen (some a) rank]
    | none => .retNone
  | _ => .retNone

/-- `gridsample_19_20` -/
def gridsample_19_20 : Op → AdaptRes
  | .gridSample mode align padding =>
    let m := mode.getD "linear"
    if m == "bilinear" then
      .replaced [.gridSample (some "linear") (some (align.getD 0)) (some (padding.getD "zeros"))]
    else if m == "bicubic" then
      .replaced [.gridSample (some "cubic") (some (align.getD 0)) (some (padding.getD "zeros"))]
    else .retNone
  | _ => .retNone

/-- The nodes `groupnormalization_20_21` records when it rewrites (`k = int(num_channels / num_groups)`).
The new node carries `num_groups` and (since 71fb858) `epsilon`; the new scale/bias values have no
shape annotation. -/
def gnReplacement (n : GN) (g : Nat) : List Op :=
  let k := n.c / g
  [.const false [-1, 1], .const false [-1], .const false [1, (k : Int)],
   .plain "Reshape", .plain "Expand", .plain "Reshape",
   .plain "Reshape", .plain "Expand", .plain "Reshape",
   .groupNorm { n with sLen := g * k, bLen := g * k, sVis := .missing, bVis := .missing }]

/-- The rewritten node before 71fb858 (kept for the regression theorem only): `epsilon` was not copied. -/
def gnRewrittenPrefix (n : GN) (g : Nat) : Op :=
  .groupNorm { n with eps := none, sLen := g * (n.c / g), bLen := g * (n.c / g), sVis := .missing, bVis := .missing }

/-- The nodes the adapter records (since 090a933) when the layout of scale/bias cannot be decided statically:
each value is expanded by the run-time ratio `C / len(value)` (`Shape`, `Div`, `Concat` feed the same
`Reshape ; Expand ; Reshape`).  Run-time lengths afterwards: `len · (C / len)`. -/
def gnDynReplacement (n : GN) : List Op :=
  [.const false [-1, 1], .const false [-1], .const false [1], .plain "Shape",
   .plain "Shape", .plain "Div", .plain "Reshape", .plain "Concat", .plain "Expand", .plain "Reshape",
   .plain "Shape", .plain "Div", .plain "Reshape", .plain "Concat", .plain "Expand", .plain "Reshape",
   .groupNorm { n with sLen := n.sLen * (n.c / n.sLen), bLen := n.bLen * (n.c / n.bLen),
                       sVis := .missing, bVis := .missing }]

/-- `groupnormalization_20_21` (order of the tests as in the source, since 090a933) -/
def groupnormalization_20_21 : Op → AdaptRes
  | .groupNorm n =>
    if !(n.hasX && n.hasScale && n.hasBias) then .raised
    else match n.groups with
      | none => .raised
      | some g =>
        if !(n.xVis = .known && n.sVis = .known && n.bVis = .known) then .replaced (gnDynReplacement n)
        else if g ≠ n.c && g = n.sLen && g = n.bLen then .replaced (gnReplacement n g) else .retNone
  | _ => .retNone

/-- The adapter before 090a933 (kept for the regression theorems only): it raised when `x` had no shape and
returned `None` when the channel dimension or the shape of scale/bias was not static. -/
def groupnormalization_20_21_prefix : Op → AdaptRes
  | .groupNorm n =>
    if !(n.hasX && n.hasScale && n.hasBias) then .raised
    else if n.xVis = .missing then .raised
    else if n.xVis = .symbolic then .retNone
    else if n.sVis = .missing || n.bVis = .missing then .retNone
    else if n.sVis = .symbolic || n.bVis = .symbolic then .retNone
    else match n.groups with
      | none => .raised
      | some g =>
        if g ≠ n.c && g = n.sLen && g = n.bLen then .replaced (gnReplacement n g) else .retNone
  | _ => .retNone

/-- `registry.lookup_adapters("", op_type, from_version, True)` followed by the call. -/
def adapt (op : Op) (fromV : Nat) : AdaptRes :=
  match op with
  | .dft .. => if fromV = 19 then dft_19_20 op else .noAdapter
  | .gridSample .. => if fromV = 19 then gridsample_19_20 op else .noAdapter
  | .groupNorm .. => if fromV = 20 then groupnormalization_20_21 op else .noAdapter
  | _ => .noAdapter

/-! ## `visit_node` / `visit_graph_or_function` -/

inductive Err
  | noVersion      -- VersionConverterError "has no version"
  | refAttr        -- VersionConverterError "has ref attribute"
  | downgrade      -- VersionConverterError "Target opset … less than node version"
  | badTarget      -- ValueError: target outside [18, 25]
  | importClash    -- ValueError: "" and "ai.onnx" imports differ
  | inlineClash    -- PassError from InlinePass: function opset differs from the model's
  deriving DecidableEq, Repr

def newLeaf (o : Op) (v : Nat) : Leaf := { dflt := true, op := o, version := some v, refAttr := false }

/-- The `for from_version in range(node_version, target)` loop for a node without subgraphs:
`k` steps remain, the next one is `v → v+1`.  A replacement's new nodes are inserted after the node and
visited by the enclosing iteration starting from their version `v+1` — the same loop with `k` steps. -/
def leafSteps : Nat → Nat → Leaf → List Leaf
  | 0, _, l => [l]
  | k + 1, v, l =>
    match adapt l.op v with
    | .raised => leafSteps k (v + 1) l                                   -- caught, warning, next step
    | .noAdapter => leafSteps k (v + 1) { l with version := some (v + 1) }
    | .retNone => leafSteps k (v + 1) { l with version := some (v + 1) }
    | .replaced news => news.flatMap (fun o => leafSteps k (v + 1) (newLeaf o (v + 1)))

/-- One iteration of `for node in graph_or_function` for a node without subgraphs. -/
def visitLeaf (dfltV : Option Nat) (target : Nat) (l : Leaf) : List Leaf × Option Err :=
  if !l.dflt then ([l], none)
  else match l.version.or dfltV with
    | none => ([l], some .noVersion)
    | some nv =>
      if l.refAttr then ([l], some .refAttr)
      else if target < nv then ([l], some .downgrade)
      else (leafSteps (target - nv) nv l, none)

/-- `visit_graph_or_function` on a subgraph: stops at the first raising node, the rest is untouched. -/
def visitLeaves (dfltV : Option Nat) (target : Nat) : List Leaf → List Leaf × Option Err
  | [] => ([], none)
  | l :: rest =>
    match visitLeaf dfltV target l with
    | (out, some e) => (out ++ rest, some e)
    | (out, none) =>
      let (out', e) := visitLeaves dfltV target rest
      (out ++ out', e)

/-- What the converter needs to know about the nodes of a subgraph: how `visit_graph_or_function` acts on a
list of them (default version, target), how `from_proto` erases their version stamps, and which nodes they
contain (themselves and, recursively, the nodes of their subgraphs, in visiting order). -/
class Inner (α : Type) where
  vis : Option Nat → Nat → List α → List α × Option Err
  erase : α → α
  leaves : α → List Leaf

instance : Inner Leaf := ⟨visitLeaves, eraseLeaf, fun l => [l]⟩

section generic
variable {α : Type} [Inner α]

/-- `for attr in node.attributes.values(): visit_attribute(attr)` — bodies in order, stop at the first error. -/
def visitBodies (dfltV : Option Nat) (target : Nat) : List (List α) → List (List α) × Option Err
  | [] => ([], none)
  | b :: rest =>
    match Inner.vis dfltV target b with
    | (b', some e) => (b' :: rest, some e)
    | (b', none) =>
      let (rest', e) := visitBodies dfltV target rest
      (b' :: rest', e)

def newNode (o : Op) (v : Nat) : Node α := { leaf := newLeaf o v, bodies := [] }

/-- The step loop for a node that may own subgraphs.  On the no-replacement path the subgraphs are
visited *before* `node.version = to_version`; an error raised inside a subgraph is a
`VersionConverterError`, caught by the `try` around `visit_node`: the step ends without stamping. -/
def nodeSteps (dfltV : Option Nat) (target : Nat) : Nat → Nat → Node α → List (Node α)
  | 0, _, n => [n]
  | k + 1, v, n =>
    match adapt n.leaf.op v with
    | .raised => nodeSteps dfltV target k (v + 1) n
    | .replaced news => news.flatMap (fun o => nodeSteps dfltV target k (v + 1) (newNode o (v + 1)))
    | _ =>
      match visitBodies dfltV target n.bodies with
      | (bs, some _) => nodeSteps dfltV target k (v + 1) { n with bodies := bs }
      | (bs, none) =>
        nodeSteps dfltV target k (v + 1) { leaf := { n.leaf with version := some (v + 1) }, bodies := bs }

def visitNode (dfltV : Option Nat) (target : Nat) (n : Node α) : List (Node α) × Option Err :=
  if !n.leaf.dflt then ([n], none)
  else match n.leaf.version.or dfltV with
    | none => ([n], some .noVersion)
    | some nv =>
      if n.leaf.refAttr then ([n], some .refAttr)
      else if target < nv then ([n], some .downgrade)
      else (nodeSteps dfltV target (target - nv) nv n, none)

/-- `visit_graph_or_function` (the converter recurses: the same function is applied to subgraphs). -/
def visitGraph (dfltV : Option Nat) (target : Nat) : List (Node α) → List (Node α) × Option Err
  | [] => ([], none)
  | n :: rest =>
    match visitNode dfltV target n with
    | (out, some e) => (out ++ rest, some e)
    | (out, none) =>
      let (out', e) := visitGraph dfltV target rest
      (out ++ out', e)

def eraseNode (n : Node α) : Node α := { leaf := eraseLeaf n.leaf, bodies := n.bodies.map (·.map Inner.erase) }

/-- A node and the nodes of its subgraphs (recursively), in visiting order. -/
def Node.leaves (n : Node α) : List Leaf := n.leaf :: n.bodies.flatten.flatMap Inner.leaves

instance instInnerNode : Inner (Node α) := ⟨visitGraph, eraseNode, Node.leaves⟩

end generic

/-- Nodes of nesting depth at most `d`. -/
def NodeD : Nat → Type
  | 0 => Leaf
  | d + 1 => Node (NodeD d)

@[instance_reducible] def innerD : (d : Nat) → Inner (NodeD d)
  | 0 => inferInstanceAs (Inner Leaf)
  | d + 1 => @instInnerNode (NodeD d) (innerD d)

instance (d : Nat) : Inner (NodeD d) := innerD d

@[instance_reducible] def decEqD : (d : Nat) → DecidableEq (NodeD d)
  | 0 => inferInstanceAs (DecidableEq Leaf)
  | d + 1 => @instDecidableEqNode (NodeD d) (decEqD d)

instance (d : Nat) : DecidableEq (NodeD d) := decEqD d

/-! ## Model level -/

structure Func (α : Type) where
  declared : Option Nat     -- `opset_imports[""]`
  aionnx : Option Nat       -- `opset_imports["ai.onnx"]`
  nodes : List (Node α)
  deriving DecidableEq, Repr, Inhabited

structure Model (α : Type) where
  declared : Option Nat
  aionnx : Option Nat
  nodes : List (Node α)
  funcs : List (Func α)
  inputs : List String      -- graph inputs (names, in order)
  inits : List String       -- initializer names (insertion order)
  deriving DecidableEq, Repr, Inhabited

/-- `_get_onnx_opset_version`: `Except` models the `ValueError`; `v1 or v2`. -/
def getOnnxOpsetVersion (declared aionnx : Option Nat) : Except Err (Option Nat) :=
  match declared, aionnx with
  | some a, some b => if a ≠ b then .error .importClash else .ok (some a)
  | a, b => .ok (a.or b)

section modelLevel
variable {α : Type} [Inner α]

/-- `_set_onnx_opset_version` on a function -/
def Func.setOpset (f : Func α) (v : Nat) : Func α := { f with declared := some v, aionnx := none }
/-- `_set_onnx_opset_version` on the model -/
def Model.setOpset (m : Model α) (v : Nat) : Model α := { m with declared := some v, aionnx := none }

/-- The `for function in model.functions.values()` loop of `visit_model`. -/
def visitFuncs (dfltV : Option Nat) (target : Nat) : List (Func α) → List (Func α) × Option Err
  | [] => ([], none)
  | f :: rest =>
    match visitGraph dfltV target f.nodes with
    | (ns, some e) => ({ f with nodes := ns } :: rest, some e)
    | (ns, none) =>
      let (rest', e) := visitFuncs dfltV target rest
      (({ f with nodes := ns } : Func α).setOpset target :: rest', e)

/-- `_VersionConverter.visit_model` -/
def visitModel (target : Nat) (m : Model α) : Model α × Option Err :=
  match getOnnxOpsetVersion m.declared m.aionnx with
  | .error e => (m, some e)
  | .ok dfltV =>
    match visitGraph dfltV target m.nodes with
    | (ns, some e) => ({ m with nodes := ns }, some e)
    | (ns, none) =>
      match visitFuncs dfltV target m.funcs with
      | (fs, some e) => ({ m with nodes := ns, funcs := fs }, some e)
      | (fs, none) => (({ m with nodes := ns, funcs := fs } : Model α).setOpset target, none)

/-- `_version_converter.convert_version(model, target)` -/
def nativeConvert (target : Nat) (m : Model α) : Model α × Option Err :=
  if target > supportedMax || target < supportedMin then (m, some .badTarget)
  else visitModel target m

/-- `version_supported(model, target)` -/
def versionSupported (m : Model α) (target : Nat) : Bool :=
  match m.declared with
  | none => true
  | some cur => supportedMin ≤ cur && cur ≤ target && target ≤ supportedMax

/-! ## The public entry -/

inductive Entry | ir | proto | native
  deriving DecidableEq, Repr
/-- the `fallback` argument: `None`, `True`, `False` -/
inductive Fallback | none | yes | no
  deriving DecidableEq, Repr
/-- Python truthiness of the argument -/
def Fallback.truthy : Fallback → Bool
  | .yes => true
  | _ => false

/-- Contract of the ONNX C-API converter on the serialized model: `none` = it raised; `some ns` = the
nodes of the model it returned (declaring `target`). -/
abbrev CApi (α : Type) := Model α → Nat → Option (List (Node α))

/-- `InlinePass` (contract, A-ir) for call depth 1: a call of function `i` is replaced by that function's
nodes; a called function whose default-domain import differs from the model's makes the pass raise;
afterwards `RemoveUnusedFunctionsPass` leaves no function (every function is inlined or unused), and the
`ai.onnx` import key is normalised to `""`. -/
def inlineNodes (funcs : List (Func α)) : List (Node α) → List (Node α)
  | [] => []
  | n :: rest =>
    match n.leaf.op with
    | .call i =>
      match funcs[i]? with
      | some f => f.nodes ++ inlineNodes funcs rest
      | none => n :: inlineNodes funcs rest
    | _ => n :: inlineNodes funcs rest

def calledClash (m : Model α) : Bool :=
  m.nodes.any (fun n => match n.leaf.op with
    | .call i => match m.funcs[i]? with
      | some f => (match f.declared, m.declared with
                   | some a, some b => a != b
                   | _, _ => false)
      | none => false
    | _ => false)

/-- The inliner adds a called function's default-domain import when the model has none. -/
def firstCalledDecl (m : Model α) : Option Nat :=
  m.nodes.findSome? (fun n => match n.leaf.op with
    | .call i => (m.funcs[i]?).bind (·.declared)
    | _ => none)

/-- `RemoveUnusedOpsetsPass` drops the `ai.onnx` key (no node carries that domain string). -/
def inlineModel (m : Model α) : Except Err (Model α) :=
  if calledClash m then .error .inlineClash
  else .ok { m with nodes := inlineNodes m.funcs m.nodes, funcs := [],
                    declared := m.declared.or (firstCalledDecl m), aionnx := none }

def eraseVersions (m : Model α) : Model α :=
  { m with nodes := m.nodes.map eraseNode,
           funcs := m.funcs.map (fun f => { f with nodes := f.nodes.map eraseNode }) }

/-- `call_onnx_api` turns initializers that are not inputs into extra inputs (in initializer order). -/
def capiInputs (m : Model α) : List String := m.inputs ++ m.inits.filter (fun i => !m.inputs.contains i)

/-- The fallback branch after a successful C-API call: `from_proto`, initializer recovery loop (every
converted-graph input whose name is an original initializer is registered again), input truncation
`inputs[: len(model.graph.inputs)]`, `model.graph = converted_model.graph`. -/
def recoverFallback (m : Model α) (target : Nat) (convNodes : List (Node α)) : Model α :=
  let convInputs := capiInputs m                      -- C-API contract: inputs returned as given
  let recovered := convInputs.filter (fun i => m.inits.contains i)
  { m with declared := some target, aionnx := none,
           nodes := convNodes.map eraseNode,
           inputs := convInputs.take m.inputs.length,
           inits := recovered }

/-- `_ConvertVersionPassRequiresInline.call`.  Returns the model, the error, and whether the C API ran. -/
def requiresInlineCall (fb : Fallback) (target : Nat) (capi : CApi α) (m : Model α) : Model α × Option Err :=
  if m.declared = some target then (m, none)
  else if !fb.truthy || versionSupported m target then nativeConvert target m
  else if !fb.truthy then (m, none)
  else match capi m target with
    | none => (m, none)
    | some ns => (recoverFallback m target ns, none)

/-- `version_converter.convert_version(model, target, fallback)` for an `ir.Model` or a `ModelProto`,
and (`Entry.native`) the inner `_version_converter.convert_version`.  For the proto entry the result is
the state of the *proto*: untouched when an exception propagates, otherwise graph, functions and
`opset_import` taken from the converted IR model (node versions do not exist in a proto). -/
def convertVersionApi (e : Entry) (fb : Fallback) (target : Nat) (capi : CApi α) (m : Model α) : Model α × Option Err :=
  match e with
  | .native => nativeConvert target m
  | .ir =>
    match inlineModel m with
    | .error er => (m, some er)
    | .ok m1 => requiresInlineCall fb target capi m1
  | .proto =>
    let m0 := eraseVersions m
    match inlineModel m0 with
    | .error er => (m0, some er)
    | .ok m1 =>
      match requiresInlineCall fb target capi m1 with
      | (_, some er) => (m0, some er)
      | (m2, none) => (eraseVersions m2, none)

end modelLevel

/-! ## The scale rewrite of `groupnormalization_20_21` at tensor level (row-major lists) -/

/-- `Reshape(s, [-1, 1])`: a column of singleton rows. -/
def reshapeCol {α} (s : List α) : List (List α) := s.map (fun x => [x])
/-- `Expand(m, [1, k])` on a `g×1` matrix: the size-1 dimension is stretched to `k`. -/
def expandRows {α} (k : Nat) (m : List (List α)) : List (List α) :=
  m.map (fun row => match row with
    | [x] => List.replicate k x
    | r => r)
/-- `Reshape(m, [-1])`: row-major flattening. -/
def flattenRows {α} (m : List (List α)) : List α := m.flatten
/-- `Reshape[-1,1] ; Expand[1,k] ; Reshape[-1]` -/
def expandScale {α} (k : Nat) (s : List α) : List α := flattenRows (expandRows k (reshapeCol s))

/-! ## Specification vocabulary (what the property says about a node) -/

/-- Normal form of what a node computes, independent of the opset it is written in. -/
inductive Sem
  | plain (name : String)
  | const (scalar : Bool) (ints : List Int)
  | call (f : Nat)
  /-- interpolation in the opset->=20 vocabulary, `align_corners`, `padding_mode` -/
  | gs (interp : String) (align : Int) (pad : String)
  /-- non-negative axis, `inverse`, `onesided`, presence of `dft_length` -/
  | dft (axis : Int) (inverse onesided : Int) (hasLen : Bool)
  /-- `num_groups`, `epsilon` (text of the attribute, default `1e-05`), channels; scale and bias are laid
  out as the declared opset requires (their *contents* are related by `expandScale`, see Props) -/
  | gn (groups : Nat) (eps : String) (c : Nat)
  deriving DecidableEq, Repr

def normAxis (a : Int) (rank : Nat) : Int := if a < 0 then a + rank else a

/-- GridSample-16 vocabulary (`bilinear`/`bicubic`/`nearest`, default `bilinear`) up to opset 19,
GridSample-20 vocabulary (`linear`/`cubic`/`nearest`, default `linear`) from 20. -/
def gsInterp (mode : Option String) (v : Nat) : Option String :=
  match mode with
  | none => some "linear"
  | some m =>
    if m == "nearest" then some "nearest"
    else if v ≤ 19 then
      (if m == "bilinear" then some "linear" else if m == "bicubic" then some "cubic" else none)
    else
      (if m == "linear" then some "linear" else if m == "cubic" then some "cubic" else none)

/-- What the node means when read at opset `v` (`none`: the form is not valid at `v`).
DFT: `axis` attribute with default 1 up to opset 19, `axis` input with default -2 from 20.
GroupNormalization: scale and bias per group up to opset 20, per channel from 21. -/
def Op.meaning : Op → Nat → Option Sem
  | .plain n, _ => some (.plain n)
  | .const s is, _ => some (.const s is)
  | .call f, _ => some (.call f)
  | .gridSample mode align pad, v => (gsInterp mode v).map (fun i => .gs i (align.getD 0) (pad.getD "zeros"))
  | .dft axis inv one hasLen axisIn rank, v =>
    if v ≤ 19 then
      (if axisIn.isSome then none else some (.dft (normAxis (axis.getD 1) rank) (inv.getD 0) (one.getD 0) hasLen))
    else
      (if axis.isSome then none else some (.dft (normAxis (axisIn.getD (-2)) rank) (inv.getD 0) (one.getD 0) hasLen))
  | .groupNorm n, v =>
    match n.groups with
    | none => none
    | some g =>
      if !(n.hasX && n.hasScale && n.hasBias) then none
      else if g * (n.c / g) ≠ n.c then none          -- the channels must split evenly into the groups
      else if v ≤ 20 then
        (if n.sLen = g ∧ n.bLen = g then some (.gn g (n.eps.getD "1e-05") n.c) else none)
      else
        (if n.sLen = n.c ∧ n.bLen = n.c then some (.gn g (n.eps.getD "1e-05") n.c) else none)

/-- Nodes an adapter inserts to feed the rewritten node (they carry no meaning of their own). -/
def Op.isAux : Op → Bool
  | .const _ _ => true
  | .plain n => n == "Reshape" || n == "Expand" || n == "Shape" || n == "Div" || n == "Concat"
  | _ => false

/-- Meanings (under `μ`, read at opset `v`) of the non-auxiliary operators of a list, in order. -/
def pmOps {β} (μ : Op → Nat → β) (v : Nat) : List Op → List β
  | [] => []
  | o :: os => if o.isAux then pmOps μ v os else μ o v :: pmOps μ v os

/-- One conversion step `v → v+1` on `op` is *good* for `μ`: the adapter does not raise, and what it
leaves (the node itself, or the replacement's non-auxiliary nodes) reads at `v+1` as `op` read at `v`. -/
def Good {β} (μ : Op → Nat → β) (op : Op) (v : Nat) : Prop :=
  match adapt op v with
  | .raised => False
  | .noAdapter => True
  | .retNone => μ op (v + 1) = μ op v
  | .replaced news => pmOps μ (v + 1) news = pmOps μ v [op]

/-- Steps without an adapter do not change the reading. -/
def Mono {β} (μ : Op → Nat → β) : Prop := ∀ op v, adapt op v = .noAdapter → μ op (v + 1) = μ op v

/-- The version a node is read at: its own stamp, else the declared opset. -/
def Leaf.eff (l : Leaf) (declared : Nat) : Nat :=
  match l.version with
  | some v => v
  | none => declared

/-- The opset a node is read at under the declared default-domain opset `d`: its effective version;
a custom-domain node is not versioned by the default-domain import at all (fixed pseudo-version 0). -/
def Leaf.readAt (l : Leaf) (d : Nat) : Nat := if l.dflt then l.eff d else 0

/-- Meanings of the non-auxiliary nodes of a list, each read at the opset it is written for. -/
def pmLeaves {β} (μ : Op → Nat → β) (d : Nat) : List Leaf → List β
  | [] => []
  | l :: ls => if l.op.isAux then pmLeaves μ d ls else μ l.op (l.readAt d) :: pmLeaves μ d ls

def pmNodes {β α} [Inner α] (μ : Op → Nat → β) (d : Nat) (ns : List (Node α)) : List β :=
  pmLeaves μ d (ns.flatMap Node.leaves)

/-- What the theorems ask of a node of a model declaring `s` that is converted to `t`:
no reference attribute, effective version at most `t`, every step from there to `t` good for `μ`. -/
structure LeafPre {β} (μ : Op → Nat → β) (s t : Nat) (l : Leaf) : Prop where
  noRef : l.dflt = true → l.refAttr = false
  le : l.dflt = true → l.eff s ≤ t
  good : l.dflt = true → ∀ v', l.eff s ≤ v' → v' < t → Good μ l.op v'

/-- Nodes with subgraphs are control-flow operators (no adapter is registered for them).  `P` is the
corresponding requirement on the nodes of the subgraphs (`LeafPre`, or `NodePre` again: `PreD`). -/
structure NodePre {β α} [Inner α] (μ : Op → Nat → β) (s t : Nat) (P : α → Prop) (n : Node α) : Prop where
  leaf : LeafPre μ s t n.leaf
  ctrl : n.bodies ≠ [] → ∃ name, n.leaf.op = .plain name
  bodies : ∀ b ∈ n.bodies, ∀ a ∈ b, P a
  /-- the converter never looks into a custom-domain node: it must not hide ONNX operators -/
  customFlat : n.leaf.dflt = false → n.bodies = []
  /-- a node and the nodes of its subgraphs (at every depth) are written for the same opset -/
  sameEff : n.leaf.dflt = true → ∀ b ∈ n.bodies, ∀ a ∈ b, ∀ l ∈ Inner.leaves a, l.dflt = true → l.eff s = n.leaf.eff s

/-- `NodePre` at every nesting depth. -/
def PreD {β} (μ : Op → Nat → β) (s t : Nat) : (d : Nat) → NodeD d → Prop
  | 0 => fun l => LeafPre μ s t l
  | d + 1 => fun n => NodePre (α := NodeD d) μ s t (PreD μ s t d) n

/-- A node of a self-consistent model declaring `s` (the inputs the property quantifies over): written
for `s` (stamp unset or `s`), no reference attribute, and every step from `s` upwards good for `μ`
(for `μ = fun _ _ => ()` this is `AdaptersTotal`: no adapter raises). -/
structure SrcLeaf {β} (μ : Op → Nat → β) (s : Nat) (l : Leaf) : Prop where
  ver : l.dflt = true → l.eff s = s
  noRef : l.dflt = true → l.refAttr = false
  good : l.dflt = true → ∀ v', s ≤ v' → Good μ l.op v'

structure SrcNode {β α} (μ : Op → Nat → β) (s : Nat) (Q : α → Prop) (n : Node α) : Prop where
  leaf : SrcLeaf μ s n.leaf
  ctrl : n.bodies ≠ [] → ∃ name, n.leaf.op = .plain name
  bodies : ∀ b ∈ n.bodies, ∀ a ∈ b, Q a
  customFlat : n.leaf.dflt = false → n.bodies = []

/-- `SrcNode` at every nesting depth. -/
def SrcD {β} (μ : Op → Nat → β) (s : Nat) : (d : Nat) → NodeD d → Prop
  | 0 => fun l => SrcLeaf μ s l
  | d + 1 => fun n => SrcNode (α := NodeD d) μ s (SrcD μ s d) n

/-- The model handed to `_ConvertVersionPassRequiresInline` (functions already inlined); its nodes own
subgraphs of nesting depth at most `d`. -/
structure SelfConsistent {β} (μ : Op → Nat → β) (s : Nat) {d : Nat} (m : Model (NodeD d)) : Prop where
  declared : m.declared = some s
  noAi : m.aionnx = none
  inlined : m.funcs = []
  nodes : ∀ n ∈ m.nodes, SrcD μ s (d + 1) n

/-- A node of a *valid* model declaring `s`: written for `s`, no reference attribute, and a valid operator
form at the opset it is read at.  Nothing is asked of the adapters. -/
structure ValidLeaf (s : Nat) (l : Leaf) : Prop where
  ver : l.dflt = true → l.eff s = s
  noRef : l.dflt = true → l.refAttr = false
  valid : (l.op.meaning (l.readAt s)).isSome

structure ValidNode {α} (s : Nat) (Q : α → Prop) (n : Node α) : Prop where
  leaf : ValidLeaf s n.leaf
  ctrl : n.bodies ≠ [] → ∃ name, n.leaf.op = .plain name
  bodies : ∀ b ∈ n.bodies, ∀ a ∈ b, Q a
  customFlat : n.leaf.dflt = false → n.bodies = []

def ValidD (s : Nat) : (d : Nat) → NodeD d → Prop
  | 0 => fun l => ValidLeaf s l
  | d + 1 => fun n => ValidNode (α := NodeD d) s (ValidD s d) n

/-- The inputs the property quantifies over: a valid, self-consistent model at opset `s` (after inlining). -/
structure ValidModel (s : Nat) {d : Nat} (m : Model (NodeD d)) : Prop where
  declared : m.declared = some s
  noAi : m.aionnx = none
  inlined : m.funcs = []
  nodes : ∀ n ∈ m.nodes, ValidD s (d + 1) n

/-- A GroupNormalization node has its three inputs and its `num_groups` attribute (the only thing an adapter
ever raises about: `adapter_raises_iff`). -/
def WellFormedGN (op : Op) : Prop :=
  ∀ n, op = .groupNorm n → (n.hasX = true ∧ n.hasScale = true ∧ n.hasBias = true) ∧ n.groups ≠ none

/-- Purely structural description of a self-consistent model: written for `s`, no reference attribute, `P` of every
default-domain operator; control-flow nodes own the subgraphs; custom-domain nodes own none. -/
structure ShapeLeaf (P : Op → Prop) (s : Nat) (l : Leaf) : Prop where
  ver : l.dflt = true → l.eff s = s
  noRef : l.dflt = true → l.refAttr = false
  op : l.dflt = true → P l.op

structure ShapeNode {α} (P : Op → Prop) (s : Nat) (Q : α → Prop) (n : Node α) : Prop where
  leaf : ShapeLeaf P s n.leaf
  ctrl : n.bodies ≠ [] → ∃ name, n.leaf.op = .plain name
  bodies : ∀ b ∈ n.bodies, ∀ a ∈ b, Q a
  customFlat : n.leaf.dflt = false → n.bodies = []

def ShapeD (P : Op → Prop) (s : Nat) : (d : Nat) → NodeD d → Prop
  | 0 => fun l => ShapeLeaf P s l
  | d + 1 => fun n => ShapeNode (α := NodeD d) P s (ShapeD P s d) n

structure ShapeModel (P : Op → Prop) (s : Nat) {d : Nat} (m : Model (NodeD d)) : Prop where
  declared : m.declared = some s
  noAi : m.aionnx = none
  inlined : m.funcs = []
  nodes : ∀ n ∈ m.nodes, ShapeD P s (d + 1) n

/-- Every default-domain node of the model (subgraphs of every depth included) is written for `t`. -/
def AllAt {α} [Inner α] (t : Nat) (ns : List (Node α)) : Prop :=
  ∀ n ∈ ns, ∀ l ∈ n.leaves, l.dflt = true → l.eff t = t

end OV.C10
