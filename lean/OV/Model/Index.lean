/-
  OV.Model.Index — C11: tensor indexing / slicing.

  Core Lean only.  Three independent pieces, related only by theorems (Props/C11.lean)
  and by the correspondence check (harness/c11.py):

  * NumPy / CPython basic indexing             (`pyAdjust`, `pySliceList`, `numpyIndex`)
  * ONNX operator semantics Slice/Squeeze/Gather (`onnxNorm`, `onnxSliceList`, `opSlice`, …)
  * the two front ends of onnxscript, transcribed:
      `planGraph`  = Converter._translate_subscript_expr   (onnxscript/_internal/converter.py)
      `planEager`  = Tensor.__getitem__                     (onnxscript/tensor.py)

  A tensor is never materialised in the model: an indexing result is a *view*, one
  `AxisMap` per source axis, saying which source positions each output position reads.
-/
namespace OV.Index

/-! ## Integer level: slice bound normalisation -/

def maxint : Int := 9223372036854775807
def minint : Int := -9223372036854775808

/-- CPython `PySlice_AdjustIndices` (together with the `None` defaults of
`PySlice_Unpack`), unbounded integers.  `step ≠ 0` is the caller's obligation. -/
def pyAdjust (d : Int) (lo hi : Option Int) (step : Int) : Int × Int :=
  let start :=
    match lo with
    | none => if step < 0 then d - 1 else 0
    | some s =>
      if s < 0 then (if s + d < 0 then (if step < 0 then -1 else 0) else s + d)
      else (if s ≥ d then (if step < 0 then d - 1 else d) else s)
  let stop :=
    match hi with
    | none => if step < 0 then -1 else d
    | some s =>
      if s < 0 then (if s + d < 0 then (if step < 0 then -1 else 0) else s + d)
      else (if s ≥ d then (if step < 0 then d - 1 else d) else s)
  (start, stop)

/-- ONNX `Slice` (opset 13) normalisation of one axis, from the operator specification:
negative values get `d` added once; then for positive steps both are clamped to `[0,d]`,
for negative steps `start` is clamped to `[0,d-1]` and `end` to `[-1,d-1]`. -/
def onnxNorm (d : Int) (start stop step : Int) : Int × Int :=
  let s := if start < 0 then start + d else start
  let e := if stop < 0 then stop + d else stop
  if step < 0 then
    (max 0 (min s (d - 1)), max (-1) (min e (d - 1)))
  else
    (max 0 (min s d), max 0 (min e d))

/-- Bounds the converter feeds to `Slice` for constant bounds (`translate_slice`):
defaults `0 / maxint` for a positive step, `maxint / minint` for a negative one. -/
def convBounds (lo hi : Option Int) (step : Int) : Int × Int :=
  if step > 0 then (lo.getD 0, hi.getD maxint) else (lo.getD maxint, hi.getD minint)

/-- Number of elements of a normalised `(start, stop, step)` range (`PySlice_AdjustIndices`'
return value / ONNX output dim: `ceil((stop-start)/step)` clipped at 0). -/
def sliceLen (start stop step : Int) : Nat :=
  if step > 0 then
    (if start < stop then ((stop - start - 1) / step + 1).toNat else 0)
  else if step < 0 then
    (if stop < start then ((start - stop - 1) / (-step) + 1).toNat else 0)
  else 0

/-- Bounds eager mode feeds to `Slice` (`Tensor.__getitem__`, after the repair of the eager half
of finding D22): the slice is normalised with `slice.indices(d)` — which is `pyAdjust` —, then
rewritten in ONNX Slice's conventions: an empty selection becomes `0:0`, and the stop `-1` of a
negative step ("before the first element") becomes `-(d+1)`. -/
def eagerBounds (d : Int) (lo hi : Option Int) (step : Int) : Int × Int :=
  let p := pyAdjust d lo hi step
  if sliceLen p.1 p.2 step = 0 then (0, 0)
  else if p.2 < 0 then (p.1, -(d + 1))
  else p

/-! ## List level -/

/-- The elements `l[start], l[start+step], …` (`n` of them); out-of-range reads are dropped
(they never happen for normalised bounds — theorem `enumerate_inrange`). -/
def enumerate {α} (l : List α) (start step : Int) : Nat → List α
  | 0 => []
  | n + 1 =>
    (if 0 ≤ start then (l[start.toNat]?).toList else [])
      ++ enumerate l (start + step) step n

def pySliceList {α} (l : List α) (lo hi : Option Int) (step : Int) : List α :=
  let (s, e) := pyAdjust l.length lo hi step
  enumerate l s step (sliceLen s e step)

def onnxSliceList {α} (l : List α) (start stop step : Int) : List α :=
  let (s, e) := onnxNorm l.length start stop step
  enumerate l s step (sliceLen s e step)

/-! ## Views -/

inductive AxisMap where
  | drop (src : Nat)            -- axis removed; reads source position `src`
  | pick (srcs : List Nat)      -- axis kept; output position k reads source position srcs[k]
  deriving Repr, DecidableEq, BEq

abbrev View := List AxisMap

def View.init (shape : List Nat) : View := shape.map (fun d => .pick (List.range d))

def AxisMap.isPick : AxisMap → Bool
  | .pick _ => true
  | .drop _ => false

def View.rank (v : View) : Nat := (v.filter AxisMap.isPick).length

def View.shape (v : View) : List Nat :=
  v.filterMap (fun a => match a with | .pick s => some s.length | .drop _ => none)

inductive Err where
  | indexError      -- NumPy IndexError / ONNX runtime failure on out-of-range or bad squeeze
  | valueError      -- zero step, too many indices (eager)
  | refused         -- front end refuses the form (translation-time / TypeError)
  | unmodelled      -- NumPy form whose result order a `View` cannot express
  deriving Repr, DecidableEq, BEq

/-- Apply `f` to the `k`-th *kept* axis (current output numbering). -/
def modifyPick (k : Nat) (f : List Nat → Except Err AxisMap) : View → Except Err View
  | [] => .error .indexError
  | .drop s :: rest => do let r ← modifyPick k f rest; pure (.drop s :: r)
  | .pick srcs :: rest =>
    match k with
    | 0 => do let a ← f srcs; pure (a :: rest)
    | k + 1 => do let r ← modifyPick k f rest; pure (.pick srcs :: r)

def normIdx (n : Nat) (i : Int) : Option Nat :=
  if 0 ≤ i ∧ i < n then some i.toNat
  else if i < 0 ∧ -(n : Int) ≤ i then some (i + n).toNat
  else none

/-! ### ONNX operators on views -/

structure SliceEntry where
  axis : Nat
  start : Int
  stop : Int
  step : Int
  deriving Repr, DecidableEq, BEq

/-- ONNX Slice: every listed axis is sliced independently (axes are distinct in every plan
the front ends emit; for a repeated axis the first entry is used, cf. spec "behaviour is
undefined if an axis is repeated"). A zero step is a runtime error. -/
def lookupSlice (entries : List SliceEntry) (k : Nat) (srcs : List Nat) : List Nat :=
  match entries.find? (fun e => e.axis == k) with
  | some e => onnxSliceList srcs e.start e.stop e.step
  | none => srcs

def opSlice (entries : List SliceEntry) (v : View) : Except Err View :=
  if entries.any (fun e => e.step == 0) then .error .valueError
  else if entries.any (fun e => decide (e.axis ≥ v.rank)) then .error .indexError
  else
    -- walk the view, numbering kept axes
    let rec go (k : Nat) : View → View
      | [] => []
      | .drop s :: rest => .drop s :: go k rest
      | .pick srcs :: rest => .pick (lookupSlice entries k srcs) :: go (k + 1) rest
    .ok (go 0 v)

/-- The single selected position of an axis that is being squeezed (extent must be 1). -/
def single? (srcs : List Nat) : Except Err Nat :=
  match srcs with
  | [s] => .ok s
  | _ => .error .indexError

/-- ONNX Squeeze with explicit axes: every listed axis must have extent 1. -/
def opSqueeze (axes : List Nat) (v : View) : Except Err View :=
  if axes.any (fun a => decide (a ≥ v.rank)) then .error .indexError
  else
    let rec go (k : Nat) : View → Except Err View
      | [] => .ok []
      | .drop s :: rest => do let r ← go k rest; pure (.drop s :: r)
      | .pick srcs :: rest =>
        if axes.contains k then do
          let s ← single? srcs
          let r ← go (k + 1) rest
          pure (.drop s :: r)
        else do let r ← go (k + 1) rest; pure (.pick srcs :: r)
    go 0 v

/-- ONNX Gather with a rank-0 index: the axis disappears. -/
def opGatherScalar (axis : Nat) (i : Int) (v : View) : Except Err View :=
  modifyPick axis (fun srcs =>
    match normIdx srcs.length i with
    | some k => (match srcs[k]? with | some s => .ok (.drop s) | none => .error .indexError)
    | none => .error .indexError) v

/-- ONNX Gather with a 1-D index: the axis is replaced by the gathered positions. -/
def opGatherVec (axis : Nat) (is : List Int) (v : View) : Except Err View :=
  modifyPick axis (fun srcs =>
    let picked := is.map (fun i => (normIdx srcs.length i).bind (fun k => srcs[k]?))
    if picked.all Option.isSome then .ok (.pick (picked.filterMap id)) else .error .indexError) v

/-! ## Index expressions -/

/-- A slice bound or step: absent, a Python int constant, or a tensor-valued expression
(`dyn`, with the value it has at run time). -/
inductive Bnd where
  | none
  | const (i : Int)
  | dyn (i : Int)
  deriving Repr, DecidableEq, BEq

def Bnd.val? : Bnd → Option Int
  | .none => Option.none
  | .const i => some i
  | .dyn i => some i

inductive Comp where
  | full
  | int (i : Int)
  | slice (lo hi step : Bnd)
  | tScalar (v : Int)
  | tVec (vs : List Int)
  deriving Repr, DecidableEq, BEq

def Comp.isAdvanced : Comp → Bool
  | .int _ | .tScalar _ | .tVec _ => true
  | _ => false

def Comp.isVec : Comp → Bool
  | .tVec _ => true
  | _ => false

/-! ### NumPy -/

def numpyAxis (c : Comp) (srcs : List Nat) : Except Err AxisMap :=
  match c with
  | .full => .ok (.pick srcs)
  | .int i | .tScalar i =>
    (match normIdx srcs.length i with
     | some k => (match srcs[k]? with | some s => .ok (.drop s) | none => .error .indexError)
     | none => .error .indexError)
  | .slice lo hi st =>
    let step := (st.val?).getD 1
    if step == 0 then .error .valueError
    else .ok (.pick (pySliceList srcs lo.val? hi.val? step))
  | .tVec is =>
    let picked := is.map (fun i => (normIdx srcs.length i).bind (fun k => srcs[k]?))
    if picked.all Option.isSome then .ok (.pick (picked.filterMap id)) else .error .indexError

/-- Does NumPy move the broadcast (advanced-index) axis to the front in a way that changes
the axis order?  True iff there is a 1-D index, the advanced indices are not adjacent,
and a kept (slice/full) axis precedes the 1-D index. -/
def needsTranspose (comps : List Comp) : Bool :=
  let idx := comps.zipIdx
  let adv := idx.filter (fun p => p.1.isAdvanced)
  match adv.head?, adv.getLast? with
  | some f, some l =>
    let adjacent := (adv.length == l.2 - f.2 + 1)
    let vecPos := (idx.filter (fun p => p.1.isVec)).map (·.2)
    match vecPos with
    | [p] => !adjacent && (idx.any (fun q => !q.1.isAdvanced && q.2 < p))
    | _ => false
  | _, _ => false

/-- Apply a per-axis function to the leading axes (one per component); trailing axes are kept. -/
def axiswise (f : Comp → List Nat → Except Err AxisMap) : List Comp → List Nat → Except Err View
  | [], ds => .ok (View.init ds)
  | _ :: _, [] => .error .indexError
  | c :: cs, d :: ds => do
    let a ← f c (List.range d)
    let r ← axiswise f cs ds
    pure (a :: r)

def numpyIndex (comps : List Comp) (shape : List Nat) : Except Err View :=
  if comps.length > shape.length then .error .indexError
  else if (comps.filter Comp.isVec).length > 1 then .error .unmodelled
  else if needsTranspose comps then .error .unmodelled
  else axiswise numpyAxis comps shape

/-- A NumPy result whose axis order a plain `View` cannot express: the per-axis maps plus, when
NumPy moves the broadcast (advanced-index) axis to the front, the source position of that axis. -/
structure NView where
  view : View
  front : Option Nat
  deriving Repr, DecidableEq

/-- The source position of the (single) 1-D index when NumPy moves its axis to the front. -/
def frontOf (comps : List Comp) : Option Nat :=
  if needsTranspose comps then ((comps.zipIdx.filter (fun p => p.1.isVec)).map (·.2)).head? else none

/-- Output shape of a NumPy result: the moved axis first, the other kept axes in source order. -/
def NView.shape (n : NView) : List Nat :=
  match n.front with
  | none => n.view.shape
  | some p =>
    (match n.view[p]? with
     | some (.pick srcs) => srcs.length :: View.shape (n.view.eraseIdx p)
     | _ => n.view.shape)

/-- NumPy indexing with the axis order made explicit: every expression with at most one 1-D index
is covered — the advanced indices (ints, rank-0 tensors, the 1-D index) being separated by a slice
makes NumPy put the broadcast axis first (`X[0, :, I]`).  Two or more 1-D indices (zip/broadcast
semantics) stay `unmodelled`. -/
def numpyIndexT (comps : List Comp) (shape : List Nat) : Except Err NView :=
  if comps.length > shape.length then .error .indexError
  else if (comps.filter Comp.isVec).length > 1 then .error .unmodelled
  else do
    let v ← axiswise numpyAxis comps shape
    pure ⟨v, frontOf comps⟩

/-! ### Plans -/

inductive PlanOp where
  | identity
  | slice (entries : List SliceEntry)
  | squeeze (axes : List Nat)
  | npSqueeze (axes : List Nat)          -- eager: numpy squeeze on the result
  | gatherScalar (axis : Nat) (i : Int)
  | gatherVec (axis : Nat) (is : List Int)
  deriving Repr, DecidableEq, BEq

abbrev Plan := List PlanOp

def runOp (op : PlanOp) (v : View) : Except Err View :=
  match op with
  | .identity => .ok v
  | .slice es => opSlice es v
  | .squeeze axes => opSqueeze axes v
  | .npSqueeze axes => opSqueeze axes v
  | .gatherScalar a i => opGatherScalar a i v
  | .gatherVec a is => opGatherVec a is v

def runPlan (p : Plan) (v : View) : Except Err View :=
  p.foldlM (fun v op => runOp op v) v

/-- The classification of `_translate_subscript_expr`'s first loop. -/
inductive Kind where
  | skip | sliced | scalar | nonScalar
  deriving Repr, DecidableEq, BEq

def Comp.kind : Comp → Kind
  | .full => .skip
  | .slice .none .none .none => .skip
  | .slice _ _ _ => .sliced
  | .int _ => .scalar
  | .tScalar _ | .tVec _ => .nonScalar

/-- A scalar index `i` routed through Slice + Squeeze is the slice `i:i+1:1` — except `i = -1`,
whose end would be 0 (nothing selected): there the end is "to the end" (`dflt`: the int64
maximum in the converter, which does not know the dimension; the dimension in eager mode). -/
def scalarStop (i dflt : Int) : Int := if i = -1 then dflt else i + 1

/-- `translate_slice` for one component; `none` = the converter raises. -/
def convSliceEntry (axis : Nat) (lo hi st : Bnd) : Option SliceEntry :=
  match st with
  | .dyn s =>
    -- step direction unknown: omitted bounds are refused
    (match lo.val?, hi.val? with
     | some l, some h => some ⟨axis, l, h, s⟩
     | _, _ => Option.none)
  | _ =>
    let step := (st.val?).getD 1
    let (s, e) := convBounds lo.val? hi.val? step
    some ⟨axis, s, e, step⟩

def gatherOp (axis : Nat) : Comp → Option PlanOp
  | .int i | .tScalar i => some (.gatherScalar axis i)
  | .tVec is => some (.gatherVec axis is)
  | _ => Option.none

/-- What the Slice path registers for a component at axis `j`: a (non-trivial) slice gives
`translate_slice`'s entry, a Python int `i` gives `i:i+1:1` (`-1:maxint:1` for `i = -1`). -/
def entryOf (c : Comp) (j : Nat) : Option SliceEntry :=
  match c with
  | .slice lo hi st =>
    if lo = .none ∧ hi = .none ∧ st = .none then Option.none
    else convSliceEntry j lo hi st
  | .int i => some ⟨j, i, scalarStop i maxint, 1⟩
  | _ => Option.none

def slicedOf (comps : List Comp) : List (Comp × Nat) := comps.zipIdx.filter (fun p => p.1.kind == .sliced)
def scalarsOf (comps : List Comp) : List (Comp × Nat) := comps.zipIdx.filter (fun p => p.1.kind == .scalar)
def nonScalarsOf (comps : List Comp) : List (Comp × Nat) := comps.zipIdx.filter (fun p => p.1.kind == .nonScalar)

/-- "We emit a Slice operation if we have any indices like 1:5:2 or if the number of scalar
indices (like 2) is more than 1." -/
def useSlice (comps : List Comp) : Bool :=
  !(slicedOf comps).isEmpty || decide ((scalarsOf comps).length > 1)

/-- Entries in the code's order: sliced components first, then the scalar ones. -/
def sliceEntriesOf (comps : List Comp) : List (Option SliceEntry) :=
  (slicedOf comps ++ scalarsOf comps).map (fun p => entryOf p.1 p.2)

/-- Components translated to `Gather` when the Slice path is *not* taken: the tensor-valued ones
and the (at most one) Python int. -/
def gatheredOf (comps : List Comp) : List (Comp × Nat) :=
  comps.zipIdx.filter (fun p => p.1.kind == .nonScalar || p.1.kind == .scalar)

/-- The axis attribute of a `Gather` for source axis `j`: the axes in `removed` (squeezed before the
Gather chain starts) that lie below `j` have already disappeared from the intermediate result
(`axis - sum(1 for a in removed_axes if a < axis)`). -/
def gatherAxis (removed : List Nat) (j : Nat) : Nat :=
  j - (removed.filter (fun a => decide (a < j))).length

/-- The trailing Gather chain.  `items` come in ascending axis order; the code sorts them with
`sort(key=axis, reverse=True)`, i.e. (axes being distinct) highest axis first, so that a rank-0
Gather never renumbers an axis that is still to be indexed. -/
def gatherChain (removed : List Nat) (items : List (Comp × Nat)) : Plan :=
  items.reverse.filterMap (fun p => gatherOp (gatherAxis removed p.2) p.1)

/-- `Converter._translate_subscript_expr` (after /repo commit e7769b9, the repair of finding D7). -/
def planGraph (comps : List Comp) : Except Err Plan :=
  -- `A[:]`, `A[:, :]`: edge case, no index specified: one Identity node.  (Before /repo commit 35a0ff1
  -- the code passed the *name* (a `str`) to `_emit1` and decoration died with AttributeError.)
  if (slicedOf comps).isEmpty && (scalarsOf comps).isEmpty && (nonScalarsOf comps).isEmpty then
    .ok [.identity]
  else if useSlice comps then
    if (sliceEntriesOf comps).any Option.isNone then .error .refused
    else
      -- `removed_axes = list(squeezed_axes)`
      let squeezed := (scalarsOf comps).map (·.2)
      .ok ([PlanOp.slice ((sliceEntriesOf comps).filterMap id)]
            ++ (if squeezed.isEmpty then [] else [PlanOp.squeeze squeezed])
            ++ gatherChain squeezed (nonScalarsOf comps))
  else
    -- `non_scalar_indices.extend(scalar_indices)` then the stable descending sort by axis: since the
    -- axes are distinct this is "all Gather-translated components, highest axis first";
    -- `removed_axes` is empty.  (The plan correspondence re-checks the order on every run.)
    .ok (gatherChain [] (gatheredOf comps))

/-! ### Eager mode (`Tensor.__getitem__`), in the code's own pieces -/

def Comp.isEagerScalar : Comp → Bool
  | .int _ | .tScalar _ => true
  | _ => false

def Comp.isEagerSliced : Comp → Bool
  | .slice lo hi st => !(decide (lo = .none ∧ hi = .none ∧ st = .none))
  | _ => false

def Comp.stepVal : Comp → Int
  | .slice _ _ st => (st.val?).getD 1
  | _ => 1

def Comp.scalarVal : Comp → Int
  | .int i | .tScalar i => i
  | _ => 0

/-- What eager mode registers for a component at axis `j` of extent `d`: a (non-trivial) slice
gives `[start, stop, axis, step]` with `eagerBounds` (a zero step never gets here: `planEager`
refuses it first, as `slice.indices` does); a rank-0 index `i` gives `i:i+1:1` (`-1:d:1` for `i = -1`). -/
def entryOfEager (c : Comp) (j : Nat) (d : Nat) : Option SliceEntry :=
  match c with
  | .slice lo hi st =>
    if lo = .none ∧ hi = .none ∧ st = .none then Option.none
    else
      let step := (st.val?).getD 1
      some ⟨j, (eagerBounds d lo.val? hi.val? step).1, (eagerBounds d lo.val? hi.val? step).2, step⟩
  | .int i | .tScalar i => some ⟨j, i, scalarStop i d, 1⟩
  | _ => Option.none

def eSlicedOf (comps : List Comp) : List (Comp × Nat) := comps.zipIdx.filter (fun p => p.1.isEagerSliced)
def eScalarsOf (comps : List Comp) : List (Comp × Nat) := comps.zipIdx.filter (fun p => p.1.isEagerScalar)
def eVecsOf (comps : List Comp) : List (Comp × Nat) := comps.zipIdx.filter (fun p => p.1.isVec)

/-- `sliced_indices + scalar_indices`, in the code's order. -/
def eagerEntriesOf (comps : List Comp) (shape : List Nat) : List SliceEntry :=
  (eSlicedOf comps ++ eScalarsOf comps).filterMap (fun p => entryOfEager p.1 p.2 (shape.getD p.2 0))

/-- `Tensor.__getitem__` for a tensor of the given shape (after /repo commit e7769b9).  Python ints
are promoted to rank-0 tensors first, so `int` and `tScalar` are the same thing here.  The 1-D
indices are gathered last, in ascending axis order, each with
`axis - sum(1 for a in to_squeeze if a < axis)`: the rank-0-indexed axes are gone by then
(a 1-D Gather keeps its axis, so the order among them does not matter). -/
def planEager (comps : List Comp) (shape : List Nat) : Except Err Plan :=
  if comps.length > shape.length then .error .valueError
  -- `slice.indices` raises ValueError("slice step cannot be zero") while the index is being read
  else if comps.any (fun c => c.isEagerSliced && c.stepVal == 0) then .error .valueError
  else if (eSlicedOf comps).isEmpty && (eScalarsOf comps).isEmpty && (eVecsOf comps).isEmpty then
    .ok [.identity]
  else
    let toSqueeze := (eScalarsOf comps).map (·.2)
    let pre : Plan :=
      if (eSlicedOf comps).isEmpty && (eScalarsOf comps).length == 1 then
        (eScalarsOf comps).map (fun p => .gatherScalar p.2 p.1.scalarVal)
      else if !(eSlicedOf comps).isEmpty || !(eScalarsOf comps).isEmpty then
        [.slice (eagerEntriesOf comps shape)]
        ++ (if (eScalarsOf comps).isEmpty then [] else [.npSqueeze toSqueeze])
      else []
    .ok (pre ++ (eVecsOf comps).filterMap (fun p => gatherOp (gatherAxis toSqueeze p.2) p.1))

/-- Per-axis effect of eager mode's Slice(+squeeze) path on an axis of the original tensor. -/
def eagerAxisSlicePath (c : Comp) (srcs : List Nat) : Except Err AxisMap :=
  match c with
  | .full => .ok (.pick srcs)
  | .slice lo hi st =>
    if lo = .none ∧ hi = .none ∧ st = .none then .ok (.pick srcs)
    else
      let step := (st.val?).getD 1
      if step == 0 then .error .valueError
      else .ok (.pick (onnxSliceList srcs (eagerBounds srcs.length lo.val? hi.val? step).1
                          (eagerBounds srcs.length lo.val? hi.val? step).2 step))
  | .int i | .tScalar i => do
    let s ← single? (onnxSliceList srcs i (scalarStop i srcs.length) 1)
    pure (.drop s)
  | _ => .error .refused

deriving instance DecidableEq for Except

/-- Per-axis effect of the converter's Slice(+Squeeze) path on a component it handles: a slice
becomes an ONNX slice with `convBounds` (with a tensor-valued step the direction is unknown at
translation time, so both bounds must be written out and are passed as they are; otherwise the
form is refused), a Python int `i` becomes `i:i+1:1` followed by Squeeze (which fails unless
exactly one position was selected). -/
def graphAxisSlicePath (c : Comp) (srcs : List Nat) : Except Err AxisMap :=
  match c with
  | .full => .ok (.pick srcs)
  | .slice lo hi st =>
    if lo = .none ∧ hi = .none ∧ st = .none then .ok (.pick srcs)  -- "::" is a no-op (kind `skip`)
    else
    (match st with
     | .dyn s =>
       (match lo.val?, hi.val? with
        | some l, some h =>
          if s == 0 then .error .valueError else .ok (.pick (onnxSliceList srcs l h s))
        | _, _ => .error .refused)
     | _ =>
       let step := (st.val?).getD 1
       if step == 0 then .error .valueError
       else .ok (.pick (onnxSliceList srcs (convBounds lo.val? hi.val? step).1
                          (convBounds lo.val? hi.val? step).2 step)))
  | .int i => do
    let s ← single? (onnxSliceList srcs i (scalarStop i maxint) 1)
    pure (.drop s)
  | _ => .error .refused

/-- Whole pipelines: `graphIndex` / `eagerIndex` give the view the front end computes. -/
def graphIndex (comps : List Comp) (shape : List Nat) : Except Err View := do
  let p ← planGraph comps
  runPlan p (View.init shape)

def eagerIndex (comps : List Comp) (shape : List Nat) : Except Err View := do
  let p ← planEager comps shape
  runPlan p (View.init shape)

end OV.Index
