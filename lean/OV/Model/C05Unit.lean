/-!
# C05 — unit-law rules (`_no_op.py`) and the matcher's literal tolerance (`_pattern_ir.Constant`,
`_matcher._match_constant`), dropout rules, zero-bias removal.

`x + 0`, `x * 1` (both operand orders: `.commute()`), `x - 0`, `x / 1` → `Identity(x)`.
The pattern literal becomes `Constant(v, rel_tol=1e-5, abs_tol=1e-8)`; `_match_constant` demands a
constant value (`value.const_value is not None` — true for every initializer, *also one that is a graph
input*), `ndim == 0`, and `math.isclose(item, v, rel_tol, abs_tol)`.  Core Lean only (`Rat` is core).
-/
namespace OV.C05.Unit

def absR (q : Rat) : Rat := if q < 0 then -q else q
def maxR (a b : Rat) : Rat := if a < b then b else a

/-- CPython `math.isclose(a, b, rel_tol, abs_tol)` on finite values, exact arithmetic. -/
def isclose (a b rel abs : Rat) : Bool :=
  if a = b then true
  else
    let diff := absR (b - a)
    decide (diff ≤ absR (rel * b)) || decide (diff ≤ absR (rel * a)) || decide (diff ≤ abs)

def relTol : Rat := 1 / 100000
def absTol : Rat := 1 / 100000000

inductive Op where | add | mul | sub | div
  deriving Repr, DecidableEq

def Op.literal : Op → Rat
  | .add | .sub => 0
  | .mul | .div => 1

/-- Rules for `add`/`mul` are installed in both operand orders; `sub`/`div` only with the constant on the right. -/
def Op.commuted : Op → Bool
  | .add | .mul => true
  | _ => false

/-- Where the second operand comes from. -/
inductive Origin where
  | initializer      -- graph initializer (constant)
  | constantNode     -- output of a Constant node
  | inputWithDefault -- initializer that is also a graph input (overridable at run time)
  | input            -- plain graph input / computed value: no `const_value`
  deriving Repr, DecidableEq

def Origin.hasConstValue : Origin → Bool
  | .input => false
  | _ => true

structure Params where
  op : Op
  constOnLeft : Bool
  origin : Origin
  rank : Nat          -- rank of the constant tensor (size 1)
  value : Rat         -- its single element, exactly

/-- Before commit 6800bd1 (finding D3, fixed): every pattern literal became `Constant(v, rel_tol=1e-5, abs_tol=1e-8)`. -/
def Params.checkPrefix (p : Params) : Bool :=
  (p.op.commuted || !p.constOnLeft) &&
  p.origin.hasConstValue &&
  p.rank == 0 &&
  isclose p.value p.op.literal relTol absTol

/-- Tolerances of an *integer* pattern literal since commit 6800bd1 (`x + 0`, `x * 1`, `x - 0`, `x / 1`, `[-1]`): exact. -/
def intLiteralRelTol : Rat := 0
def intLiteralAbsTol : Rat := 0

/-- Does the (commuted) rule set fire?  Restates `_match_constant` for a scalar integer literal. -/
def Params.check (p : Params) : Bool :=
  (p.op.commuted || !p.constOnLeft) &&
  p.origin.hasConstValue &&
  p.rank == 0 &&
  isclose p.value p.op.literal intLiteralRelTol intLiteralAbsTol

/-- The side condition that makes `Identity(x)` right: the operand is *exactly* the unit and is a true
constant.  (`check ∧ ¬ exact` is finding D3; `check ∧ inputWithDefault` is finding C05-N1.) -/
def Params.exact (p : Params) : Bool :=
  p.value == p.op.literal && p.origin != .inputWithDefault

/-- Meaning of the matched node on one element (constant on the right; for `add`/`mul` the commuted
form has the same meaning in a commutative ring). -/
def Op.apply (o : Op) (x c : Rat) : Rat :=
  match o with
  | .add => x + c
  | .mul => x * c
  | .sub => x - c
  | .div => x / c

/-! ## Dropout (attribute-literal patterns, `AttrConstantPattern.matches`: plain `==`) -/

structure Dropout where
  /-- which rule: `dropout_zero` matches attribute `ratio == 0.0`; `dropout_inference` matches attribute
  `training_mode == False` (Python `0 == False` holds, so an int attribute 0 matches). -/
  zeroRule : Bool
  ratioAttr : Option Rat          -- attribute `ratio` if present (opset ≤ 11 form)
  trainingModeAttr : Option Int   -- attribute `training_mode` if present (not an ONNX attribute at any opset)
  nInputs : Nat                   -- pattern has exactly one input; more inputs ⇒ no match
  maskUsed : Bool                 -- second output consumed: node cannot be removed

def Dropout.check (p : Dropout) : Bool :=
  p.nInputs == 1 && !p.maskUsed &&
  (if p.zeroRule then p.ratioAttr == some 0 else p.trainingModeAttr == some 0)

/-! ## Zero-bias removal (`_remove_optional_bias.py`) -/

structure Bias where
  isConst : Bool           -- `ir.convenience.get_const_tensor(b) is not None`
  values : List Rat        -- all elements

def Bias.check (p : Bias) : Bool := p.isConst && p.values.all (· == 0)

end OV.C05.Unit
