import OV.Model.C05Shape
/-!
# C05 — casts, MatMul+Add→Gemm, Pad→Conv pads, auto_pad normalisation, BatchNorm folding guards,
Expand-before-binary-op (constant-shape strategy).  Core Lean only.
-/
namespace OV.C05.Linalg
open OV.C05.Shape

/-! ## Casts (`CastIdentity`, `CastCast`) — ONNX `TensorProto.DataType` codes -/

def FLOAT : Nat := 1
def FLOAT16 : Nat := 10
def DOUBLE : Nat := 11
def BFLOAT16 : Nat := 16

/-- `CastIdentity.check`: `x.dtype == to`. -/
def noOpCastCheck (xDtype : Option Nat) (to : Nat) : Bool := xDtype == some to

/-- `CastCast._allowed_type2_type3`. -/
def castCastAllowed : List (Nat × Nat) := [(FLOAT, FLOAT16), (FLOAT, BFLOAT16)]

/-- `CastCast.check` before commit e86ba81 (finding C05-N7, fixed): only the (type2, type3) table. -/
def castCastCheckPrefix (type2 type3 : Nat) : Bool := castCastAllowed.contains (type2, type3)

/-- `CastCast._exact_in_float`: source types whose every value is exactly representable in FLOAT (so the first hop loses
nothing): FLOAT, FLOAT16, BFLOAT16, (U)INT8, (U)INT16, BOOL. -/
def exactInFloat : List Nat := [1, 10, 16, 2, 3, 4, 5, 9]

/-- `CastCast.check` as it is now: `x.dtype` (known) is exactly representable in FLOAT, then the (type2, type3) table;
the replacement is `Cast(x, to = type3)`. -/
def castCastCheck (xDtype : Option Nat) (type2 type3 : Nat) : Bool :=
  (match xDtype with | some t => exactInFloat.contains t | none => false) && castCastAllowed.contains (type2, type3)

/-- Round a natural number to `k` significant bits, ties to even — the integer core of an IEEE
narrowing conversion (exponent range ignored). -/
def roundSig (k : Nat) (n : Nat) : Nat :=
  let bits := Nat.log2 n + 1
  if n == 0 || bits ≤ k then n
  else
    let sh := bits - k
    let q := n >>> sh
    let r := n % (2 ^ sh)
    let half := 2 ^ (sh - 1)
    let q' := if r > half || (r == half && q % 2 == 1) then q + 1 else q
    q' <<< sh

/-! ## MatMul + Add → Gemm (`_MatMulAddToGemmBase`) -/

structure GemmRepl where
  transA : Bool
  transB : Bool
  deriving Repr, DecidableEq

/-- `check` **before commit be37f51**: `has_rank(input_a, 2) and has_rank(input_b, 2)` only (finding D16b, fixed). -/
def matmulAddCheckPrefix (rankA rankB : Option Nat) : Bool := rankA == some 2 && rankB == some 2

/-- The guard added by commit be37f51: `C` has a known shape of rank ≤ 2 and, aligned from the right against
`(N, M)`, every dim of `C` is `1` or equals the output dim (`same_dim`; static dims in the model). -/
def cGuard (m n : Nat) (cShape : Option (List Nat)) : Bool :=
  match cShape with
  | none => false
  | some cs => cs.length ≤ 2 && (List.zip cs.reverse [n, m]).all (fun (c, o) => c == 1 || c == o)

/-- `_MatMulAddToGemmBase.check` as it is now. -/
def matmulAddCheck (rankA rankB : Option Nat) (m n : Nat) (cShape : Option (List Nat)) : Bool :=
  rankA == some 2 && rankB == some 2 && cGuard m n cShape

/-- Gemm requires `C` unidirectionally broadcastable to `(M, N)`; `Add` broadcasts both ways.  The
rewrite is shape-preserving exactly when broadcasting `C` against `(M,N)` gives `(M,N)` (finding D16b otherwise). -/
def cFitsGemm (m n : Nat) (cShape : List Nat) : Bool :=
  specBroadcast cShape [m, n] == some [m, n]

/-! ## Pad → Conv pads (`_FuseConvPadBase`, `FuseConvPad`, `FuseConvIntegerPad`) -/

/-- `fill_pads_with_axes(pads, axes, rank)`; `none` = IndexError. -/
def fillPadsWithAxes (pads : List Int) (axes : List Nat) (rank : Nat) : Option (List Int) :=
  let n := axes.length
  (List.range n).foldlM (fun acc i =>
    let ax := axes.getD i 0
    match pads[i]?, pads[i + n]? with
    | some b, some e =>
      if ax + rank < 2 * rank then some ((acc.set ax b).set (ax + rank) e) else none
    | _, _ => none) (List.replicate (2 * rank) 0)

/-- An optional constant input of `Pad`. -/
inductive OptConst (β : Type) where
  | absent
  | const (v : β)
  | dynamic
  deriving Repr, DecidableEq

structure PadConv where
  xRank : Option Nat                 -- `x.shape` known → rank
  mode : Option String               -- Pad attribute `mode`
  pads : OptConst (List Int)         -- Pad input 1 (never absent in opset ≥ 11)
  constantValue : OptConst Int       -- Pad input 2 (`.item()`; integer-valued in the model)
  cvIsZero : Bool := true            -- for non-integer constant values: `item() != 0` decided by the caller
  axes : OptConst (List Int)         -- Pad input 3
  autoPad : String                   -- Conv attribute `auto_pad` (default "NOTSET")
  convPads : Option (List Int)       -- Conv attribute `pads`
  /-- ConvInteger only: the `x_zero_point` input (third input), as `FuseConvIntegerPad.check` sees it. -/
  zeroPoint : OptConst Int := .absent

/-- The guard added by commit 470d8b0 (finding D16a, fixed): a present `x_zero_point` must be a constant equal to 0. -/
def PadConv.zeroPointOk (p : PadConv) : Bool :=
  match p.zeroPoint with
  | .absent => true
  | .const v => v == 0
  | .dynamic => false

/-- `_FuseConvPadBase.check` + `FuseConvPad.check`, then `rewrite`: the new `pads` attribute (this was the whole rule for
ConvInteger before commit 470d8b0). -/
def padConvRunBase (p : PadConv) : Outcome (List Int) :=
  match p.xRank with
  | none => .nofire
  | some rank =>
    if (match p.mode with | some m => m != "constant" | none => false) then .nofire else
    match p.pads with
    | .absent => .raises
    | .dynamic => .nofire
    | .const padsV =>
      let cvOk : Option Bool := match p.constantValue with
        | .absent => some true
        | .dynamic => none
        | .const v => some (v == 0 && p.cvIsZero)
      match cvOk with
      | none => .nofire
      | some false => .nofire
      | some true =>
        let axesL : Option (List Int) := match p.axes with
          | .absent => some ((List.range rank).map Int.ofNat)
          | .dynamic => none
          | .const a => some (a.map (fun x => if x ≥ 0 then x else (rank : Int) + x))
        match axesL with
        | none => .nofire
        | some ax =>
          if ax.any (· < 0) then .raises else
          match fillPadsWithAxes padsV (ax.map Int.toNat) rank with
          | none => .raises
          | some pl =>
            if (pl.take 2 ++ (pl.drop rank).take 2).any (· != 0) then .nofire
            else if pl.any (· < 0) then .nofire
            else if p.autoPad != "NOTSET" then .nofire
            else
              let newPads := (pl.drop 2).take (rank - 2) ++ pl.drop (rank + 2)
              match p.convPads with
              | some cp => .fire (List.zipWith (· + ·) cp newPads)
              | none => .fire newPads

/-- `FuseConvPad` / `FuseConvIntegerPad` as they are now: the base check (which may raise), then the zero-point guard. -/
def padConvRun (p : PadConv) : Outcome (List Int) :=
  match padConvRunBase p with
  | .fire pads => if p.zeroPointOk then .fire pads else .nofire
  | o => o

/-- Conv output length on one spatial axis (`floor`), explicit pads. -/
def convOutLen (x k s d pb pe : Nat) : Nat :=
  let eff := (k - 1) * d + 1
  if x + pb + pe < eff then 0 else (x + pb + pe - eff) / s + 1

/-- `NormalizePadFormatConv.compute_pads` for `SAME_UPPER` / `SAME_LOWER` (one list entry per spatial axis):
returns `begins ++ ends`.  `ks` = the kernel extents the caller passes: since commit 6841282 the dilated extents
`(k-1)*d+1` (`dilatedExtents`); before it the raw kernel sizes (finding D16c1, fixed). -/
def computeSamePads (upper : Bool) (xs ys ks ss : List Nat) : List Nat :=
  let per := (List.zip (List.zip xs ys) (List.zip ks ss)).map (fun ((x, y), (k, s)) =>
    let total : Nat := ((y - 1) * s + k) - x   -- `max(0, (y-1)*s + extent - x)` (y ≥ 1 in every valid model)
    let p1 := total / 2
    let p2 := total - p1
    if upper then (p1, p2) else (p2, p1))
  per.map Prod.fst ++ per.map Prod.snd

/-- `(k - 1) * d + 1` per axis (`zip` truncates like Python's). -/
def dilatedExtents (ks ds : List Nat) : List Nat := List.zipWith (fun k d => (k - 1) * d + 1) ks ds

structure NormPad where
  autoPad : Option String
  inShape : Option Shape
  outShape : Option Shape
  kernel : List Nat          -- attribute or weight.shape[2:]
  strides : List Nat         -- attribute or [1]*n
  dilations : List Nat       -- attribute or [1]*n
  padsAttr : Option (List Int)

structure NormPadRepl where
  pads : Option (List Int)   -- `pads` attribute after the rewrite (none = attribute absent)
  deriving Repr, DecidableEq

def normPadRun (p : NormPad) : Outcome NormPadRepl :=
  match p.autoPad with
  | none => .nofire
  | some ap =>
    if ap == "NOTSET" then .nofire else
    match p.inShape, p.outShape with
    | some is, some os =>
      if is.length ≤ 2 || os.length ≤ 2 then .nofire else
      if ap != "VALID" then
        match allKnown (is.drop 2), allKnown (os.drop 2) with
        | some xs, some ys =>
          if p.kernel.length != p.strides.length then .nofire else
          if !(p.kernel.length == xs.length && xs.length == ys.length) then .raises else
          let pads := (computeSamePads (ap == "SAME_UPPER") xs ys (dilatedExtents p.kernel p.dilations) p.strides).map Int.ofNat
          .fire { pads := if pads.any (· != 0) then some pads else p.padsAttr }
        | _, _ => .nofire
      else
        let pads : List Int := match p.padsAttr with
          | some l => l
          | none => List.replicate (2 * (is.length - 2)) 0
        .fire { pads := if pads.any (· != 0) then some pads else p.padsAttr }
    | _, _ => .nofire

/-! ## BatchNorm folding guards (`_FuseBatchNormBase.check`) -/

structure InitFlags where
  isInitializer : Bool
  hasConst : Bool
  isGraphInput : Bool
  deriving Repr, DecidableEq

structure BatchNorm where
  inits : List InitFlags          -- weight, gamma, beta, mean, var, (bias)
  sharedOutside : Bool            -- weight/bias initializer used by a node outside the match
  /-- ConvTranspose only: `in_channels % group`. -/
  inChannelsModGroup : Nat := 0
  /-- hypotheses of the algebraic identity that `check` does **not** test -/
  gemmBetaIsOne : Bool := true
  trainingMode : Bool := false

/-- `_FuseBatchNormBase.check` before commit 621808b (finding C05-N6, fixed). -/
def batchNormCheckPrefix (p : BatchNorm) : Bool :=
  p.inits.all (fun f => f.isInitializer && f.hasConst && !f.isGraphInput) &&
  !p.sharedOutside && p.inChannelsModGroup == 0

def batchNormHyp (p : BatchNorm) : Bool := p.gemmBetaIsOne && !p.trainingMode

/-- `check` as it is now: not in training mode, Gemm's `beta == 1`, then the initializer / sharing guards. -/
def batchNormCheck (p : BatchNorm) : Bool := batchNormHyp p && batchNormCheckPrefix p

/-! ## Expand before a broadcasting binary op — strategy 1 (constant target shape) -/

/-- Commit dd5f7df (finding C05-N3c, fixed): no `ExpandFirst` rule is generated for PRelu (its slope broadcasts only towards X). -/
def expandFirstRuleExists (op : String) : Bool := op != "PRelu"

/-- `_BROADCAST_BINARY_OPS`: one `ExpandSecond_<op>` rule per entry and one `ExpandFirst_<op>` rule per entry except PRelu. -/
def broadcastBinaryOps : List String :=
  ["Add", "And", "BitShift", "BitwiseAnd", "BitwiseOr", "BitwiseXor", "Div", "Equal", "Greater", "GreaterOrEqual", "Less",
   "LessOrEqual", "Mod", "Mul", "Or", "Pow", "PRelu", "Sub", "Xor"]


/-- `_check_expand_removable`, strategy 1, **before commit 48b48d2** (no rank guard; finding C05-N3a, fixed).
`x`, `y` shapes are annotations; `e` is the constant target. -/
def expandRemovableConstPrefix (xShape yShape : Option Shape) (e : List Int) : Bool :=
  match xShape, yShape with
  | some xs, some ys =>
    (List.range e.length).all (fun rev =>
      let ed := e.getD (e.length - 1 - rev) 0
      if ed == 1 then true
      else
        let xd : Dim := if rev < xs.length then xs.getD (xs.length - 1 - rev) .unknown else .known 1
        let yd : Dim := if rev < ys.length then ys.getD (ys.length - 1 - rev) .unknown else .known 1
        (match xd with | .known n => Int.ofNat n == ed | _ => false) ||
        (match yd with | .known n => Int.ofNat n == ed | _ => false))
  | _, _ => false

/-- The rank of the result changes when the Expand target is longer than both operands
(finding C05-N3a, fixed): the pre-fix guard accepted leading `1`s. -/
def expandRankChanges (xRank yRank eLen : Nat) : Bool := max xRank yRank < eLen

/-- `_check_expand_removable`, strategy 1, as it is now: `if expand_rank > max(x_rank, y_rank): fail`, then the per-dim test. -/
def expandRemovableConst (xShape yShape : Option Shape) (e : List Int) : Bool :=
  match xShape, yShape with
  | some xs, some ys => !expandRankChanges xs.length ys.length e.length && expandRemovableConstPrefix xShape yShape e
  | _, _ => false

end OV.C05.Linalg
