import OV.Model.C03Pass
/-
  OV.Model.C03Frag — decidable description of the graphs covered by the end-to-end theorem
  `fold_fragmentA_preserves` (Props/C03.lean).  The driver evaluates `fragAWFB` on every case it is
  given and reports it, so each run says how many generated models lie inside the theorem's domain.
  `OV/Lemmas/C03FragA.lean` proves `fragAWFB g = true` implies the theorem's structural hypotheses.
-/
namespace OV.C03

def mentionsTop (n : Node) (x : Name) : Bool := n.inputs.contains (some x) || n.outputs.contains x

/-- No node mentions an output of a later node (single assignment + definition before use, one level). -/
def orderOK : List Node → Bool
  | [] => true
  | n :: rest => rest.all (fun m => m.outputs.all (fun o => !mentionsTop n o)) && orderOK rest

def io1 (n : Node) : Option (Name × Name) :=
  match n.inputs, n.outputs with
  | [some x], [o] => some (x, o)
  | _, _ => none

/-- decidable mirror of the node classes of fragment A (syntactic part) -/
def nodeFragAB (n : Node) : Bool :=
  n.subs.isEmpty && !hasRefAttr n &&
  ( (!n.isOp "Constant" && (lookupEvaluator n 100).isNone)
  || (n.isOp "Constant" && n.inputs.isEmpty && n.outputs.length == 1)
  || (n.op == "Identity" && n.domain == "" && (match io1 n with | some (x, o) => o != x | none => false))
  || (n.domain == "" && (match n.outputs with
        | [o] => n.inputs.all (fun i => i != some o) &&
            ((n.op == "Concat" && (match n.inputs with | [some _] => true | _ => false)) ||
             (n.op == "Dropout" && (match n.inputs with | some _ :: tl => decide (tl.length ≤ 1) | _ => false)))
        | _ => false))
  || (n.op == "Cast" && n.domain == "" && (match io1 n with | some (x, o) => o != x | none => false) && intAttr n "to" none != some 0)
  || (n.op == "CastLike" && n.domain == "" && n.attrs.isEmpty &&
        (match n.inputs, n.outputs with | [some x, some w], [o] => o != x && o != w | _, _ => false)) )

def nameOKB (y : Name) : Bool := y.toList.head? != some '%'

def nodeNamesOKB (n : Node) : Bool :=
  n.inputs.all (fun i => match i with | some y => nameOKB y | none => true) && n.outputs.all nameOKB

/-- decidable part of `FragAWF`: node classes, order, outputs are not formal inputs, no generated-looking name -/
def fragAWFB (g : Graph) : Bool :=
  g.nodes.all nodeFragAB && orderOK g.nodes &&
  g.nodes.all (fun n => n.outputs.all fun o => !g.inputs.contains o) && g.nodes.all nodeNamesOKB

/-- decidable part of the hypotheses on the annotation table: constants and element types are recorded only for names
that do not look generated, and no constant is recorded for a node output -/
def infoOKB (info : List (Name × VInfo)) (g : Graph) : Bool :=
  info.all fun p =>
    (p.2.const.isNone || (nameOKB p.1 && g.nodes.all fun m => !m.outputs.contains p.1)) &&
    (p.2.dtype.isNone || nameOKB p.1)

/-- everything about a case that can be checked mechanically among the hypotheses of `fold_fragmentA_preserves` -/
def inTheoremFragment (isFunction : Bool) (info : List (Name × VInfo)) (g : Graph) : Bool :=
  !isFunction && fragAWFB g && infoOKB info g

end OV.C03
