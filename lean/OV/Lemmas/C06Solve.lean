import OV.Lemmas.C06Sound
import OV.Lemmas.C06Top
/-!
  C06 — the exhaustive search `solve` (the oracle of the correspondence check) is sound: every
  solution it returns is an instance (full pattern language, OR patterns included).
-/
namespace OV.C06

structure SALe (a a' : SA) : Prop where
  b : ∀ k x, a.names.lookup k = some x → a'.names.lookup k = some x
  v : ∀ k x, a.leaf.lookup k = some x → a'.leaf.lookup k = some x
  n : ∀ k x, a.node.lookup k = some x → a'.node.lookup k = some x

theorem SALe.refl (a : SA) : SALe a a := ⟨fun _ _ h => h, fun _ _ h => h, fun _ _ h => h⟩
theorem SALe.trans {a b c : SA} (h1 : SALe a b) (h2 : SALe b c) : SALe a c :=
  ⟨fun k x h => h2.b k x (h1.b k x h), fun k x h => h2.v k x (h1.v k x h),
   fun k x h => h2.n k x (h1.n k x h)⟩
theorem SALe.toALe {a a' : SA} (h : SALe a a') : ALe a.assign a'.assign := ⟨h.b, h.n, h.v⟩

/-- every mapped pattern node is either still being solved (`P`) or satisfied -/
def GoodSA (E : Env) (a : SA) (P : List NPId) : Prop :=
  ∀ q m, a.node.lookup q = some m → q ∈ P ∨ SatN E a.assign q m

theorem GoodSA.ext {E : Env} {a a' : SA} {P : List NPId} (h : GoodSA E a P) (l : SALe a a')
    (hn : a'.node = a.node) : GoodSA E a' P := by
  intro q m hq
  rw [hn] at hq
  rcases h q m hq with h | h
  · exact .inl h
  · exact .inr (satN_mono l.toALe h)

theorem bindName_spec (a a' : SA) (k : String) (b : Bound) (h : a.bindName k b = some a') :
    SALe a a' ∧ a'.node = a.node ∧ a'.names.lookup k = some b := by
  unfold SA.bindName at h
  split at h
  · next b' hb =>
    split at h
    · next he => cases h; exact ⟨SALe.refl _, rfl, he ▸ hb⟩
    · cases h
  · next hb =>
    cases h
    exact ⟨⟨fun k' x h => lookup_snoc_of_some _ _ _ _ _ h, fun _ _ h => h, fun _ _ h => h⟩, rfl,
      lookup_snoc_self _ _ _ hb⟩

theorem bindV_spec (p : GPat) (a a' : SA) (vp : VPat) (v : Option ValueId)
    (h : a.bindV p vp v = some a') :
    SALe a a' ∧ a'.node = a.node ∧ a'.assign.boundTo p vp v := by
  unfold SA.bindV at h
  unfold Assign.boundTo
  rcases hn : p.vname vp with _ | nm <;> simp only [hn] at h ⊢
  · rcases hk : vp.key with _ | k <;> simp only [hk] at h ⊢
    · cases h; exact ⟨SALe.refl _, rfl, trivial⟩
    · split at h
      · next v' hv =>
        split at h
        · next he => cases h; exact ⟨SALe.refl _, rfl, he ▸ hv⟩
        · cases h
      · next hv =>
        cases h
        exact ⟨⟨fun _ _ h => h, fun k' x h => lookup_snoc_of_some _ _ _ _ _ h, fun _ _ h => h⟩, rfl,
          lookup_snoc_self _ _ _ hv⟩
  · exact bindName_spec a a' nm _ h

theorem bindTag_spec (tagVar : Option String) (t : Int) (a a' : SA) (h : bindTag tagVar t a = some a') :
    SALe a a' ∧ a'.node = a.node ∧ ∀ tv, tagVar = some tv → a'.names.lookup tv = some (.tag t) := by
  unfold bindTag at h
  split at h
  · next tv =>
    obtain ⟨h1, h2, h3⟩ := bindName_spec a a' tv _ h
    exact ⟨h1, h2, fun tv' e => by cases e; exact h3⟩
  · cases h; exact ⟨SALe.refl _, rfl, fun tv e => by cases e⟩

/-- what the recursive node solver has to satisfy -/
def SolveNodeSpec (E : Env) (rec : NPId → NodeId → SA → List SA) : Prop :=
  ∀ np n a P a', a' ∈ rec np n a → GoodSA E a P → (∀ x ∈ P, np < x) →
    SALe a a' ∧ GoodSA E a' P ∧ SatN E a'.assign np n

theorem solveOut_spec (E : Env) (rec : NPId → NodeId → SA → List SA) (hrec : SolveNodeSpec E rec)
    (np : NPId) (idx : Nat) (x : ValueId) (a a' : SA) (P : List NPId)
    (h : a' ∈ solveOut E rec np idx x a) (hf : E.g.isForeign x = false) (hg : GoodSA E a P)
    (hlt : ∀ y ∈ P, np < y) :
    SALe a a' ∧ GoodSA E a' P ∧ SatV E a'.assign (.out np idx) (some x) := by
  unfold solveOut at h
  split at h
  · simp at h
  · next n hp =>
    split at h
    · simp at h
    · next hi =>
      split at h
      · simp at h
      · next a1 hb =>
        obtain ⟨l1, n1, b1⟩ := bindV_spec E.p a a1 _ _ hb
        obtain ⟨l2, g2, s2⟩ := hrec np n a1 P a' h (hg.ext l1 n1) hlt
        refine ⟨l1.trans l2, g2, ?_⟩
        have hi' : E.g.index x = some idx := by simpa using hi
        exact .out np idx x n (boundTo_mono l2.toALe _ _ _ b1) hf hp hi' s2

theorem getD_tail (tags : List Int) (i : Nat) : tags.tail.getD i 0 = tags.getD (i + 1) 0 := by
  cases tags <;> simp

mutual
theorem solveV_spec (E : Env) (rec : NPId → NodeId → SA → List SA) (hrec : SolveNodeSpec E rec)
    (P : List NPId) : ∀ (vp : VPat) (v : Option ValueId) (a a' : SA),
      a' ∈ solveV E rec vp v a → GoodSA E a P → (∀ q ∈ vp.refs, ∀ y ∈ P, q < y) →
      SALe a a' ∧ GoodSA E a' P ∧ SatV E a'.assign vp v
  | .any, v, a, a', h, hg, _ => by
    unfold solveV at h
    split at h
    · simp at h
    · simp at h; subst h; exact ⟨SALe.refl _, hg, .any v⟩
  | .var id name isVar canNone check, v, a, a', h, hg, _ => by
    unfold solveV at h
    split at h
    · simp at h
    · next hcg =>
      dsimp only at h
      split at h
      · simp at h
      · split at h
        · simp at h
        · next hn =>
          have hb : a.bindV E.p (.var id name isVar canNone check) v = some a' := by
            cases hx : a.bindV E.p (.var id name isVar canNone check) v with
            | none => simp [hx] at h
            | some a1 => simp [hx] at h; rw [h]
          obtain ⟨l1, n1, b1⟩ := bindV_spec E.p a a' _ _ hb
          refine ⟨l1, hg.ext l1 n1, .var _ _ _ _ _ _ b1 ?_ (crossGraph_var hcg)⟩
          intro hv; subst hv; simpa using hn
  | .const id c, v, a, a', h, hg, _ => by
    cases v with
    | none =>
      unfold solveV at h
      split at h <;> simp at h
    | some x =>
      unfold solveV at h
      split at h
      · simp at h
      · dsimp only at h
        split at h
        · simp at h
        · next cv hcv =>
          split at h
          · next hok =>
            have hb : a.bindV E.p (.const id c) (some x) = some a' := by
              cases hx : a.bindV E.p (.const id c) (some x) with
              | none => simp [hx] at h
              | some a1 => simp [hx] at h; rw [h]
            obtain ⟨l1, n1, b1⟩ := bindV_spec E.p a a' _ _ hb
            exact ⟨l1, hg.ext l1 n1, .const id c x cv b1 hcv hok⟩
          · simp at h
  | .out np idx, v, a, a', h, hg, hq => by
    cases v with
    | none =>
      unfold solveV at h
      split at h <;> simp at h
    | some x =>
      unfold solveV at h
      split at h
      · simp at h
      · next hcg =>
        dsimp only at h
        exact solveOut_spec E rec hrec np idx x a a' P h (crossGraph_out hcg) hg
          (hq np (by simp [VPat.refs]))
  | .orD id name tagVar alts, v, a, a', h, hg, hq => by
    cases v with
    | none =>
      unfold solveV at h
      split at h <;> simp at h
    | some x =>
      unfold solveV at h
      split at h
      · simp at h
      · next hcg =>
        dsimp only at h
        have hf : E.g.isForeign x = false := by
          simp only [crossGraphBad, VPat.crossGraphOk, Bool.not_false, Bool.and_true,
            Bool.not_eq_true] at hcg
          exact hcg
        split at h
        · simp at h
        · next d hd =>
          split at h
          · simp at h
          · next a1 hb =>
            simp only [List.mem_filterMap] at h
            obtain ⟨a2, h2, ht⟩ := h
            obtain ⟨l1, n1, b1⟩ := bindV_spec E.p a a1 _ _ hb
            have hdm : d ∈ alts := by
              unfold getDispatch at hd
              split at hd
              · cases hd
              · split at hd
                · cases hd
                · exact List.mem_of_find?_eq_some hd
            obtain ⟨l2, g2, s2⟩ := solveOut_spec E rec hrec d.np d.idx x a1 a2 P h2 hf (hg.ext l1 n1)
              (hq d.np (by simp only [VPat.refs, List.mem_map]; exact ⟨d, hdm, rfl⟩))
            obtain ⟨l3, n3, t3⟩ := bindTag_spec tagVar d.tag a2 a' ht
            refine ⟨(l1.trans l2).trans l3, g2.ext l3 n3, ?_⟩
            exact .orD id name tagVar alts x d (boundTo_mono (l2.trans l3).toALe _ _ _ b1) hf hd
              (satV_mono l3.toALe s2) (fun t e => t3 t e)
  | .orB id name tagVar tags alts, v, a, a', h, hg, hq => by
    unfold solveV at h
    split at h
    · simp at h
    · next hcg =>
      dsimp only at h
      split at h
      · simp at h
      · next a1 hb =>
        obtain ⟨l1, n1, b1⟩ := bindV_spec E.p a a1 _ _ hb
        obtain ⟨l2, g2, i, alt, hi, hs, ht⟩ :=
          solveAlts_spec E rec hrec P alts tags tagVar v a1 a' h (hg.ext l1 n1)
            (fun q hq' => hq q (by simpa [VPat.refs] using hq'))
        refine ⟨l1.trans l2, g2, ?_⟩
        refine .orB id name tagVar tags alts v i alt (boundTo_mono l2.toALe _ _ _ b1) ?_ hi hs ht
        intro x hx
        subst hx
        simp only [crossGraphBad, VPat.crossGraphOk, Bool.not_false, Bool.and_true,
          Bool.not_eq_true] at hcg
        exact hcg
theorem solveAlts_spec (E : Env) (rec : NPId → NodeId → SA → List SA) (hrec : SolveNodeSpec E rec)
    (P : List NPId) : ∀ (alts : List VPat) (tags : List Int) (tagVar : Option String)
      (v : Option ValueId) (a a' : SA),
      a' ∈ solveAlts E rec alts tags tagVar v a → GoodSA E a P → (∀ q ∈ refsL alts, ∀ y ∈ P, q < y) →
      SALe a a' ∧ GoodSA E a' P ∧ ∃ i alt, alts[i]? = some alt ∧ SatV E a'.assign alt v ∧
        (∀ t, tagVar = some t → a'.assign.names t = some (.tag (tags.getD i 0)))
  | [], tags, tagVar, v, a, a', h, _, _ => by
    unfold solveAlts at h
    simp at h
  | alt :: rest, tags, tagVar, v, a, a', h, hg, hq => by
    unfold solveAlts at h
    rcases List.mem_append.1 h with h1 | h2
    · simp only [List.mem_filterMap] at h1
      obtain ⟨a1, hs, ht⟩ := h1
      obtain ⟨l1, g1, s1⟩ := solveV_spec E rec hrec P alt v a a1 hs hg
        (fun q hq' => hq q (by simp [refsL, hq']))
      obtain ⟨l2, n2, t2⟩ := bindTag_spec tagVar (tags.headD 0) a1 a' ht
      refine ⟨l1.trans l2, g1.ext l2 n2, 0, alt, rfl, satV_mono l2.toALe s1, fun t e => ?_⟩
      have := t2 t e
      show a'.names.lookup t = _
      cases tags <;> simpa using this
    · obtain ⟨l, g, i, alt', hi, hs, ht⟩ := solveAlts_spec E rec hrec P rest tags.tail tagVar v a a' h2 hg
        (fun q hq' => hq q (by simp [refsL, hq']))
      refine ⟨l, g, i + 1, alt', by simpa using hi, hs, fun t e => ?_⟩
      rw [← getD_tail]
      exact ht t e
end

theorem solveAttrs_spec (n : GNode) : ∀ (l : List (String × APat)) (a a' : SA),
    solveAttrs n l a = some a' →
    SALe a a' ∧ a'.node = a.node ∧ ∀ name ap, (name, ap) ∈ l → attrOk n name ap ∧
      ∀ nm, ap.name = some nm → a'.names.lookup nm = some (Bound.ofAttr (n.attr name)) := by
  intro l
  induction l with
  | nil => intro a a' h; cases h; exact ⟨SALe.refl _, rfl, fun _ _ h => by simp at h⟩
  | cons hd rest ih =>
    intro a a' h
    obtain ⟨name, ap⟩ := hd
    unfold solveAttrs at h
    split at h
    · cases h
    · next hbad =>
      have hgood : attrOk n name ap := by
        unfold attrOk
        unfold attrBad at hbad
        revert hbad
        cases n.attr name <;> simp
      split at h
      · next hnm =>
        obtain ⟨l1, n1, r1⟩ := ih a a' h
        refine ⟨l1, n1, fun name' ap' hm => ?_⟩
        rcases List.mem_cons.1 hm with he | hm
        · cases he; exact ⟨hgood, fun nm e => by simp [hnm] at e⟩
        · exact r1 name' ap' hm
      · next nm hnm =>
        split at h
        · cases h
        · next a1 hb =>
          obtain ⟨l0, n0, b0⟩ := bindName_spec a a1 nm _ hb
          obtain ⟨l1, n1, r1⟩ := ih a1 a' h
          refine ⟨l0.trans l1, n1.trans n0, fun name' ap' hm => ?_⟩
          rcases List.mem_cons.1 hm with he | hm
          · cases he
            refine ⟨hgood, fun nm' e => ?_⟩
            have : nm' = nm := by simpa [hnm] using e.symm
            subst this
            exact l1.b _ _ b0
          · exact r1 name' ap' hm

theorem solveOutputs_spec (p : GPat) (np : NPId) (gouts : List ValueId) :
    ∀ (rest : List (Option String)) (i : Nat) (a a' : SA),
      solveOutputs p np gouts rest i a = some a' →
      SALe a a' ∧ a'.node = a.node ∧ ∀ j, i ≤ j → j < i + rest.length →
        ∃ x, gouts[j]? = some x ∧ a'.assign.boundTo p (.out np j) (some x) := by
  intro rest
  induction rest with
  | nil => intro i a a' h; cases h; exact ⟨SALe.refl _, rfl, fun j h1 h2 => by simp at h2; omega⟩
  | cons hd rest ih =>
    intro i a a' h
    unfold solveOutputs at h
    split at h
    · cases h
    · next x hx =>
      split at h
      · cases h
      · next a1 hb =>
        obtain ⟨l0, n0, b0⟩ := bindV_spec p a a1 _ _ hb
        obtain ⟨l1, n1, r1⟩ := ih (i + 1) a1 a' h
        refine ⟨l0.trans l1, n1.trans n0, fun j hj1 hj2 => ?_⟩
        by_cases hji : j = i
        · subst hji
          exact ⟨x, hx, boundTo_mono l1.toALe _ _ _ b0⟩
        · exact r1 j (by omega) (by simp only [List.length_cons] at hj2; omega)

theorem solveInputs_spec (E : Env) (rec : NPId → NodeId → SA → List SA) (hrec : SolveNodeSpec E rec)
    (P : List NPId) (n : GNode) :
    ∀ (ins : List (Option VPat)) (i : Nat) (a a' : SA),
      a' ∈ solveInputs (solveV E rec) ins i n a → GoodSA E a P →
      (∀ vp, some vp ∈ ins → ∀ q ∈ vp.refs, ∀ y ∈ P, q < y) →
      SALe a a' ∧ GoodSA E a' P ∧
        (∀ j, ins[j]? = some none → inputAt n (i + j) = none) ∧
        (∀ j vp, ins[j]? = some (some vp) → SatV E a'.assign vp (inputAt n (i + j))) := by
  intro ins
  induction ins with
  | nil =>
    intro i a a' h hg _
    unfold solveInputs at h
    simp at h
    subst h
    exact ⟨SALe.refl _, hg, fun j h => by simp at h, fun j vp h => by simp at h⟩
  | cons hd rest ih =>
    intro i a a' h hg hq
    cases hd with
    | none =>
      unfold solveInputs at h
      split at h
      · next hnone =>
        obtain ⟨l, g, r1, r2⟩ := ih (i + 1) a a' h hg (fun vp hm => hq vp (List.mem_cons_of_mem _ hm))
        refine ⟨l, g, fun j hj => ?_, fun j vp hj => ?_⟩
        · cases j with
          | zero => simpa using hnone
          | succ j =>
            have := r1 j (by simpa using hj)
            rw [show i + (j + 1) = i + 1 + j by omega]; exact this
        · cases j with
          | zero => simp at hj
          | succ j =>
            have := r2 j vp (by simpa using hj)
            rw [show i + (j + 1) = i + 1 + j by omega]; exact this
      · simp at h
    | some vp =>
      unfold solveInputs at h
      simp only [List.mem_flatMap] at h
      obtain ⟨a1, h1, h2⟩ := h
      obtain ⟨l1, g1, s1⟩ := solveV_spec E rec hrec P vp _ a a1 h1 hg (hq vp (List.mem_cons_self ..))
      obtain ⟨l2, g2, r1, r2⟩ := ih (i + 1) a1 a' h2 g1 (fun vp hm => hq vp (List.mem_cons_of_mem _ hm))
      refine ⟨l1.trans l2, g2, fun j hj => ?_, fun j vp' hj => ?_⟩
      · cases j with
        | zero => simp at hj
        | succ j =>
          have := r1 j (by simpa using hj)
          rw [show i + (j + 1) = i + 1 + j by omega]; exact this
      · cases j with
        | zero =>
          simp at hj
          subst hj
          exact satV_mono l2.toALe s1
        | succ j =>
          have := r2 j vp' (by simpa using hj)
          rw [show i + (j + 1) = i + 1 + j by omega]; exact this

theorem solveNodeStep_spec (E : Env) (rec : NPId → NodeId → SA → List SA) (hrec : SolveNodeSpec E rec)
    (htopo : E.p.topoDeep) : SolveNodeSpec E (solveNodeStep E (solveV E rec)) := by
  intro np n a P a' h hg hlt
  unfold solveNodeStep at h
  split at h
  · next m hm =>
    split at h
    · next hmn =>
      simp at h
      subst h hmn
      refine ⟨SALe.refl _, hg, ?_⟩
      rcases hg np m hm with h | h
      · exact absurd (hlt np h) (Nat.lt_irrefl _)
      · exact h
    · simp at h
  · next hm =>
    split at h
    · next Pn N hP hN =>
      split at h
      · simp at h
      · split at h
        · simp at h
        · next hod =>
          split at h
          · simp at h
          · next hoa =>
            split at h
            · simp at h
            · next hlen =>
              split at h
              · simp at h
              · next a1 hat =>
                obtain ⟨l1, n1, at1⟩ := solveAttrs_spec N Pn.attrs a a1 hat
                simp only [List.mem_filterMap] at h
                obtain ⟨a3, h3, h4⟩ := h
                let a2 : SA := { a1 with node := a1.node ++ [(np, n)] }
                have hm1 : a1.node.lookup np = none := by rw [n1]; exact hm
                have l12 : SALe a1 a2 :=
                  ⟨fun _ _ h => h, fun _ _ h => h, fun k x h => lookup_snoc_of_some _ _ _ _ _ h⟩
                have hnp2 : a2.node.lookup np = some n := lookup_snoc_self _ _ _ hm1
                have g2 : GoodSA E a2 (np :: P) := by
                  intro q m hq
                  by_cases hqn : q = np
                  · exact .inl (by simp [hqn])
                  · have hq1 : a1.node.lookup q = some m := by
                      have : (a1.node ++ [(np, n)]).lookup q = some m := hq
                      simp only [List.lookup_append, List.lookup] at this
                      cases h1 : a1.node.lookup q with
                      | some m' => simp [h1] at this; exact this ▸ rfl
                      | none =>
                        simp [h1] at this
                        have hne : (q == np) = false := by simpa using hqn
                        simp [hne] at this
                    rcases (hg.ext l1 n1) q m hq1 with h | h
                    · exact .inl (List.mem_cons_of_mem _ h)
                    · exact .inr (satN_mono l12.toALe h)
                have hq : ∀ vp, some vp ∈ Pn.inputs → ∀ q ∈ vp.refs, ∀ y ∈ np :: P, q < y := by
                  intro vp hin q hqr y hy
                  have hqnp := htopo np Pn hP vp hin q hqr
                  rcases List.mem_cons.1 hy with h | h
                  · exact h ▸ hqnp
                  · exact Nat.lt_trans hqnp (hlt y h)
                obtain ⟨l3, g3, r1, r2⟩ := solveInputs_spec E rec hrec (np :: P) N Pn.inputs 0 a2 a3 h3 g2 hq
                obtain ⟨l4, n4, o4⟩ := solveOutputs_spec E.p np N.outputs Pn.outputs 0 a3 a' h4
                have l14 : SALe a1 a' := (l12.trans l3).trans l4
                have hsat : SatN E a'.assign np n := by
                  refine .mk np n Pn N hP hN (l4.n _ _ (l3.n _ _ hnp2)) ?_ ?_ ?_ ?_ ?_ ?_ ?_
                  · simp only [Bool.or_eq_true, Bool.not_eq_true', not_or, Bool.not_eq_false] at hod
                    exact hod.1
                  · simp only [Bool.or_eq_true, Bool.not_eq_true', not_or, Bool.not_eq_false] at hod
                    exact hod.2
                  · refine ⟨fun name ap hmem => ⟨(at1 name ap hmem).1, fun nm e => l14.b _ _ ((at1 name ap hmem).2 nm e)⟩, ?_⟩
                    intro hao x hx
                    simp only [hao, Bool.not_false, Bool.true_and, List.any_eq_true, Bool.not_eq_true',
                      not_exists, not_and, Bool.not_eq_false] at hoa
                    obtain ⟨kv, hk1, hk2⟩ := hoa x hx
                    refine ⟨kv.2, ?_⟩
                    have : kv.1 = x.name := by simpa using hk2
                    rw [← this]; exact hk1
                  · by_cases hl : N.inputs.length ≤ Pn.inputs.length
                    · exact .inl hl
                    · right
                      have : N.inputs.length > Pn.inputs.length := by omega
                      simp only [this, decide_true, Bool.true_and, Bool.not_eq_true', Bool.not_eq_false] at hlen
                      simpa using hlen
                  · intro i hi
                    have := r1 i hi
                    simpa using this
                  · intro i vp hi
                    have := r2 i vp hi
                    simp only [Nat.zero_add] at this
                    exact satV_mono l4.toALe this
                  · intro i hi
                    exact o4 i (Nat.zero_le _) (by omega)
                refine ⟨l1.trans l14, ?_, hsat⟩
                intro q m hq'
                rcases (g3.ext l4 n4) q m hq' with h' | h'
                · rcases List.mem_cons.1 h' with h'' | h''
                  · subst h''
                    have : a'.node.lookup q = some n := l4.n _ _ (l3.n _ _ hnp2)
                    rw [this] at hq'
                    cases hq'
                    exact .inr hsat
                  · exact .inl h''
                · exact .inr h'
    · simp at h

theorem solveN_spec (E : Env) (htopo : E.p.topoDeep) : ∀ f, SolveNodeSpec E (solveN E f)
  | 0 => by
    intro np n a P a' h
    unfold solveN at h
    simp at h
  | f + 1 => by
    have ih := solveN_spec E htopo f
    have := solveNodeStep_spec E (solveN E f) ih htopo
    intro np n a P a' h
    unfold solveN at h
    exact this np n a P a' h

theorem solveOutNodes_spec (E : Env) (htopo : E.p.topoDeep) : ∀ (l : List NPId) (a a' : SA),
    a' ∈ solveOutNodes E l a → GoodSA E a [] →
    SALe a a' ∧ GoodSA E a' [] ∧ ∀ np ∈ l, ∃ n, SatN E a'.assign np n := by
  intro l
  induction l with
  | nil =>
    intro a a' h hg
    unfold solveOutNodes at h
    simp at h; subst h
    exact ⟨SALe.refl _, hg, fun _ h => by simp at h⟩
  | cons np rest ih =>
    intro a a' h hg
    unfold solveOutNodes at h
    simp only [List.mem_flatMap] at h
    obtain ⟨n, _, a1, h1, h2⟩ := h
    obtain ⟨l1, g1, s1⟩ := solveN_spec E htopo _ np n a [] a1 h1 hg (fun _ h => by simp at h)
    obtain ⟨l2, g2, r2⟩ := ih a1 a' h2 g1
    refine ⟨l1.trans l2, g2, fun np' hm => ?_⟩
    rcases List.mem_cons.1 hm with he | hm
    · subst he; exact ⟨n, satN_mono l2.toALe s1⟩
    · exact r2 np' hm

theorem solveStarts_spec (E : Env) (root : NodeId) (htopo : E.p.topoDeep) (a : SA)
    (h : a ∈ solveStarts E root) :
    (∀ np ∈ E.p.outputNodes, ∃ n, a.assign.node np = some n ∧ SatN E a.assign np n) ∧
      (∀ np, E.p.outputNodes.head? = some np → a.assign.node np = some root) := by
  unfold solveStarts at h
  split at h
  · next hnil => simp [hnil]
  · next np rest hcons =>
    simp only [List.mem_flatMap] at h
    obtain ⟨a1, h1, h2⟩ := h
    have g0 : GoodSA E ({} : SA) [] := by intro q m hq; simp at hq
    obtain ⟨l1, g1, s1⟩ := solveN_spec E htopo _ np root {} [] a1 h1 g0 (fun _ h => by simp at h)
    obtain ⟨l2, _, r2⟩ := solveOutNodes_spec E htopo rest a1 a h2 g1
    have s1' := satN_mono l2.toALe s1
    rw [hcons]
    refine ⟨fun np' hm => ?_, fun np' hh => ?_⟩
    · rcases List.mem_cons.1 hm with he | hm
      · subst he; exact ⟨root, satN_node s1', s1'⟩
      · obtain ⟨n, hn⟩ := r2 np' hm
        exact ⟨n, satN_node hn, hn⟩
    · simp at hh; subst hh; exact satN_node s1'

theorem solve_sound_core (E : Env) (root : NodeId) (rm : Bool) (s : Sol) (htopo : E.p.topoDeep)
    (h : s ∈ solve E root rm) :
    ∃ A, Instance E root A ∧ E.p.outputs.mapM (A.outputOf E.p) = some s.outputs ∧
      (∀ k b, A.names k = some b → s.names.lookup k = some b) ∧
      (rm = true → Removable E.g s.nodes s.outputs) := by
  unfold solve at h
  split at h
  · simp at h
  · next hcond =>
    simp only [List.mem_filterMap] at h
    obtain ⟨a, ha, hf⟩ := h
    obtain ⟨r1, r2⟩ := solveStarts_spec E root htopo a ha
    unfold finishSol at hf
    split at hf
    · cases hf
    · next outs ho =>
      split at hf
      · cases hf
      · next hv =>
        cases hf
        refine ⟨a.assign, ⟨r2, r1, by simpa using hcond⟩, ho, fun k b hk => (inputs_fold_le E.p.inputs a.names).1 k b hk, fun hrm => ?_⟩
        subst hrm
        simp only [Bool.true_and, Bool.not_eq_true', Bool.not_eq_false] at hv
        exact validToReplace_removable _ _ _ (by simpa using hv)

end OV.C06
