import OV.Lemmas.C01Eager
/-! Eager calling convention, the converse direction: a call that reaches the body is a call CPython accepts
(unconditionally since 29a1f68 removed the two leniencies of `tag_arguments_with_signature`, finding C01-D49). -/
namespace OV.C01.Eager
open OV.C01

variable {V : Type}

/-- one step of the tagging loop on a non-variadic parameter, read off a successful run -/
theorem tagLoop_cons_ok {A} (d : SigParam → A) (kw : List (Name × A)) (p : SigParam) (ps : List SigParam) (i : Nat)
    (as0 : List A) (ta : List (A × SigParam)) (tk : List (Name × A × SigParam))
    (hv : (p.isInput && p.variadic) = false) (h : tagLoop false d kw i as0 (p :: ps) = .ok (ta, tk)) :
    ∃ ta' tk', tagLoop false d kw (i + 1) as0 ps = .ok (ta', tk') ∧
      ((∃ a, as0[i]? = some a ∧ lk p.name kw = none ∧ ta = (a, p) :: ta' ∧ tk = tk') ∨
       (as0[i]? = none ∧ ta = ta' ∧
         ((∃ v, lk p.name kw = some v ∧ tk = (p.name, v, p) :: tk') ∨ (lk p.name kw = none ∧ tk = tk')))) := by
  unfold tagLoop at h
  simp only [hv, Bool.false_eq_true, if_false] at h
  cases hi : as0[i]? with
  | some a =>
    simp only [hi] at h
    cases hk : lk p.name kw with
    | some v => simp [hk] at h
    | none =>
      simp only [hk, Option.isSome_none, Bool.false_eq_true, if_false] at h
      cases hr : tagLoop false d kw (i + 1) as0 ps with
      | error e => simp [hr] at h
      | ok r =>
        obtain ⟨ta', tk'⟩ := r
        simp only [hr, Except.ok.injEq, Prod.mk.injEq] at h
        exact ⟨ta', tk', rfl, Or.inl ⟨a, rfl, rfl, h.1.symm, h.2.symm⟩⟩
  | none =>
    simp only [hi] at h
    cases hk : lk p.name kw with
    | some v =>
      simp only [hk] at h
      cases hr : tagLoop false d kw (i + 1) as0 ps with
      | error e => simp [hr] at h
      | ok r =>
        obtain ⟨ta', tk'⟩ := r
        simp only [hr, Except.ok.injEq, Prod.mk.injEq] at h
        exact ⟨ta', tk', rfl, Or.inr ⟨rfl, h.1.symm, Or.inl ⟨v, rfl, h.2.symm⟩⟩⟩
    | none =>
      simp only [hk] at h
      cases hr : tagLoop false d kw (i + 1) as0 ps with
      | error e =>
        split at h
        · simp [hr] at h
        · split at h
          · simp at h
          · simp [hr] at h
      | ok r =>
        obtain ⟨ta', tk'⟩ := r
        refine ⟨ta', tk', rfl, Or.inr ⟨rfl, ?_⟩⟩
        split at h
        · simp only [hr, Except.ok.injEq, Prod.mk.injEq] at h
          exact ⟨h.1.symm, Or.inr ⟨rfl, h.2.symm⟩⟩
        · split at h
          · simp at h
          · simp only [hr, Except.ok.injEq, Prod.mk.injEq] at h
            exact ⟨h.1.symm, Or.inr ⟨rfl, h.2.symm⟩⟩

/-- every entry of `tagged_kwargs` is an entry of the caller's `kwargs` -/
theorem tagLoop_keys {A} (d : SigParam → A) (kw : List (Name × A)) :
    ∀ (ps : List SigParam) (qs : List (PyParam A)) (i : Nat) (as0 : List A) (ta : List (A × SigParam))
      (tk : List (Name × A × SigParam)), sigMatch ps qs = true →
      tagLoop false d kw i as0 ps = .ok (ta, tk) → ∀ e ∈ tk, lk e.1 kw = some e.2.1
  | [], _, _, _, ta, tk, _, h => by
    simp only [tagLoop, Except.ok.injEq, Prod.mk.injEq] at h
    intro e he; rw [← h.2] at he; cases he
  | _ :: _, [], _, _, _, _, hs, _ => by simp [sigMatch] at hs
  | p :: ps, q :: qs, i, as0, ta, tk, hs, h => by
    simp only [sigMatch, Bool.and_eq_true, decide_eq_true_eq, Bool.not_eq_true'] at hs
    have hv : (p.isInput && p.variadic) = false := by simp [hs.1.1.1.2]
    obtain ⟨ta', tk', hr, hcase⟩ := tagLoop_cons_ok d kw p ps i as0 ta tk hv h
    have ih := tagLoop_keys d kw ps qs (i + 1) as0 ta' tk' hs.2 hr
    rcases hcase with ⟨a, _, _, _, htk⟩ | ⟨_, _, ⟨v, hk, htk⟩ | ⟨_, htk⟩⟩
    · rw [htk]; exact ih
    · rw [htk]; intro e he
      rcases List.mem_cons.mp he with he | he
      · subst he; exact hk
      · exact ih e he
    · rw [htk]; exact ih

/-- number of positionally tagged values, and: no positionally given parameter is also a keyword -/
theorem tagLoop_len {A} (d : SigParam → A) (kw : List (Name × A)) :
    ∀ (ps : List SigParam) (qs : List (PyParam A)) (i : Nat) (as0 : List A) (ta : List (A × SigParam))
      (tk : List (Name × A × SigParam)), sigMatch ps qs = true →
      tagLoop false d kw i as0 ps = .ok (ta, tk) →
      ta.length = min (as0.length - i) ps.length ∧ ∀ p ∈ ps.take (as0.length - i), lk p.name kw = none
  | [], _, _, _, ta, tk, _, h => by
    simp only [tagLoop, Except.ok.injEq, Prod.mk.injEq] at h
    simp [← h.1]
  | _ :: _, [], _, _, _, _, hs, _ => by simp [sigMatch] at hs
  | p :: ps, q :: qs, i, as0, ta, tk, hs, h => by
    simp only [sigMatch, Bool.and_eq_true, decide_eq_true_eq, Bool.not_eq_true'] at hs
    have hv : (p.isInput && p.variadic) = false := by simp [hs.1.1.1.2]
    obtain ⟨ta', tk', hr, hcase⟩ := tagLoop_cons_ok d kw p ps i as0 ta tk hv h
    obtain ⟨ih1, ih2⟩ := tagLoop_len d kw ps qs (i + 1) as0 ta' tk' hs.2 hr
    rcases hcase with ⟨a, hi, hk, hta, _⟩ | ⟨hi, hta, _⟩
    · have hlt : i < as0.length := by
        rcases Nat.lt_or_ge i as0.length with hlt | hge
        · exact hlt
        · simp [List.getElem?_eq_none hge] at hi
      constructor
      · rw [hta]; simp only [List.length_cons, ih1]; omega
      · intro p' hp'
        have : as0.length - i = (as0.length - (i + 1)) + 1 := by omega
        rw [this, List.take_succ_cons] at hp'
        rcases List.mem_cons.mp hp' with rfl | hp'
        · exact hk
        · exact ih2 p' hp'
    · have hge : as0.length ≤ i := by
        rcases Nat.lt_or_ge i as0.length with hlt | hge
        · simp [List.getElem?_eq_getElem hlt] at hi
        · exact hge
      constructor
      · rw [hta, ih1]; omega
      · have : as0.length - i = 0 := by omega
        simp [this]

theorem adaptArgs_len (mk : Mk V) : ∀ (ta : List (Arg V × SigParam)) (pos : List (Arg V)),
    adaptArgs mk ta = .ok pos → pos.length = ta.length
  | [], pos, h => by simp only [adaptArgs, Except.ok.injEq] at h; simp [← h]
  | (a, p) :: r, pos, h => by
    simp only [adaptArgs] at h
    cases ha : adaptTagged mk p a with
    | error e => simp [ha] at h
    | ok y =>
      cases hr : adaptArgs mk r with
      | error e => simp [ha, hr] at h
      | ok ys =>
        simp only [ha, hr, Except.ok.injEq] at h
        simp [← h, adaptArgs_len mk r ys hr]

theorem adaptKw_keys (mk : Mk V) : ∀ (tk : List (Name × Arg V × SigParam)) (K : List (Name × Arg V)) (n : Name) (y : Arg V),
    adaptKw mk tk = .ok K → lk n K = some y → ∃ e ∈ tk, e.1 = n
  | [], K, n, y, h, hl => by
    simp only [adaptKw, Except.ok.injEq] at h
    subst h; simp [lk] at hl
  | (m, a, p) :: r, K, n, y, h, hl => by
    simp only [adaptKw] at h
    cases ha : adaptTagged mk p a with
    | error e => simp [ha] at h
    | ok z =>
      cases hr : adaptKw mk r with
      | error e => simp [ha, hr] at h
      | ok ys =>
        simp only [ha, hr, Except.ok.injEq] at h
        subst h
        simp only [lk] at hl
        by_cases hmn : m = n
        · exact ⟨(m, a, p), List.mem_cons_self, hmn⟩
        · simp only [hmn, if_false] at hl
          obtain ⟨e, he, hen⟩ := adaptKw_keys mk r ys n y hr hl
          exact ⟨e, List.mem_cons_of_mem _ he, hen⟩

theorem bindRest_transfer {A} (kw K : List (Name × A)) (hK : ∀ n y, lk n K = some y → ∃ v, lk n kw = some v) :
    ∀ (qs : List (PyParam A)) (e : List (Name × A)), bindRest K qs = .ok e → ∃ env, bindRest kw qs = .ok env
  | [], _, _ => ⟨[], rfl⟩
  | q :: qs, e, h => by
    simp only [bindRest] at h
    have hrest : ∃ r, bindRest K qs = .ok r := by
      cases hr : bindRest K qs with
      | ok r => exact ⟨r, rfl⟩
      | error er =>
        rw [hr] at h
        split at h <;> simp at h
    obtain ⟨r, hr⟩ := hrest
    obtain ⟨env, henv⟩ := bindRest_transfer kw K hK qs r hr
    cases hk : lk q.name K with
    | some y =>
      obtain ⟨v, hv⟩ := hK q.name y hk
      exact ⟨(q.name, v) :: env, by simp [bindRest, hv, henv]⟩
    | none =>
      simp only [hk] at h
      cases hd : q.dflt with
      | none => simp [hd] at h
      | some dv =>
        cases hv : lk q.name kw with
        | some v => exact ⟨(q.name, v) :: env, by simp [bindRest, hv, henv]⟩
        | none => exact ⟨(q.name, dv) :: env, by simp [bindRest, hv, hd, henv]⟩

theorem bindPos_transfer {A} (kw K : List (Name × A)) (hK : ∀ n y, lk n K = some y → ∃ v, lk n kw = some v) :
    ∀ (qs : List (PyParam A)) (pos args : List A) (e : List (Name × A)), pos.length = args.length →
      bindPos K qs pos = .ok e → ∃ env, bindPos kw qs args = .ok env
  | qs, [], [], e, _, h => by
    rw [bindPos_nil] at h ⊢
    exact bindRest_transfer kw K hK qs e h
  | _, [], _ :: _, _, hl, _ => by simp at hl
  | _, _ :: _, [], _, hl, _ => by simp at hl
  | [], _ :: _, _ :: _, _, _, h => by simp [bindPos] at h
  | q :: qs, y :: pos, a :: args, e, hl, h => by
    simp only [bindPos] at h
    cases hr : bindPos K qs pos with
    | error er => simp [hr] at h
    | ok r =>
      obtain ⟨env, henv⟩ := bindPos_transfer kw K hK qs pos args r (by simpa using hl) hr
      exact ⟨(q.name, a) :: env, by simp [bindPos, henv]⟩

theorem keys_in_rest {A B} (ps : List SigParam) (qs : List (PyParam B)) (n : Nat) (hs : sigMatch ps qs = true) :
    ∀ (kw : List (Name × A)), kw.any (fun e => !(ps.any (fun p => p.name = e.1))) = false →
      kw.all (fun e => !((qs.take n).any (fun q => q.name = e.1))) = true →
      kw.any (fun e => !((qs.drop n).any (fun q => q.name = e.1))) = false
  | [], _, _ => rfl
  | (k, v) :: kw, h1, h2 => by
    simp only [List.any_cons, Bool.or_eq_false_iff, Bool.not_eq_false'] at h1
    simp only [List.all_cons, Bool.and_eq_true, Bool.not_eq_true'] at h2
    simp only [List.any_cons, Bool.or_eq_false_iff, Bool.not_eq_false']
    refine ⟨?_, keys_in_rest ps qs n hs kw h1.2 h2.2⟩
    have hq : qs.any (fun q => q.name = k) = true := by rw [sigMatch_any ps qs k hs]; exact h1.1
    rw [← List.take_append_drop n qs, List.any_append, h2.1, Bool.false_or] at hq
    exact hq

theorem sigMatch_take {A} : ∀ (n : Nat) (ps : List SigParam) (qs : List (PyParam A)), sigMatch ps qs = true →
    sigMatch (ps.take n) (qs.take n) = true
  | 0, _, _, _ => by simp [sigMatch]
  | _ + 1, [], [], _ => rfl
  | _ + 1, [], _ :: _, h => by simp [sigMatch] at h
  | _ + 1, _ :: _, [], h => by simp [sigMatch] at h
  | n + 1, p :: ps, q :: qs, h => by
    simp only [sigMatch, Bool.and_eq_true] at h
    simp only [List.take_succ_cons, sigMatch, Bool.and_eq_true]
    exact ⟨h.1, sigMatch_take n ps qs h.2⟩

theorem lk_ne_none_of_mem {A} (n : Name) : ∀ (kw : List (Name × A)) (v : A), (n, v) ∈ kw → lk n kw ≠ none
  | [], _, h => by cases h
  | (k, w) :: kw, v, h => by
    simp only [lk]
    by_cases hk : k = n
    · simp [hk]
    · simp only [hk, if_false]
      rcases List.mem_cons.mp h with h | h
      · exact absurd (Prod.mk.inj h).1.symm hk
      · exact lk_ne_none_of_mem n kw v h

/-- a call that reaches the body is a call CPython accepts (after 29a1f68: no side condition on the call) -/
theorem eagerCall_ok_python (mk : Mk V) (ps : List SigParam) (qs : List (PyParam (Arg V)))
    (args : List (Arg V)) (kw : List (Name × Arg V)) (hs : sigMatch ps qs = true)
    (hok : ∃ r, eagerCall mk false ps qs args kw = .ok r) : ∃ env, pyBind qs args kw = .ok env := by
  obtain ⟨r, hr⟩ := hok
  unfold eagerCall at hr
  cases hT : tagArguments false false (fun _ => Arg.none) ps args kw with
  | error e => simp [hT] at hr
  | ok T =>
    obtain ⟨ta, tk⟩ := T
    simp only [hT] at hr
    unfold tagArguments at hT
    split at hT
    · simp at hT
    · rename_i hchk
      have hchk' : kw.any (fun e => !(ps.any (fun p => p.name = e.1))) = false := by simpa using hchk
      split at hT
      · simp at hT
      · rename_i hmany
        have hlen : args.length ≤ qs.length := by
          rw [sigMatch_length ps qs hs]
          simp only [sigMatch_noVar ps qs hs, Bool.not_false, Bool.true_and, decide_eq_true_eq] at hmany
          omega
        have ht : tagLoop false (fun _ => Arg.none) kw 0 args ps = .ok (ta, tk) := hT
        obtain ⟨hl1, hl2⟩ := tagLoop_len (fun _ => Arg.none) kw ps qs 0 args ta tk hs ht
        have hdup : kw.all (fun e => !((qs.take args.length).any (fun q => q.name = e.1))) = true := by
          rw [List.all_eq_true]
          intro e he
          cases hany : (qs.take args.length).any (fun q => q.name = e.1) with
          | false => rfl
          | true =>
            exfalso
            rw [sigMatch_any (ps.take args.length) (qs.take args.length) e.1 (sigMatch_take args.length ps qs hs)] at hany
            obtain ⟨p, hp, hpn⟩ := List.any_eq_true.mp hany
            have hnone := hl2 p (by simpa using hp)
            rw [of_decide_eq_true hpn] at hnone
            exact lk_ne_none_of_mem e.1 kw e.2 he hnone
        cases hA : adaptArgs mk ta with
        | error e => simp [hA] at hr
        | ok pos =>
          cases hK : adaptKw mk tk with
          | error e => simp [hA, hK] at hr
          | ok K =>
            simp only [hA, hK] at hr
            cases hb : pyBind qs pos K with
            | error e => simp [hb] at hr
            | ok env' =>
              have hposlen : pos.length = args.length := by
                rw [adaptArgs_len mk ta pos hA, hl1, ← sigMatch_length ps qs hs]
                omega
              have hKkw : ∀ n y, lk n K = some y → ∃ v, lk n kw = some v := by
                intro n y hl
                obtain ⟨e, he, hen⟩ := adaptKw_keys mk tk K n y hK hl
                exact ⟨e.2.1, by rw [← hen]; exact tagLoop_keys _ kw ps qs 0 args ta tk hs ht e he⟩
              unfold pyBind at hb
              split at hb
              · simp at hb
              · split at hb
                · simp at hb
                · obtain ⟨env, henv⟩ := bindPos_transfer kw K hKkw qs pos args env' hposlen hb
                  refine ⟨env, ?_⟩
                  unfold pyBind
                  rw [if_neg (by omega), keys_in_rest ps qs args.length hs kw hchk' hdup]
                  simpa using henv

end OV.C01.Eager
