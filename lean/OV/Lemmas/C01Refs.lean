import OV.Lemmas.C01Export
import OV.Lemmas.C01SimIf
/-!
# C02 — the attribute parameters an emitted body refers to

Every `@p` in a node emitted by the converter comes from a binding `x ↦ AttrRef p` in scope (`_translate_attr` for
keyword arguments, `_to_onnx_var` for an attribute parameter read as a value), and the only such bindings are the
attribute parameters of the function.  Hence `to_model_proto`, which substitutes their defaults, leaves no
reference (`export_no_attr_refs` without hypothesis on the body).
-/
namespace OV.C01

/-- Every attribute binding in scope refers to a member of `A`. -/
def AttrIn (A : List Name) (L : Locals) : Prop := ∀ x p ty, lookup L x = some (.attr p ty) → p ∈ A

/-- Every attribute parameter `ns` refers to (at any depth) is in `A`. -/
def RefsIn (A : List Name) (ns : List Node) : Prop := ∀ q, q ∈ attrRefs ns → q ∈ A

theorem attrRefs_append : ∀ (a b : List Node), attrRefs (a ++ b) = attrRefs a ++ attrRefs b
  | [], b => rfl
  | n :: a, b => by simp only [List.cons_append, attrRefs, attrRefs_append a b, List.append_assoc]

theorem RefsIn.nil (A : List Name) : RefsIn A [] := fun _ h => by simp [attrRefs] at h

theorem RefsIn.append {A : List Name} {a b : List Node} (ha : RefsIn A a) (hb : RefsIn A b) : RefsIn A (a ++ b) := by
  intro q hq
  rw [attrRefs_append] at hq
  rcases List.mem_append.mp hq with h | h
  · exact ha q h
  · exact hb q h

theorem RefsIn.of_norefs {A : List Name} {ns : List Node} (h : attrRefs ns = []) : RefsIn A ns :=
  fun q hq => by rw [h] at hq; cases hq

theorem refs_op_const (dom name : String) (ins : List (Option Name)) (outs : List Name)
    (attrs : List (String × AttrV)) (h : ∀ kv, kv ∈ attrs → ∀ p, kv.2 ≠ .ref p) :
    attrRefs [Node.op dom name ins outs attrs] = [] := by
  simp only [attrRefs, attrRefsNode, List.append_nil]
  rw [List.filterMap_eq_nil_iff]
  intro kv hkv
  cases hv : kv.2 with
  | const r => rfl
  | ref p => exact absurd hv (h kv hkv p)

theorem AttrIn.bindVal {A : List Name} {L : Locals} (h : AttrIn A L) (x n : Name) :
    AttrIn A (bindVar L x (.val n)) := by
  intro y p ty hl
  by_cases hy : y = x
  · subst hy
    rw [lookup_bindVar_same] at hl
    cases hl
  · rw [lookup_bindVar_ne hy] at hl
    exact h y p ty hl

theorem AttrIn.bindVals {A : List Name} {L : Locals} (h : AttrIn A L) : ∀ (xs ns : List Name),
    AttrIn A (OV.C01.bindVals L xs ns) := by
  intro xs
  induction xs generalizing L with
  | nil => intro ns; cases ns <;> exact h
  | cons x xs ih =>
    intro ns
    cases ns with
    | nil => exact h
    | cons n ns => exact ih (h.bindVal x n) ns

theorem AttrIn.push {A : List Name} {L : Locals} (h : AttrIn A L) : AttrIn A ([] :: L) := by
  intro x p ty hl
  rw [lookup_push] at hl
  exact h x p ty hl

theorem AttrIn.current {A : List Name} {L : Locals} (h : AttrIn A L) {x p : Name} {ty : AttrTy}
    (hc : currentScopeFind L x = some (.attr p ty)) : p ∈ A :=
  h x p ty (current_lookup hc)

/-! ## Leaf emitters -/

theorem emitConst_refs {A : List Name} {l : Lit} {sug : Option Name} {x : Name} {ns : List Node} {s s' : St}
    (h : emitConst l sug s = .ok ((x, ns), s')) : RefsIn A ns := by
  unfold emitConst at h
  mbind h with n s1 hn
  mbind h with u s2 hm
  obtain ⟨h1, _⟩ := pure_ok h
  cases h1
  exact RefsIn.of_norefs (refs_op_const _ _ _ _ _ (by
    intro kv hkv p hp
    simp only [List.mem_singleton] at hkv
    subst hkv
    cases hp))

theorem emitCopy_refs {A : List Name} {o sug x : Name} {ns : List Node} {s s' : St}
    (h : emitCopy o sug s = .ok ((x, ns), s')) : RefsIn A ns := by
  unfold emitCopy at h
  mbind h with n s1 hn
  obtain ⟨h1, _⟩ := pure_ok h
  cases h1
  exact RefsIn.of_norefs (refs_op_const _ _ _ _ _ (by intro kv hkv; cases hkv))

theorem toOnnxVar_refs {A : List Name} {b : Bind} {t x : Name} {ns : List Node} {s s' : St}
    (hb : ∀ p ty, b = .attr p ty → p ∈ A) (h : toOnnxVar b t s = .ok ((x, ns), s')) : RefsIn A ns := by
  cases b with
  | val n =>
    obtain ⟨_, rfl, _⟩ := toOnnxVar_val h
    exact RefsIn.nil A
  | attr p ty =>
    have hp := hb p ty rfl
    unfold toOnnxVar at h
    simp only at h
    mbind h with r s1 h1
    cases han : attrValueName ty with
    | none => simp only [han] at h; exact (failM_ok h).elim
    | some an =>
      simp only [han] at h
      by_cases hty : ty = .bool
      · rw [if_pos hty] at h
        mbind h with rb s2 h2
        mbind h with u s3 h3
        obtain ⟨e1, _⟩ := pure_ok h
        cases e1
        intro q hq
        simp [attrRefs, attrRefsNode] at hq
        subst hq
        exact hp
      · rw [if_neg hty] at h
        mbind h with u s2 h2
        obtain ⟨e1, _⟩ := pure_ok h
        cases e1
        intro q hq
        simp [attrRefs, attrRefsNode] at hq
        subst hq
        exact hp

theorem pyVar_refs {A : List Name} {L : Locals} (hL : AttrIn A L) {v x : Name} {ns : List Node} {s s' : St}
    (h : pyVar L v s = .ok ((x, ns), s')) : RefsIn A ns := by
  unfold pyVar at h
  cases hl : lookup L v with
  | none => simp only [hl] at h; exact (failM_ok h).elim
  | some b =>
    simp only [hl] at h
    exact toOnnxVar_refs (fun p ty hb => hL v p ty (by rw [hl, hb])) h

theorem castOne_refs {A : List Name} {a : Name} {tgt : Option Name} {x : Name} {ns : List Node} {s s' : St}
    (h : castOne a tgt s = .ok ((x, ns), s')) : RefsIn A ns := by
  unfold castOne at h
  cases tgt with
  | none => simp only at h; cases h; exact RefsIn.nil A
  | some y =>
    simp only at h
    by_cases hc : s.castable.contains a = true
    · simp only [hc, if_true] at h
      cases hg : genUnique (a ++ "_cast") s with
      | error e => simp only [hg] at h; cases h
      | ok p =>
        obtain ⟨xc, s1⟩ := p
        simp only [hg] at h
        cases h
        exact RefsIn.of_norefs (refs_op_const _ _ _ _ _ (by intro kv hkv; cases hkv))
    · simp only [hc] at h
      cases h
      exact RefsIn.nil A

theorem castArgs_refs {A : List Name} {sig : Sig} {bs : List (String × Name)} :
    ∀ (as : List Name) (i : Nat) {xs : List Name} {ns : List Node} {s s' : St},
      castArgs sig bs as i s = .ok ((xs, ns), s') → RefsIn A ns := by
  intro as
  induction as with
  | nil =>
    intro i xs ns s s' h
    unfold castArgs at h
    obtain ⟨h1, _⟩ := pure_ok h
    cases h1
    exact RefsIn.nil A
  | cons a as ih =>
    intro i xs ns s s' h
    unfold castArgs at h
    mbind h with p s1 hc
    obtain ⟨x, n1⟩ := p
    mbind h with p s2 hr
    obtain ⟨rest, ns'⟩ := p
    obtain ⟨h1, _⟩ := pure_ok h
    cases h1
    exact (castOne_refs hc).append (ih _ hr)

theorem castInputs_refs {A : List Name} {sig : Sig} {as xs : List Name} {ns : List Node} {s s' : St}
    (h : castInputs sig as s = .ok ((xs, ns), s')) : RefsIn A ns := by
  unfold castInputs at h
  by_cases hk : (!sig.known) = true
  · rw [if_pos hk] at h
    cases h
    exact RefsIn.nil A
  · rw [if_neg hk] at h
    cases hbs : castBindings sig s.castable as 0 [] with
    | none => simp only [hbs] at h; cases h
    | some bs =>
      simp only [hbs] at h
      exact castArgs_refs as 0 h

theorem convAttrs_refs {A : List Name} {L : Locals} (hL : AttrIn A L) : ∀ (attrs attrs' : List (String × AttrV)),
    convAttrs L attrs = .ok attrs' → ∀ kv, kv ∈ attrs' → ∀ q, kv.2 = .ref q → q ∈ A := by
  intro attrs
  induction attrs with
  | nil => intro attrs' h; simp only [convAttrs] at h; cases h; intro kv hkv; cases hkv
  | cons kv0 rest ih =>
    intro attrs' h
    obtain ⟨k, v⟩ := kv0
    cases v with
    | const r =>
      simp only [convAttrs] at h
      cases hr : convAttrs L rest with
      | error e => simp [hr, bind, Except.bind] at h
      | ok rs =>
        simp [hr, bind, Except.bind] at h
        cases h
        intro kv hkv q hq
        rcases List.mem_cons.mp hkv with rfl | hm
        · cases hq
        · exact ih rs hr kv hm q hq
    | ref p =>
      simp only [convAttrs] at h
      cases hl : lookup L p with
      | none => simp [hl] at h
      | some b =>
        cases b with
        | val n => simp [hl] at h
        | attr q0 ty =>
          simp only [hl] at h
          cases hr : convAttrs L rest with
          | error e => simp [hr, bind, Except.bind] at h
          | ok rs =>
            simp [hr, bind, Except.bind] at h
            cases h
            intro kv hkv q hq
            rcases List.mem_cons.mp hkv with rfl | hm
            · have : q0 = q := by injection hq
              subst this
              exact hL p q0 ty hl
            · exact ih rs hr kv hm q hq

theorem refs_op_in {A : List Name} (dom name : String) (ins : List (Option Name)) (outs : List Name)
    (attrs : List (String × AttrV)) (h : ∀ kv, kv ∈ attrs → ∀ q, kv.2 = .ref q → q ∈ A) :
    RefsIn A [Node.op dom name ins outs attrs] := by
  intro q hq
  simp only [attrRefs, attrRefsNode, List.append_nil, List.mem_filterMap] at hq
  obtain ⟨kv, hkv, hm⟩ := hq
  cases hv : kv.2 with
  | const r => simp [hv] at hm
  | ref p =>
    simp only [hv, Option.some.injEq] at hm
    subst hm
    exact h kv hkv p hv

/-! ## Constant subscripts -/

theorem const1d_refs {A : List Name} {c c' : IntCache} {v : Int} {x : Name} {ns : List Node} {s s' : St}
    (h : const1d c v s = .ok ((x, ns, c'), s')) : RefsIn A ns := by
  unfold const1d at h
  cases hf : cacheFind c v with
  | some n =>
    simp only [hf] at h
    obtain ⟨e1, _⟩ := pure_ok h
    cases e1
    exact RefsIn.nil A
  | none =>
    simp only [hf] at h
    mbind h with p s1 h1
    obtain ⟨n, ns'⟩ := p
    try dsimp only at h
    obtain ⟨e1, _⟩ := pure_ok h
    cases e1
    exact emitConst_refs h1

theorem convSlice_refs {A : List Name} {c c' : IntCache} {lo up st : Option Int} {r : Name × Name × Name}
    {ns : List Node} {s s' : St} (h : convSlice c lo up st s = .ok ((r, ns, c'), s')) : RefsIn A ns := by
  unfold convSlice at h
  mbind h with p s1 h1
  obtain ⟨sn, ns1, c1⟩ := p
  try dsimp only at h
  mbind h with p s2 h2
  obtain ⟨ln, ns2, c2⟩ := p
  try dsimp only at h
  mbind h with p s3 h3
  obtain ⟨un, ns3, c3⟩ := p
  try dsimp only at h
  obtain ⟨e1, _⟩ := pure_ok h
  cases e1
  exact (const1d_refs h1).append ((const1d_refs h2).append (const1d_refs h3))

theorem convSlices_refs {A : List Name} : ∀ (els : List SliceEl) {c c' : IntCache}
    {r : List Name × List Name × List Name × List Name} {ns : List Node} {s s' : St},
    convSlices c els s = .ok ((r, ns, c'), s') → RefsIn A ns := by
  intro els
  induction els with
  | nil =>
    intro c c' r ns s s' h
    unfold convSlices at h
    obtain ⟨e1, _⟩ := pure_ok h
    cases e1
    exact RefsIn.nil A
  | cons el rest ih =>
    intro c c' r ns s s' h
    obtain ⟨ax, lo, up, st⟩ := el
    unfold convSlices at h
    mbind h with p s1 h1
    obtain ⟨an, ns0, c0⟩ := p
    try dsimp only at h
    mbind h with p s2 h2
    obtain ⟨⟨l, u, sn⟩, ns1, c1⟩ := p
    try dsimp only at h
    mbind h with p s3 h3
    obtain ⟨⟨ls, us, as, ss⟩, ns2, c2⟩ := p
    try dsimp only at h
    obtain ⟨e1, _⟩ := pure_ok h
    cases e1
    exact (const1d_refs h1).append ((convSlice_refs h2).append (ih h3))

theorem pickOrConcat_refs {A : List Name} {cand : Name} {xs : List Name} {x : Name} {ns : List Node} {s s' : St}
    (h : pickOrConcat cand xs s = .ok ((x, ns), s')) : RefsIn A ns := by
  have hc : ∀ {s s' : St} {x : Name} {ns : List Node},
      (do let r ← genUnique cand
          pure (r, [Node.op "" "Concat" (xs.map some) [r] [("axis", AttrV.const "i:0")]]) : M (Name × List Node)) s
        = .ok ((x, ns), s') → RefsIn A ns := by
    intro s s' x ns h
    mbind h with r s1 h1
    obtain ⟨e1, _⟩ := pure_ok h
    cases e1
    exact RefsIn.of_norefs (refs_op_const _ _ _ _ _ (by
      intro kv hkv p hp
      simp only [List.mem_singleton] at hkv
      subst hkv
      cases hp))
  unfold pickOrConcat at h
  cases xs with
  | nil => exact hc h
  | cons a t =>
    cases t with
    | nil =>
      simp only at h
      obtain ⟨e1, _⟩ := pure_ok h
      cases e1
      exact RefsIn.nil A
    | cons b t' => exact hc h

theorem refs_noattr (dom name : String) (ins : List (Option Name)) (outs : List Name) :
    attrRefs [Node.op dom name ins outs []] = [] := by simp [attrRefs, attrRefsNode]

theorem convSubscript_refs {A : List Name} {var : Name} {tgt : Option Name} {idx : List Idx} {x : Name}
    {ns : List Node} {s s' : St} (h : convSubscript var tgt idx s = .ok ((x, ns), s')) : RefsIn A ns := by
  unfold convSubscript at h
  mbind h with target s0 h0
  try dsimp only at h
  by_cases hc : (!(slicedOf 0 idx).isEmpty || decide ((scalarsOf 0 idx).length > 1)) = true
  · rw [if_pos hc] at h
    mbind h with p s1 h1
    obtain ⟨⟨starts, ends, axes, steps⟩, ns1, cc⟩ := p
    try dsimp only at h
    mbind h with p s2 h2
    obtain ⟨sv, n1⟩ := p
    try dsimp only at h
    mbind h with p s3 h3
    obtain ⟨ev, n2⟩ := p
    try dsimp only at h
    mbind h with p s4 h4
    obtain ⟨av, n3⟩ := p
    try dsimp only at h
    mbind h with p s5 h5
    obtain ⟨tv, n4⟩ := p
    try dsimp only at h
    have hpre := (convSlices_refs (A := A) _ h1).append ((pickOrConcat_refs h2).append ((pickOrConcat_refs h3).append
      ((pickOrConcat_refs h4).append (pickOrConcat_refs (A := A) h5))))
    by_cases hsc : (scalarsOf 0 idx).isEmpty = true
    · rw [if_pos hsc] at h
      obtain ⟨e1, _⟩ := pure_ok h
      cases e1
      have := hpre.append (RefsIn.of_norefs (A := A) (refs_noattr "" "Slice" [some var, some sv, some ev, some av, some tv] [x]))
      simpa [List.append_assoc] using this
    · rw [if_neg hsc] at h
      mbind h with sliced s6 h6
      mbind h with p s7 h7
      obtain ⟨sq, n5⟩ := p
      try dsimp only at h
      obtain ⟨e1, _⟩ := pure_ok h
      cases e1
      have := hpre.append ((RefsIn.of_norefs (A := A)
        (refs_noattr "" "Slice" [some var, some sv, some ev, some av, some tv] [sliced])).append
        ((emitConst_refs h7).append (RefsIn.of_norefs (A := A) (refs_noattr "" "Squeeze" [some sliced, some sq] [x]))))
      simpa [List.append_assoc] using this
  · rw [if_neg hc] at h
    cases hsc : scalarsOf 0 idx with
    | nil =>
      simp only [hsc] at h
      obtain ⟨e1, _⟩ := pure_ok h
      cases e1
      exact RefsIn.of_norefs (refs_noattr _ _ _ _)
    | cons p rest =>
      obtain ⟨ax, k⟩ := p
      simp only [hsc] at h
      mbind h with q s1 h1
      obtain ⟨iv, n1⟩ := q
      try dsimp only at h
      obtain ⟨e1, _⟩ := pure_ok h
      cases e1
      exact (emitConst_refs h1).append (RefsIn.of_norefs (refs_op_const _ _ _ _ _ (by
        intro kv hkv p hp
        simp only [List.mem_singleton] at hkv
        subst hkv
        cases hp)))

/-! ## Expressions -/

mutual
theorem convExpr_refs {A : List Name} (L : Locals) (hL : AttrIn A L) :
    ∀ (e : Expr) (tgt : Option Name) {x : Name} {ns : List Node} {s s' : St},
    convExpr L e tgt s = .ok ((x, ns), s') → RefsIn A ns
  | .var v, tgt, x, ns, s, s', h => by
    unfold convExpr at h
    exact pyVar_refs hL h
  | .lit l, tgt, x, ns, s, s', h => by
    unfold convExpr at h
    exact emitConst_refs h
  | .call dom op sig args attrs, tgt, x, ns, s, s', h => by
    unfold convExpr at h
    mbind h with p s1 h1
    obtain ⟨as, ns1⟩ := p
    try dsimp only at h
    mbind h with attrs' s2 h2
    mbind h with p s3 h3
    obtain ⟨as', ns2⟩ := p
    try dsimp only at h
    mbind h with r s4 h4
    obtain ⟨e1, _⟩ := pure_ok h
    cases e1
    have hat : ∀ kv, kv ∈ attrs' → ∀ q, kv.2 = .ref q → q ∈ A := by
      unfold liftE at h2
      cases hca : convAttrs L attrs with
      | error e => simp [hca] at h2
      | ok a' =>
        simp only [hca] at h2
        cases h2
        exact convAttrs_refs hL _ _ hca
    exact (convArgs_refs L hL args h1).append ((castInputs_refs h3).append (refs_op_in _ _ _ _ _ hat))
  | .binop o a b, tgt, x, ns, s, s', h => by
    unfold convExpr at h
    cases hp : primop o with
    | none => simp only [hp] at h; exact (failM_ok h).elim
    | some oname =>
      simp only [hp] at h
      mbind h with p s1 h1
      obtain ⟨l, ns1⟩ := p
      try dsimp only at h
      mbind h with p s2 h2
      obtain ⟨r, ns2⟩ := p
      try dsimp only at h
      mbind h with p s3 h3
      obtain ⟨as', ns3⟩ := p
      try dsimp only at h
      mbind h with res s4 h4
      obtain ⟨e1, _⟩ := pure_ok h
      cases e1
      refine (convExpr_refs L hL a none h1).append ((convExpr_refs L hL b none h2).append
        ((castInputs_refs h3).append (refs_op_in _ _ _ _ _ ?_)))
      intro kv hkv q hq
      split at hkv
      · simp only [List.mem_singleton] at hkv
        subst hkv
        cases hq
      · cases hkv
  | .unop o a, tgt, x, ns, s, s', h => by
    unfold convExpr at h
    cases hp : primop o with
    | none => simp only [hp] at h; exact (failM_ok h).elim
    | some oname =>
      simp only [hp] at h
      cases hn : negatedLiteral o a with
      | some l => simp only [hn] at h; exact emitConst_refs h
      | none =>
        simp only [hn] at h
        mbind h with p s1 h1
        obtain ⟨y, ns1⟩ := p
        try dsimp only at h
        mbind h with res s4 h4
        obtain ⟨e1, _⟩ := pure_ok h
        cases e1
        exact (convExpr_refs L hL a none h1).append (RefsIn.of_norefs (refs_noattr _ _ _ _))
  | .cmp o a b, tgt, x, ns, s, s', h => by
    unfold convExpr at h
    cases hp : primop o with
    | none => simp only [hp] at h; exact (failM_ok h).elim
    | some oname =>
      simp only [hp] at h
      mbind h with p s1 h1
      obtain ⟨l, ns1⟩ := p
      try dsimp only at h
      mbind h with p s2 h2
      obtain ⟨r, ns2⟩ := p
      try dsimp only at h
      mbind h with p s3 h3
      obtain ⟨as', ns3⟩ := p
      try dsimp only at h
      by_cases hne : oname = "NotEqual"
      · simp only [hne, if_true] at h
        mbind h with tmp s4 h4
        mbind h with res s5 h5
        obtain ⟨e1, _⟩ := pure_ok h
        cases e1
        exact (convExpr_refs L hL a none h1).append ((convExpr_refs L hL b none h2).append
          ((castInputs_refs h3).append (RefsIn.of_norefs (by simp [attrRefs, attrRefsNode]))))
      · simp only [hne, if_false] at h
        mbind h with res s4 h4
        obtain ⟨e1, _⟩ := pure_ok h
        cases e1
        exact (convExpr_refs L hL a none h1).append ((convExpr_refs L hL b none h2).append
          ((castInputs_refs h3).append (RefsIn.of_norefs (refs_noattr _ _ _ _))))
  | .subscript base idx, tgt, x, ns, s, s', h => by
    unfold convExpr at h
    mbind h with p s1 h1
    obtain ⟨v, ns1⟩ := p
    try dsimp only at h
    mbind h with p s2 h2
    obtain ⟨r, ns2⟩ := p
    try dsimp only at h
    obtain ⟨e1, _⟩ := pure_ok h
    cases e1
    exact (convExpr_refs L hL base none h1).append (convSubscript_refs h2)
  | .other us, tgt, x, ns, s, s', h => by
    unfold convExpr at h
    exact (failM_ok h).elim
theorem convArgs_refs {A : List Name} (L : Locals) (hL : AttrIn A L) :
    ∀ (es : List Expr) {xs : List Name} {ns : List Node} {s s' : St},
    convArgs L es s = .ok ((xs, ns), s') → RefsIn A ns
  | [], xs, ns, s, s', h => by
    unfold convArgs at h
    obtain ⟨e1, _⟩ := pure_ok h
    cases e1
    exact RefsIn.nil A
  | e :: es, xs, ns, s, s', h => by
    unfold convArgs at h
    mbind h with p s1 h1
    obtain ⟨y, ns1⟩ := p
    try dsimp only at h
    mbind h with p s2 h2
    obtain ⟨ys, ns2⟩ := p
    try dsimp only at h
    obtain ⟨e1, _⟩ := pure_ok h
    cases e1
    exact (convExpr_refs L hL e none h1).append (convArgs_refs L hL es h2)
end

/-! ## Statements -/

theorem refs_ifN (c : Name) (outs : List Name) (tn : List Node) (to : List Name) (en : List Node) (eo : List Name) :
    attrRefs [Node.ifN c outs tn to en eo] = attrRefs tn ++ attrRefs en := by
  simp [attrRefs, attrRefsNode]

theorem refs_loop (b c : Option Name) (inits outs bi : List Name) (bn : List Node) (bo : List Name) :
    attrRefs [Node.loop b c inits outs bi bn bo] = attrRefs bn := by
  simp [attrRefs, attrRefsNode]

theorem blockOutputs_refs {A : List Name} (L : Locals) (hL : AttrIn A L) :
    ∀ (vs : List Name) (sofar : List Node) (outs : List Name) {os : List Name} {ns : List Node} {s s' : St},
    blockOutputs L vs sofar outs s = .ok ((os, ns), s') → RefsIn A ns := by
  intro vs
  induction vs with
  | nil =>
    intro sofar outs os ns s s' h
    unfold blockOutputs at h
    obtain ⟨e1, _⟩ := pure_ok h
    cases e1
    exact RefsIn.nil A
  | cons pv rest ih =>
    intro sofar outs os ns s s' h
    unfold blockOutputs at h
    cases hc : currentScopeFind L pv with
    | some b =>
      simp only [hc] at h
      mbind h with p s1 h1
      obtain ⟨o, ns1⟩ := p
      try dsimp only at h
      have r1 : RefsIn A ns1 := toOnnxVar_refs (fun p ty hb => hL.current (by rw [hc, hb])) h1
      by_cases hin : ((topDefs (sofar ++ ns1)).contains o && !outs.contains o) = true
      · rw [if_pos hin] at h
        mbind h with p s2 h2
        obtain ⟨os', ns2⟩ := p
        try dsimp only at h
        obtain ⟨e1, _⟩ := pure_ok h
        cases e1
        exact r1.append (ih _ _ h2)
      · rw [if_neg hin] at h
        mbind h with p s2 h2
        obtain ⟨o', nc⟩ := p
        try dsimp only at h
        mbind h with p s3 h3
        obtain ⟨os', ns2⟩ := p
        try dsimp only at h
        obtain ⟨e1, _⟩ := pure_ok h
        cases e1
        exact r1.append ((emitCopy_refs h2).append (ih _ _ h3))
    | none =>
      simp only [hc] at h
      cases hl : lookup L pv with
      | none => simp only [hl] at h; exact (failM_ok h).elim
      | some b =>
        simp only [hl] at h
        mbind h with p s1 h1
        obtain ⟨o, ns1⟩ := p
        try dsimp only at h
        mbind h with p s2 h2
        obtain ⟨o', nc⟩ := p
        try dsimp only at h
        mbind h with p s3 h3
        obtain ⟨os', ns2⟩ := p
        try dsimp only at h
        obtain ⟨e1, _⟩ := pure_ok h
        cases e1
        exact (toOnnxVar_refs (fun p ty hb => hL pv p ty (by rw [hl, hb])) h1).append
          ((emitCopy_refs h2).append (ih _ _ h3))

theorem loopOutputs_refs {A : List Name} (L : Locals) (hL : AttrIn A L) :
    ∀ (vs : List Name) (sofar : List Node) (outs : List Name) {os : List Name} {ns : List Node} {s s' : St},
    loopOutputs L vs sofar outs s = .ok ((os, ns), s') → RefsIn A ns := by
  intro vs
  induction vs with
  | nil =>
    intro sofar outs os ns s s' h
    unfold loopOutputs at h
    obtain ⟨e1, _⟩ := pure_ok h
    cases e1
    exact RefsIn.nil A
  | cons pv rest ih =>
    intro sofar outs os ns s s' h
    unfold loopOutputs at h
    mbind h with p s1 h1
    obtain ⟨o, ns1⟩ := p
    try dsimp only at h
    have r1 : RefsIn A ns1 := pyVar_refs hL h1
    by_cases hin : ((topDefs (sofar ++ ns1)).contains o && !outs.contains o) = true
    · rw [if_pos hin] at h
      mbind h with p s2 h2
      obtain ⟨os', ns2⟩ := p
      try dsimp only at h
      obtain ⟨e1, _⟩ := pure_ok h
      cases e1
      exact r1.append (ih _ _ h2)
    · rw [if_neg hin] at h
      mbind h with p s2 h2
      obtain ⟨o', nc⟩ := p
      try dsimp only at h
      mbind h with p s3 h3
      obtain ⟨os', ns2⟩ := p
      try dsimp only at h
      obtain ⟨e1, _⟩ := pure_ok h
      cases e1
      exact r1.append ((emitCopy_refs h2).append (ih _ _ h3))

theorem loopInits_refs {A : List Name} (L : Locals) (hL : AttrIn A L) :
    ∀ (state : List Name) {inits : List Name} {ns : List Node} {s s' : St},
    loopInits L state s = .ok ((inits, ns), s') → RefsIn A ns := by
  intro state
  induction state with
  | nil =>
    intro inits ns s s' h
    unfold loopInits at h
    obtain ⟨e1, _⟩ := pure_ok h
    cases e1
    exact RefsIn.nil A
  | cons pv rest ih =>
    intro inits ns s s' h
    unfold loopInits at h
    mbind h with p s1 h1
    obtain ⟨o, ns1⟩ := p
    try dsimp only at h
    mbind h with p s2 h2
    obtain ⟨os, ns2⟩ := p
    try dsimp only at h
    obtain ⟨e1, _⟩ := pure_ok h
    cases e1
    exact (pyVar_refs hL h1).append (ih h2)

theorem condNodes_refs {A : List Name} {whileVar brkCond : Option Name} {oc co : Name} {cns : List Node}
    {s s' : St} (h : condNodes whileVar brkCond oc s = .ok ((co, cns), s')) : RefsIn A cns := by
  have hone : ∀ {s s' : St} {co : Name} {cns : List Node},
      (do let co ← genUnique "cond_out"
          pure (co, [condNode brkCond oc co]) : M (Name × List Node)) s = .ok ((co, cns), s') → RefsIn A cns := by
    intro s s' co cns h
    mbind h with c s1 h1
    obtain ⟨e1, _⟩ := pure_ok h
    cases e1
    cases brkCond <;> exact RefsIn.of_norefs (by simp [condNode, attrRefs, attrRefsNode])
  unfold condNodes at h
  cases whileVar with
  | none => exact hone h
  | some w =>
    cases hb : brkCond with
    | none => subst hb; exact hone h
    | some b =>
      subst hb
      simp only at h
      mbind h with nb s1 h1
      mbind h with c s2 h2
      obtain ⟨e1, _⟩ := pure_ok h
      cases e1
      exact RefsIn.of_norefs (by simp [attrRefs, attrRefsNode])

theorem loopFinish_refs {A : List Name} {L L2 : Locals} (hL : AttrIn A L) (hL2 : AttrIn A L2)
    {state : List Name} {bound cond : Option Name}
    {condIn iv : Name} {ps : List Name} {whileVar : Option Name} {bn : List Node}
    {brkCond : Option Name} {L' : Locals} {nl : List Node} {s s' : St} (hbn : RefsIn A bn)
    (h : loopFinish L L2 state bound cond condIn iv ps whileVar bn brkCond s = .ok ((L', nl), s')) :
    RefsIn A nl ∧ AttrIn A L' := by
  unfold loopFinish at h
  cases hc : loopCondName L2 whileVar condIn with
  | none => simp only [hc] at h; exact (failM_ok h).elim
  | some oc =>
    simp only [hc] at h
    mbind h with p s1 h1
    obtain ⟨condOut, cns⟩ := p
    try dsimp only at h
    mbind h with p s2 h2
    obtain ⟨os, ns3⟩ := p
    try dsimp only at h
    mbind h with p s3 h3
    obtain ⟨inits, ns4⟩ := p
    try dsimp only at h
    mbind h with outs s4 h4
    obtain ⟨e1, _⟩ := pure_ok h
    cases e1
    refine ⟨(loopInits_refs L hL state h3).append ?_, hL.bindVals _ _⟩
    intro q hq
    rw [refs_loop] at hq
    exact (hbn.append ((condNodes_refs h1).append (loopOutputs_refs L2 hL2 _ _ _ h2))) q hq

theorem loopParams_attrIn {A : List Name} : ∀ (state : List Name) (L0 : Locals) {L1 : Locals} {ps : List Name}
    {s s' : St}, AttrIn A L0 → loopParams L0 state s = .ok ((L1, ps), s') → AttrIn A L1 := by
  intro state
  induction state with
  | nil =>
    intro L0 L1 ps s s' hL h
    unfold loopParams at h
    obtain ⟨e1, _⟩ := pure_ok h
    cases e1
    exact hL
  | cons pv rest ih =>
    intro L0 L1 ps s s' hL h
    unfold loopParams at h
    mbind h with p s1 h1
    mbind h with q s2 h2
    obtain ⟨L', ps'⟩ := q
    try dsimp only at h
    obtain ⟨e1, _⟩ := pure_ok h
    cases e1
    exact ih _ (hL.bindVal pv p) h2

theorem loopEnter_attrIn {A : List Name} {L : Locals} {v : Name} {bindIt : Bool} {state : List Name}
    {L1 : Locals} {iv : Name} {ps : List Name} {s s' : St} (hL : AttrIn A L)
    (h : loopEnter L v bindIt state s = .ok ((L1, iv, ps), s')) : AttrIn A L1 := by
  unfold loopEnter at h
  mbind h with iv' s1 h1
  mbind h with p s2 h2
  obtain ⟨L1', ps'⟩ := p
  try dsimp only at h
  obtain ⟨e1, _⟩ := pure_ok h
  cases e1
  refine loopParams_attrIn _ _ ?_ h2
  unfold loopScope
  cases bindIt with
  | true => simpa using hL.push.bindVal v iv
  | false => simpa using hL.push

theorem convParExprs_refs {A : List Name} (L : Locals) (hL : AttrIn A L) :
    ∀ (xs : List Name) (es : List Expr) {ts : List Name} {ns : List Node} {s s' : St},
    convParExprs L xs es s = .ok ((ts, ns), s') → RefsIn A ns := by
  intro xs
  induction xs with
  | nil =>
    intro es ts ns s s' h
    unfold convParExprs at h
    obtain ⟨e1, _⟩ := pure_ok h
    cases e1
    exact RefsIn.nil A
  | cons x xs ih =>
    intro es ts ns s s' h
    cases es with
    | nil =>
      unfold convParExprs at h
      obtain ⟨e1, _⟩ := pure_ok h
      cases e1
      exact RefsIn.nil A
    | cons e es =>
      unfold convParExprs at h
      mbind h with p s1 h1
      obtain ⟨t, ns1⟩ := p
      try dsimp only at h
      mbind h with p s2 h2
      obtain ⟨ts', ns2⟩ := p
      try dsimp only at h
      obtain ⟨e1, _⟩ := pure_ok h
      cases e1
      exact (convExpr_refs L hL e _ h1).append (ih es h2)

mutual
theorem convStmt_refs {A : List Name} (L : Locals) (hL : AttrIn A L) :
    ∀ (st : Stmt) (lo : VSet) {L' : Locals} {ns : List Node} {s s' : St},
    convStmt L st lo s = .ok ((L', ns), s') → RefsIn A ns ∧ AttrIn A L'
  | .assign x e, lo, L', ns, s, s', h => by
    unfold convStmt at h
    mbind h with p s1 h1
    obtain ⟨t, ns1⟩ := p
    try dsimp only at h
    obtain ⟨e1, _⟩ := pure_ok h
    cases e1
    exact ⟨convExpr_refs L hL e _ h1, hL.bindVal x t⟩
  | .par xs es, lo, L', ns, s, s', h => by
    unfold convStmt at h
    by_cases hl : xs.length ≠ es.length
    · rw [if_pos hl] at h; exact (failM_ok h).elim
    · rw [if_neg hl] at h
      unfold convPar at h
      mbind h with p s1 h1
      obtain ⟨ts, ns1⟩ := p
      try dsimp only at h
      obtain ⟨e1, _⟩ := pure_ok h
      cases e1
      exact ⟨convParExprs_refs L hL xs es h1, hL.bindVals _ _⟩
  | .tuple xs e, lo, L', ns, s, s', h => by
    unfold convStmt at h
    cases e with
    | call dom op sig args attrs =>
      simp only at h
      mbind h with p s1 h1
      obtain ⟨as, ns1⟩ := p
      try dsimp only at h
      mbind h with attrs' s2 h2
      mbind h with p s3 h3
      obtain ⟨as', ns2⟩ := p
      try dsimp only at h
      mbind h with outs s4 h4
      obtain ⟨e1, _⟩ := pure_ok h
      cases e1
      have hat : ∀ kv, kv ∈ attrs' → ∀ q, kv.2 = .ref q → q ∈ A := by
        unfold liftE at h2
        cases hca : convAttrs L attrs with
        | error e => simp [hca] at h2
        | ok a' =>
          simp only [hca] at h2
          cases h2
          exact convAttrs_refs hL _ _ hca
      exact ⟨(convArgs_refs L hL args h1).append ((castInputs_refs h3).append (refs_op_in _ _ _ _ _ hat)),
        hL.bindVals _ _⟩
    | _ => exact (failM_ok h).elim
  | .badAssign _ _, lo, L', ns, s, s', h => by unfold convStmt at h; exact (failM_ok h).elim
  | .ite c t e, lo, L', ns, s, s', h => by
    unfold convStmt at h
    cases ha : assignedStmt (.ite c t e) with
    | none => simp only [ha] at h; exact (failM_ok h).elim
    | some defs =>
      simp only [ha] at h
      mbind h with p s1 h1
      obtain ⟨test, ns0⟩ := p
      try dsimp only at h
      mbind h with p s2 h2
      obtain ⟨Lt, tn⟩ := p
      try dsimp only at h
      mbind h with p s3 h3
      obtain ⟨to, tn2⟩ := p
      try dsimp only at h
      mbind h with p s4 h4
      obtain ⟨Le, en⟩ := p
      try dsimp only at h
      mbind h with p s5 h5
      obtain ⟨eo, en2⟩ := p
      try dsimp only at h
      mbind h with renamed s6 h6
      by_cases hre : renamed.isEmpty = true
      · rw [if_pos hre] at h; exact (failM_ok h).elim
      · rw [if_neg hre] at h
        by_cases hrt : (renamed == [test]) = true
        · rw [if_pos hrt] at h; exact (failM_ok h).elim
        · rw [if_neg hrt] at h
          obtain ⟨e1, _⟩ := pure_ok h
          cases e1
          obtain ⟨rt, hLt⟩ := convStmts_refs ([] :: L) hL.push t lo h2
          obtain ⟨re, hLe⟩ := convStmts_refs ([] :: L) hL.push e lo h4
          refine ⟨(convExpr_refs L hL c _ h1).append ?_, hL.bindVals _ _⟩
          intro q hq
          rw [refs_ifN] at hq
          rcases List.mem_append.mp hq with h' | h'
          · exact (rt.append (blockOutputs_refs Lt hLt _ _ _ h3)) q h'
          · exact (re.append (blockOutputs_refs Le hLe _ _ _ h5)) q h'
  | .for_ i okIter bound body, lo, L', ns, s, s', h => by
    unfold convStmt at h
    by_cases hok : okIter = true
    · simp only [hok, Bool.not_true, Bool.false_eq_true, if_false] at h
      cases hs : loopState body lo with
      | none => simp only [hs] at h; exact (failM_ok h).elim
      | some state =>
        simp only [hs] at h
        mbind h with p s1 h1
        obtain ⟨ob, ns0⟩ := p
        try dsimp only at h
        mbind h with condIn s2 h2
        mbind h with p s3 h3
        obtain ⟨L1, iv, ps⟩ := p
        try dsimp only at h
        mbind h with p s4 h4
        obtain ⟨L2, bn, bc⟩ := p
        try dsimp only at h
        mbind h with p s5 h5
        obtain ⟨L'', nl⟩ := p
        try dsimp only at h
        obtain ⟨e1, _⟩ := pure_ok h
        cases e1
        obtain ⟨rb, hL2⟩ := convLoopBody_refs L1 (loopEnter_attrIn hL h3) body _ h4
        obtain ⟨rf, hLf⟩ := loopFinish_refs hL hL2 rb h5
        exact ⟨(convExpr_refs L hL bound _ h1).append rf, hLf⟩
    · simp only [hok, Bool.not_false, if_true] at h; exact (failM_ok h).elim
  | .while_ c body, lo, L', ns, s, s', h => by
    cases c with
    | var t =>
      unfold convStmt at h
      simp only at h
      cases hs : loopState body lo with
      | none => simp only [hs] at h; exact (failM_ok h).elim
      | some state =>
        simp only [hs] at h
        mbind h with condIn s2 h2
        mbind h with p s1 h1
        have h1 := whileCond_ok h1
        obtain ⟨oc, ns0⟩ := p
        try dsimp only at h
        mbind h with p s3 h3
        obtain ⟨L1, iv, ps⟩ := p
        try dsimp only at h
        mbind h with p s4 h4
        obtain ⟨L2, bn, bc⟩ := p
        try dsimp only at h
        mbind h with p s5 h5
        obtain ⟨L'', nl⟩ := p
        try dsimp only at h
        obtain ⟨e1, _⟩ := pure_ok h
        cases e1
        obtain ⟨rb, hL2⟩ := convLoopBody_refs L1 (loopEnter_attrIn hL h3) body _ h4
        obtain ⟨rf, hLf⟩ := loopFinish_refs hL hL2 rb h5
        exact ⟨(pyVar_refs hL h1).append rf, hLf⟩
    | _ => unfold convStmt at h; exact (failM_ok h).elim
  | .brk c, lo, L', ns, s, s', h => by unfold convStmt at h; exact (failM_ok h).elim
  | .ret es b, lo, L', ns, s, s', h => by unfold convStmt at h; exact (failM_ok h).elim
  | .skip, lo, L', ns, s, s', h => by
    unfold convStmt at h
    obtain ⟨e1, _⟩ := pure_ok h
    cases e1
    exact ⟨RefsIn.nil A, hL⟩
  | .unsupported, lo, L', ns, s, s', h => by unfold convStmt at h; exact (failM_ok h).elim
theorem convStmts_refs {A : List Name} (L : Locals) (hL : AttrIn A L) :
    ∀ (ss : List Stmt) (lo : VSet) {L' : Locals} {ns : List Node} {s s' : St},
    convStmts L ss lo s = .ok ((L', ns), s') → RefsIn A ns ∧ AttrIn A L'
  | [], lo, L', ns, s, s', h => by
    unfold convStmts at h
    obtain ⟨e1, _⟩ := pure_ok h
    cases e1
    exact ⟨RefsIn.nil A, hL⟩
  | st :: ss, lo, L', ns, s, s', h => by
    unfold convStmts at h
    mbind h with p s1 h1
    obtain ⟨L1, ns1⟩ := p
    try dsimp only at h
    mbind h with p s2 h2
    obtain ⟨L2, ns2⟩ := p
    try dsimp only at h
    obtain ⟨e1, _⟩ := pure_ok h
    cases e1
    obtain ⟨r1, hL1⟩ := convStmt_refs L hL st _ h1
    obtain ⟨r2, hL2⟩ := convStmts_refs L1 hL1 ss lo h2
    exact ⟨r1.append r2, hL2⟩
theorem convLoopBody_refs {A : List Name} (L : Locals) (hL : AttrIn A L) :
    ∀ (ss : List Stmt) (lo : VSet) {L' : Locals} {ns : List Node} {bc : Option Name} {s s' : St},
    convLoopBody L ss lo s = .ok ((L', ns, bc), s') → RefsIn A ns ∧ AttrIn A L'
  | [], lo, L', ns, bc, s, s', h => by
    unfold convLoopBody at h
    obtain ⟨e1, _⟩ := pure_ok h
    cases e1
    exact ⟨RefsIn.nil A, hL⟩
  | st :: ss, lo, L', ns, bc, s, s', h => by
    by_cases hb : ∃ c, st = .brk c
    · obtain ⟨c, rfl⟩ := hb
      unfold convLoopBody at h
      cases c with
      | var t =>
        simp only at h
        by_cases hne : (!ss.isEmpty) = true
        · rw [if_pos hne] at h; exact (failM_ok h).elim
        · rw [if_neg hne] at h
          cases hc : currentScopeFind L t with
          | none => simp only [hc] at h; exact (failM_ok h).elim
          | some b =>
            cases b with
            | val n =>
              simp only [hc] at h
              obtain ⟨e1, _⟩ := pure_ok h
              cases e1
              exact ⟨RefsIn.nil A, hL⟩
            | attr p ty => simp only [hc] at h; exact (failM_ok h).elim
      | _ => exact (failM_ok h).elim
    · rw [convLoopBody_cons_nonbrk L st ss lo (fun c hc => hb ⟨c, hc⟩)] at h
      mbind h with p s1 h1
      obtain ⟨L1, ns1⟩ := p
      try dsimp only at h
      mbind h with p s2 h2
      obtain ⟨L2, ns2, bc'⟩ := p
      try dsimp only at h
      obtain ⟨e1, _⟩ := pure_ok h
      cases e1
      obtain ⟨r1, hL1⟩ := convStmt_refs L hL st _ h1
      obtain ⟨r2, hL2⟩ := convLoopBody_refs L1 hL1 ss lo h2
      exact ⟨r1.append r2, hL2⟩
end

/-! ## Function level -/

theorem convRetOne_refs {A : List Name} {L : Locals} (hL : AttrIn A L) {inputs : List Name} {e : Expr}
    {pref : Name} {outs : List Name} {o : Name} {ns : List Node} {s s' : St}
    (h : convRetOne L inputs e pref outs s = .ok ((o, ns), s')) : RefsIn A ns := by
  unfold convRetOne at h
  mbind h with p s1 h1
  obtain ⟨rv, ns1⟩ := p
  try dsimp only at h
  mbind h with p s2 h2
  obtain ⟨rv2, ns2⟩ := p
  try dsimp only at h
  have r2 : RefsIn A ns2 := by
    by_cases hr : returnsInput inputs rv = true
    · rw [if_pos hr] at h2; exact emitCopy_refs h2
    · rw [if_neg hr] at h2
      obtain ⟨e1, _⟩ := pure_ok h2
      cases e1
      exact RefsIn.nil A
  by_cases hc : outs.contains rv2 = true
  · rw [if_pos hc] at h
    mbind h with p s3 h3
    obtain ⟨rv3, ns3⟩ := p
    try dsimp only at h
    obtain ⟨e1, _⟩ := pure_ok h
    cases e1
    exact (convExpr_refs L hL e _ h1).append (r2.append (emitCopy_refs h3))
  · rw [if_neg hc] at h
    obtain ⟨e1, _⟩ := pure_ok h
    cases e1
    exact (convExpr_refs L hL e _ h1).append r2

theorem convRetAll_refs {A : List Name} {L : Locals} (hL : AttrIn A L) {inputs : List Name} {single : Bool} :
    ∀ (es : List Expr) (i : Nat) (outs : List Name) {outs' : List Name} {ns : List Node} {s s' : St},
    convRetAll L inputs single es i outs s = .ok ((outs', ns), s') → RefsIn A ns := by
  intro es
  induction es with
  | nil =>
    intro i outs outs' ns s s' h
    unfold convRetAll at h
    obtain ⟨e1, _⟩ := pure_ok h
    cases e1
    exact RefsIn.nil A
  | cons e es ih =>
    intro i outs outs' ns s s' h
    unfold convRetAll at h
    mbind h with p s1 h1
    obtain ⟨o, ns1⟩ := p
    try dsimp only at h
    mbind h with p s2 h2
    obtain ⟨outs2, ns2⟩ := p
    try dsimp only at h
    obtain ⟨e1, _⟩ := pure_ok h
    cases e1
    exact (convRetOne_refs hL h1).append (ih _ _ h2)

theorem convRetStmt_refs {A : List Name} {L : Locals} (hL : AttrIn A L) {inputs : List Name} {rc : Option Nat}
    {es : List Expr} {bare : Bool} {outs outs' : List Name} {ns : List Node} {s s' : St}
    (h : convRetStmt L inputs rc es bare outs s = .ok ((outs', ns), s')) : RefsIn A ns := by
  unfold convRetStmt at h
  by_cases hb : bare = true
  · rw [if_pos hb] at h; exact (failM_ok h).elim
  · rw [if_neg hb] at h
    cases rc with
    | none => exact convRetAll_refs hL _ _ _ h
    | some k =>
      simp only at h
      by_cases hk : k ≠ es.length
      · rw [if_pos hk] at h; exact (failM_ok h).elim
      · rw [if_neg hk] at h; exact convRetAll_refs hL _ _ _ h

theorem convTop_refs {A : List Name} {inputs : List Name} {rc : Option Nat} :
    ∀ (ss : List Stmt) (L : Locals) (outs : List Name) {ns : List Node} {outs' : List Name} {s s' : St},
      AttrIn A L → convTop inputs rc L ss outs s = .ok ((ns, outs'), s') → RefsIn A ns := by
  intro ss
  induction ss with
  | nil =>
    intro L outs ns outs' s s' _ h
    unfold convTop at h
    obtain ⟨e1, _⟩ := pure_ok h
    cases e1
    exact RefsIn.nil A
  | cons st ss ih =>
    intro L outs ns outs' s s' hL h
    by_cases hb : ∃ es b, st = .ret es b
    · obtain ⟨es, b, rfl⟩ := hb
      unfold convTop at h
      mbind h with p s1 h1
      have h1 := (onlyLast_ok h1).2
      obtain ⟨outs1, ns1⟩ := p
      try dsimp only at h
      mbind h with p s2 h2
      obtain ⟨ns2, outs2⟩ := p
      try dsimp only at h
      obtain ⟨e1, _⟩ := pure_ok h
      cases e1
      exact (convRetStmt_refs hL h1).append (ih _ _ hL h2)
    · rw [convTop_cons_nonret inputs rc L st ss outs (fun es b hc => hb ⟨es, b, hc⟩)] at h
      mbind h with p s1 h1
      obtain ⟨L1, ns1⟩ := p
      try dsimp only at h
      mbind h with p s2 h2
      obtain ⟨ns2, outs2⟩ := p
      try dsimp only at h
      obtain ⟨e1, _⟩ := pure_ok h
      cases e1
      obtain ⟨r1, hL1⟩ := convStmt_refs L hL st _ h1
      exact r1.append (ih _ _ hL1 h2)

theorem paramFrame_attrIn : ∀ (ps : List Param) (k p : Name) (ty : AttrTy),
    (k, Bind.attr p ty) ∈ paramFrame ps → p ∈ attrParams ps := by
  intro ps
  induction ps with
  | nil => intro k p ty h; simp [paramFrame] at h
  | cons q ps ih =>
    intro k p ty h
    cases q with
    | tensor y =>
      simp only [paramFrame, List.mem_append, List.mem_singleton] at h
      rcases h with h | h
      · simpa [attrParams] using ih k p ty h
      · cases h
    | attr y ty' =>
      simp only [paramFrame, List.mem_append, List.mem_singleton] at h
      rcases h with h | h
      · have := ih k p ty h
        simp [attrParams] at this ⊢
        exact Or.inr this
      · cases h
        simp [attrParams]

/-- **Every attribute reference in an emitted body is to an attribute parameter of the function.** -/
theorem convert_attr_refs {f : Func} {g : Graph} (h : convert f = .ok g) :
    g.attrs = attrParams f.params ∧ ∀ q, q ∈ attrRefs g.nodes → q ∈ attrParams f.params := by
  obtain ⟨h, _, d0, ha0⟩ := convert_core h
  unfold convertCore at h
  simp only at h
  cases hc : convTop (tensorParams f.params) f.retCount [paramFrame f.params] f.body []
      { used := (tensorParams f.params).reverse, next := 0, castable := [] } with
  | error e => rw [hc] at h; cases h
  | ok r =>
    obtain ⟨⟨ns, outs⟩, s'⟩ := r
    rw [hc] at h
    cases h
    refine ⟨rfl, ?_⟩
    have hL : AttrIn (attrParams f.params) [paramFrame f.params] := by
      intro x p ty hl
      obtain ⟨fr, hfr, hm⟩ := lookup_mem hl
      simp only [List.mem_singleton] at hfr
      subst hfr
      exact paramFrame_attrIn _ x p ty hm
    exact convTop_refs f.body _ _ hL hc

end OV.C01
