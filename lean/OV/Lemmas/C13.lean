import OV.Model.C13Export
import Std.Data.String.ToNat
/-! Helper lemmas for C13 (characters, clean-up, short-name mapper). -/
namespace OV.C13

theorem idChar_us : idChar '_' = true := by decide

theorem renameChar_idChar (c : Char) : idChar (renameChar c) = true := by
  unfold renameChar; split
  · assumption
  · exact idChar_us

theorem renameChar_of_idChar {c : Char} (h : idChar c = true) : renameChar c = c := by
  unfold renameChar; simp only [h, if_true]

theorem renameChar_eq_us_or (c : Char) : renameChar c = c ∨ renameChar c = '_' := by
  unfold renameChar; split
  · exact Or.inl rfl
  · exact Or.inr rfl

theorem idStart_idChar {c : Char} (h : idStart c = true) : idChar c = true := by
  unfold idStart at h; unfold idChar isAlnum
  cases ha : isAlpha c <;> simp_all

theorem map_renameChar_of_all : ∀ (l : List Char), l.all idChar = true → l.map renameChar = l
  | [], _ => rfl
  | c :: cs, h => by
    simp only [List.all_cons, Bool.and_eq_true] at h
    simp only [List.map_cons, renameChar_of_idChar h.1, map_renameChar_of_all cs h.2]

theorem all_idChar_map_renameChar (l : List Char) : (l.map renameChar).all idChar = true := by
  induction l with
  | nil => rfl
  | cons c cs ih => simp only [List.map_cons, List.all_cons, renameChar_idChar, ih, Bool.and_self]

/-- a renamed list without `'_'` is unchanged -/
theorem map_renameChar_no_us : ∀ (l : List Char), '_' ∉ l.map renameChar → l.map renameChar = l
  | [], _ => rfl
  | c :: cs, h => by
    simp only [List.map_cons, List.mem_cons, not_or] at h
    have h1 : renameChar c = c := by
      rcases renameChar_eq_us_or c with h' | h'
      · exact h'
      · exact absurd h'.symm h.1
    simp only [List.map_cons, h1, map_renameChar_no_us cs h.2]

theorem kw_no_us : ∀ k ∈ kwlistL, '_' ∉ k := by decide
theorem kw_all_idChar : ∀ k ∈ kwlistL, k.all idChar = true := by decide
theorem kw_r_notin : ∀ k ∈ kwlistL, ('r' :: '_' :: k) ∉ kwlistL := by decide
theorem kw_nonempty : ∀ k ∈ kwlistL, k ≠ [] := by decide
theorem kw_idStart : ∀ k ∈ kwlistL, isPyIdentL k = true := by decide



theorem cleanupL_ident (n : List Char) (hne : n ≠ []) :
    isPyIdentL (cleanupL n) = true ∧ cleanupL n ∉ kwlistL := by
  unfold cleanupL
  by_cases hk : n ∈ kwlistL
  · simp only [hk, if_true]
    refine ⟨?_, kw_r_notin n hk⟩
    have h := kw_all_idChar n hk
    simp only [isPyIdentL, List.all_cons, h, idChar_us]
    decide
  · simp only [hk, if_false]
    cases n with
    | nil => exact absurd rfl hne
    | cons c cs =>
      simp only
      by_cases hs : idStart c = true
      · simp only [hs, if_true]
        constructor
        · simp only [List.map_cons, isPyIdentL, renameChar_of_idChar (idStart_idChar hs), hs,
            all_idChar_map_renameChar, Bool.and_self]
        · intro hmem
          have hno := kw_no_us _ hmem
          rw [map_renameChar_no_us _ hno] at hmem
          exact hk hmem
      · have hs' : idStart c = false := by simpa using hs
        simp only [hs', Bool.false_eq_true, if_false]
        constructor
        · simp only [List.map_cons, isPyIdentL, all_idChar_map_renameChar, renameChar_idChar, List.all_cons,
            Bool.and_self, Bool.and_true]
          decide
        · intro hmem
          have hno := kw_no_us _ hmem
          apply hno
          simp only [List.map_cons, List.mem_cons]
          left; decide

/-- fixpoints -/
theorem cleanupL_fix (n : List Char) (hid : isPyIdentL n = true) (hk : n ∉ kwlistL) : cleanupL n = n := by
  unfold cleanupL
  simp only [hk, if_false]
  cases n with
  | nil => rfl
  | cons c cs =>
    simp only [isPyIdentL, Bool.and_eq_true] at hid
    simp only [hid.1, if_true]
    apply map_renameChar_of_all
    simp only [List.all_cons, idStart_idChar hid.1, hid.2, Bool.and_self]

theorem cleanupL_idem (n : List Char) (hne : n ≠ []) : cleanupL (cleanupL n) = cleanupL n := by
  have h := cleanupL_ident n hne
  exact cleanupL_fix _ h.1 h.2


theorem shortStep_spec (keys : List String) (k : String) (hnd : keys.Nodup) :
    (shortStep keys k).2.Nodup ∧ (∃ e, (shortStep keys k).2 = keys ++ e) ∧
    k ∈ (shortStep keys k).2 ∧ (shortStep keys k).1 = (shortStep keys k).2.idxOf k := by
  unfold shortStep
  by_cases h : k ∈ keys
  · simp only [if_pos h]
    exact ⟨hnd, ⟨[], (List.append_nil _).symm⟩, h, trivial⟩
  · simp only [if_neg h]
    refine ⟨?_, ⟨[k], rfl⟩, by simp, ?_⟩
    · rw [List.nodup_append]
      refine ⟨hnd, by simp, ?_⟩
      intro a ha b hb
      simp only [List.mem_singleton] at hb
      subst hb
      intro hab; subst hab; exact h ha
    · rw [List.idxOf_append, if_neg h]
      simp

theorem idxOf_append_mem {k : String} {keys e : List String} (h : k ∈ keys) :
    (keys ++ e).idxOf k = keys.idxOf k := by
  rw [List.idxOf_append, if_pos h]

theorem shortRun_spec : ∀ (ks keys : List String), keys.Nodup →
    (shortRun keys ks).2.Nodup ∧ (∃ e, (shortRun keys ks).2 = keys ++ e) ∧
    (shortRun keys ks).1.length = ks.length ∧
    ∀ i (h : i < ks.length) (h' : i < (shortRun keys ks).1.length),
      ks[i] ∈ (shortRun keys ks).2 ∧ (shortRun keys ks).1[i] = (shortRun keys ks).2.idxOf ks[i]
  | [], keys, hnd => ⟨hnd, ⟨[], by simp [shortRun]⟩, rfl, fun i h => absurd h (Nat.not_lt_zero _)⟩
  | k :: ks, keys, hnd => by
    obtain ⟨h1, ⟨e1, he1⟩, hk, hidx⟩ := shortStep_spec keys k hnd
    obtain ⟨h2, ⟨e2, he2⟩, hlen, hall⟩ := shortRun_spec ks (shortStep keys k).2 h1
    simp only [shortRun]
    refine ⟨h2, ⟨e1 ++ e2, by rw [he2, he1, List.append_assoc]⟩, by simp [hlen], ?_⟩
    intro i hi hi'
    cases i with
    | zero =>
      simp only [List.getElem_cons_zero]
      constructor
      · rw [he2]; exact List.mem_append_left _ hk
      · rw [hidx, he2, idxOf_append_mem hk]
    | succ j =>
      simp only [List.getElem_cons_succ]
      have hj : j < ks.length := by simpa using hi
      have hj' : j < (shortRun (shortStep keys k).2 ks).1.length := by simpa using hi'
      exact hall j hj hj'

theorem idxOf_inj {l : List String} {a b : String} (ha : a ∈ l) (hb : b ∈ l)
    (h : l.idxOf a = l.idxOf b) : a = b := by
  have h1 := List.getElem_idxOf (List.idxOf_lt_length_of_mem ha)
  have h2 := List.getElem_idxOf (List.idxOf_lt_length_of_mem hb)
  rw [← h1, ← h2]
  simp only [h]

theorem shortRun_eq_iff (ks : List String) (i j : Nat) (hi : i < ks.length) (hj : j < ks.length)
    (hi' : i < (shortRun [] ks).1.length) (hj' : j < (shortRun [] ks).1.length) :
    (shortRun [] ks).1[i] = (shortRun [] ks).1[j] ↔ ks[i] = ks[j] := by
  obtain ⟨_, _, _, hall⟩ := shortRun_spec ks [] List.nodup_nil
  obtain ⟨mi, ei⟩ := hall i hi hi'
  obtain ⟨mj, ej⟩ := hall j hj hj'
  rw [ei, ej]
  constructor
  · exact idxOf_inj mi mj
  · intro h; rw [h]


theorem short_label_inj {a b : Nat} (h : "v" ++ Nat.repr (a + 1) = "v" ++ Nat.repr (b + 1)) : a = b := by
  have h1 := congrArg String.toList h
  simp only [String.toList_append] at h1
  have h2 := List.append_cancel_left h1
  have h3 := String.toList_inj.mp h2
  have := Nat.repr_inj.mp h3
  omega

theorem translateVar_fresh_clean (o : Opts) (st : St) (v : String) (hr : o.rename = false)
    (ha : st.attrRen = []) (hm : st.remaps = []) (hv : v ≠ "") :
    translateVar o st v = (cleanup v, st) := by
  unfold translateVar
  have : (v == "") = false := by simpa using hv
  simp only [this, Bool.false_eq_true, if_false, hm, lookupRemap, newRenamer, hr, ha, List.lookup]

theorem translateVar_fresh_short (o : Opts) (st : St) (v : String) (hr : o.rename = true)
    (ha : st.attrRen = []) (hm : st.remaps = []) (hv : v ≠ "") :
    translateVar o st v = ("v" ++ Nat.repr ((shortStep st.shortKeys (cleanup v)).1 + 1),
        { st with shortKeys := (shortStep st.shortKeys (cleanup v)).2 }) := by
  unfold translateVar
  have : (v == "") = false := by simpa using hv
  simp only [this, Bool.false_eq_true, if_false, hm, lookupRemap, newRenamer, hr, if_true, shortName, ha, List.lookup]

theorem translateVars_fresh_clean (o : Opts) (hr : o.rename = false) :
    ∀ (ns : List String) (st : St), st.attrRen = [] → st.remaps = [] → (∀ n ∈ ns, n ≠ "") →
      translateVars o st ns = (ns.map cleanup, st)
  | [], st, _, _, _ => rfl
  | n :: ns, st, ha, hm, hne => by
    simp only [translateVars, translateVar_fresh_clean o st n hr ha hm (hne n (by simp)),
      translateVars_fresh_clean o hr ns st ha hm (fun x hx => hne x (by simp [hx])), List.map_cons]

theorem translateVars_fresh_short (o : Opts) (hr : o.rename = true) :
    ∀ (ns : List String) (st : St), st.attrRen = [] → st.remaps = [] → (∀ n ∈ ns, n ≠ "") →
      (translateVars o st ns).1 =
        (shortRun st.shortKeys (ns.map cleanup)).1.map (fun k => "v" ++ Nat.repr (k + 1))
  | [], st, _, _, _ => rfl
  | n :: ns, st, ha, hm, hne => by
    simp only [translateVars, translateVar_fresh_short o st n hr ha hm (hne n (by simp)), List.map_cons, shortRun]
    have ih := translateVars_fresh_short o hr ns
      { st with shortKeys := (shortStep st.shortKeys (cleanup n)).2 } ha hm (fun x hx => hne x (by simp [hx]))
    simp only [ih]

/-! ## the exact collision relation of the clean-up -/

/-- the name after the keyword / first-character step, before the per-character replacement -/
def prefixed (n : List Char) : List Char :=
  if n ∈ kwlistL then 'r' :: '_' :: n
  else match n with
    | [] => []
    | c :: _ => if idStart c then n else '_' :: '_' :: n

/-- two characters are merged by `rename_char` iff they are equal or both are not alphanumeric -/
def sameClass (c d : Char) : Prop := c = d ∨ (isAlnum c = false ∧ isAlnum d = false)

theorem cleanupL_eq_map_prefixed (n : List Char) : cleanupL n = (prefixed n).map renameChar := by
  unfold cleanupL prefixed
  by_cases hk : n ∈ kwlistL
  · simp only [if_pos hk]
    have h := kw_all_idChar n hk
    symm
    apply map_renameChar_of_all
    simp only [List.all_cons, h, idChar_us, Bool.and_true]
    decide
  · simp only [if_neg hk]
    cases n with
    | nil => rfl
    | cons c cs => rfl

theorem isAlnum_us : isAlnum '_' = false := by decide

theorem renameChar_eq (c : Char) : renameChar c = if isAlnum c = true then c else '_' := by
  unfold renameChar idChar
  by_cases h : isAlnum c = true
  · simp [h]
  · have h' : isAlnum c = false := by simpa using h
    by_cases hu : c = '_'
    · subst hu; simp [h']
    · simp [h', hu]

theorem renameChar_eq_iff (c d : Char) : renameChar c = renameChar d ↔ sameClass c d := by
  rw [renameChar_eq, renameChar_eq]
  unfold sameClass
  cases hc : isAlnum c <;> cases hd : isAlnum d
  · simp
  · simp only [Bool.false_eq_true, if_false, if_true]
    constructor
    · intro h; subst h; rw [isAlnum_us] at hd; cases hd
    · intro h
      rcases h with h | ⟨_, h⟩
      · subst h; rw [hc] at hd; cases hd
      · cases h
  · simp only [Bool.false_eq_true, if_false, if_true]
    constructor
    · intro h; subst h; rw [isAlnum_us] at hc; cases hc
    · intro h
      rcases h with h | ⟨h, _⟩
      · subst h; rw [hc] at hd; cases hd
      · cases h
  · simp

/-- position-wise relation between two names of equal length -/
def pointwise (R : Char → Char → Prop) : List Char → List Char → Prop
  | [], [] => True
  | a :: l1, b :: l2 => R a b ∧ pointwise R l1 l2
  | _, _ => False

theorem map_eq_map_iff_pointwise (f : Char → Char) : ∀ (l1 l2 : List Char),
    l1.map f = l2.map f ↔ pointwise (fun a b => f a = f b) l1 l2
  | [], [] => by simp [pointwise]
  | [], _ :: _ => by simp [pointwise]
  | _ :: _, [] => by simp [pointwise]
  | a :: l1, b :: l2 => by
    simp only [List.map_cons, List.cons.injEq, pointwise, map_eq_map_iff_pointwise f l1 l2]

theorem pointwise_congr {R S : Char → Char → Prop} (h : ∀ a b, R a b ↔ S a b) :
    ∀ l1 l2, pointwise R l1 l2 ↔ pointwise S l1 l2
  | [], [] => Iff.rfl
  | [], _ :: _ => Iff.rfl
  | _ :: _, [] => Iff.rfl
  | a :: l1, b :: l2 => by simp only [pointwise, h a b, pointwise_congr h l1 l2]


/-! ## refusals -/


theorem nodesLoop_error_of_mem (f : Node → St → R) (n : Node)
    (hn : ∀ st, ∃ e, f n st = .error e) :
    ∀ (nodes : List Node), n ∈ nodes → ∀ st, ∃ e, nodesLoop f nodes st = .error e
  | [], h, _ => by cases h
  | m :: ms, h, st => by
    simp only [nodesLoop]
    cases hm : f m st with
    | error e => exact ⟨e, rfl⟩
    | ok r =>
      obtain ⟨l1, st1⟩ := r
      simp only
      rcases List.mem_cons.mp h with h | h
      · subst h; obtain ⟨e, he⟩ := hn st; rw [he] at hm; cases hm
      · obtain ⟨e, he⟩ := nodesLoop_error_of_mem f n hn ms h st1
        rw [he]; exact ⟨e, rfl⟩

theorem graphBody_error_of_sparse (o : Opts) (rec : Node → St → R) (g : Graph) (st : St)
    (h : g.nSparse > 0) : ∃ e, graphBody o rec g st = .error e := by
  unfold graphBody
  cases initsLoop o rec g.inits st with
  | error e => exact ⟨e, rfl⟩
  | ok r => simp only [h, if_true]; exact ⟨_, rfl⟩

theorem graphBody_error_of_node (o : Opts) (rec : Node → St → R) (g : Graph) (st : St) (n : Node)
    (hn : ∀ st, ∃ e, rec n st = .error e) (hmem : n ∈ g.nodes) : ∃ e, graphBody o rec g st = .error e := by
  unfold graphBody
  cases initsLoop o rec g.inits st with
  | error e => exact ⟨e, rfl⟩
  | ok r =>
    simp only
    split
    · exact ⟨_, rfl⟩
    · obtain ⟨e, he⟩ := nodesLoop_error_of_mem rec n hn g.nodes hmem r.2
      rw [he]; exact ⟨e, rfl⟩

theorem graphProg_error_of_body (o : Opts) (d : Nat) (m : ModelP) (fn : String) (indent : Nat) (st : St)
    (h : ∀ rec st, (∀ n st, rec n st = translateNode o m.opsets d indent n st) →
      ∃ e, graphBody o rec m.graph st = .error e) :
    ∃ e, graphProg o d m fn indent st = .error e := by
  unfold graphProg
  obtain ⟨e, he⟩ := h (translateNode o m.opsets d indent) { st with remaps := [] :: st.remaps } (fun _ _ => rfl)
  simp only [he]
  exact ⟨e, rfl⟩

theorem translateGraph_error_of_body (o : Opts) (d : Nat) (m : ModelP)
    (h : ∀ indent rec st, (∀ n st, rec n st = translateNode o m.opsets d indent n st) →
      ∃ e, graphBody o rec m.graph st = .error e) :
    ∃ e, exportModel o d m = .error e := by
  unfold exportModel translateGraph
  split
  · exact ⟨_, rfl⟩
  · split
    · exact ⟨_, rfl⟩
    · obtain ⟨e, he⟩ := graphProg_error_of_body o d m m.funName
        (if o.skipInit then 2 else 1) {} (h _)
      simp only [he]
      exact ⟨e, rfl⟩

theorem translateNode_scan (o : Opts) (ops : List (String × Nat)) (d indent : Nat) (n : Node) (st : St)
    (h : n.op = "Scan") : ∃ e, translateNode o ops d indent n st = .error e := by
  cases d with
  | zero => exact ⟨_, rfl⟩
  | succ d =>
    refine ⟨.scan, ?_⟩
    simp only [translateNode, h]
    simp



theorem translateNode_plain (o : Opts) (ops : List (String × Nat)) (d indent : Nat) (n : Node) (st : St)
    (h1 : n.op ≠ "Constant") (h2 : n.op ≠ "If") (h3 : n.op ≠ "Loop") (h4 : n.op ≠ "Scan") :
    translateNode o ops (d + 1) indent n st = translatePlain o ops n indent st := by
  simp only [translateNode]
  have e1 : (n.op == "Constant") = false := by simpa using h1
  have e2 : (n.op == "If") = false := by simpa using h2
  have e3 : (n.op == "Loop") = false := by simpa using h3
  have e4 : (n.op == "Scan") = false := by simpa using h4
  simp [e1, e2, e3, e4]

theorem translateAttrs_error_of_unsupported : ∀ (attrs : List (String × Attr)) (k : String),
    (k, Attr.unsupported) ∈ attrs → ∃ e, translateAttrs attrs = .error e
  | [], _, h => by cases h
  | (k', a) :: rest, k, h => by
    rcases List.mem_cons.mp h with h | h
    · cases h; exact ⟨_, rfl⟩
    · obtain ⟨e, he⟩ := translateAttrs_error_of_unsupported rest k h
      cases a <;> simp only [translateAttrs, he, Except.map] <;> exact ⟨_, rfl⟩

theorem translatePlain_graphAttr (o : Opts) (ops : List (String × Nat)) (n : Node) (indent : Nat) (st : St)
    (h : n.attrs.any (·.2.isGraph) = true) : translatePlain o ops n indent st = .error .graphAttr := by
  simp only [translatePlain, h, if_true]

theorem translatePlain_unsupported (o : Opts) (ops : List (String × Nat)) (n : Node) (indent : Nat) (st : St)
    (k : String) (h : (k, Attr.unsupported) ∈ n.attrs)
    (hs : o.useOps = false ∨ opsTable.lookup n.op = none) :
    ∃ e, translatePlain o ops n indent st = .error e := by
  unfold translatePlain
  split
  · exact ⟨_, rfl⟩
  · have : (if o.useOps = true then opsTable.lookup n.op else none) = none := by
      rcases hs with hs | hs
      · simp [hs]
      · simp [hs]
    simp only [this]
    cases ops.lookup n.domain with
    | none => exact ⟨_, rfl⟩
    | some v =>
      obtain ⟨e, he⟩ := translateAttrs_error_of_unsupported n.attrs k h
      simp only [he]
      exact ⟨_, rfl⟩

end OV.C13
