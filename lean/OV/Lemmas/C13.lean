import OV.Model.C13Export
import Std.Data.String.ToNat
set_option linter.unusedSimpArgs false
set_option linter.unnecessarySimpa false
set_option linter.unusedVariables false
/-! Helper lemmas for C13 (characters, clean-up, short-name mapper). -/
namespace OV.C13

theorem idChar_us : idChar '_' = true := by decide

theorem renameChar_idChar (c : Char) : idChar (renameChar c) = true := by
  unfold renameChar; split
  · assumption
  · exact idChar_us

theorem renameChar_of_idChar {c : Char} (h : idChar c = true) : renameChar c = c := by
  unfold renameChar; simp only [h, if_true]

theorem renameChar_eq_us_or (c : Char) : renameChar c = c ∨ renameChar c = '_' := by
  unfold renameChar; split
  · exact Or.inl rfl
  · exact Or.inr rfl

theorem idStart_idChar {c : Char} (h : idStart c = true) : idChar c = true := by
  unfold idStart at h; unfold idChar isAlnum
  cases ha : isAlpha c <;> simp_all

theorem map_renameChar_of_all : ∀ (l : List Char), l.all idChar = true → l.map renameChar = l
  | [], _ => rfl
  | c :: cs, h => by
    simp only [List.all_cons, Bool.and_eq_true] at h
    simp only [List.map_cons, renameChar_of_idChar h.1, map_renameChar_of_all cs h.2]

theorem all_idChar_map_renameChar (l : List Char) : (l.map renameChar).all idChar = true := by
  induction l with
  | nil => rfl
  | cons c cs ih => simp only [List.map_cons, List.all_cons, renameChar_idChar, ih, Bool.and_self]

/-- a renamed list without `'_'` is unchanged -/
theorem map_renameChar_no_us : ∀ (l : List Char), '_' ∉ l.map renameChar → l.map renameChar = l
  | [], _ => rfl
  | c :: cs, h => by
    simp only [List.map_cons, List.mem_cons, not_or] at h
    have h1 : renameChar c = c := by
      rcases renameChar_eq_us_or c with h' | h'
      · exact h'
      · exact absurd h'.symm h.1
    simp only [List.map_cons, h1, map_renameChar_no_us cs h.2]

theorem kw_no_us : ∀ k ∈ kwlistL, '_' ∉ k := by decide
theorem kw_all_idChar : ∀ k ∈ kwlistL, k.all idChar = true := by decide
theorem kw_r_notin : ∀ k ∈ kwlistL, ('r' :: '_' :: k) ∉ kwlistL := by decide
theorem kw_nonempty : ∀ k ∈ kwlistL, k ≠ [] := by decide
theorem kw_idStart : ∀ k ∈ kwlistL, isPyIdentL k = true := by decide



theorem cleanupL_ident (n : List Char) (hne : n ≠ []) :
    isPyIdentL (cleanupL n) = true ∧ cleanupL n ∉ kwlistL := by
  unfold cleanupL
  by_cases hk : n ∈ kwlistL
  · simp only [hk, if_true]
    refine ⟨?_, kw_r_notin n hk⟩
    have h := kw_all_idChar n hk
    simp only [isPyIdentL, List.all_cons, h, idChar_us]
    decide
  · simp only [hk, if_false]
    cases n with
    | nil => exact absurd rfl hne
    | cons c cs =>
      simp only
      by_cases hs : idStart c = true
      · simp only [hs, if_true]
        constructor
        · simp only [List.map_cons, isPyIdentL, renameChar_of_idChar (idStart_idChar hs), hs,
            all_idChar_map_renameChar, Bool.and_self]
        · intro hmem
          have hno := kw_no_us _ hmem
          rw [map_renameChar_no_us _ hno] at hmem
          exact hk hmem
      · have hs' : idStart c = false := by simpa using hs
        simp only [hs', Bool.false_eq_true, if_false]
        constructor
        · simp only [List.map_cons, isPyIdentL, all_idChar_map_renameChar, renameChar_idChar, List.all_cons,
            Bool.and_self, Bool.and_true]
          decide
        · intro hmem
          have hno := kw_no_us _ hmem
          apply hno
          simp only [List.map_cons, List.mem_cons]
          left; decide

/-- fixpoints -/
theorem cleanupL_fix (n : List Char) (hid : isPyIdentL n = true) (hk : n ∉ kwlistL) : cleanupL n = n := by
  unfold cleanupL
  simp only [hk, if_false]
  cases n with
  | nil => rfl
  | cons c cs =>
    simp only [isPyIdentL, Bool.and_eq_true] at hid
    simp only [hid.1, if_true]
    apply map_renameChar_of_all
    simp only [List.all_cons, idStart_idChar hid.1, hid.2, Bool.and_self]

theorem cleanupL_idem (n : List Char) (hne : n ≠ []) : cleanupL (cleanupL n) = cleanupL n := by
  have h := cleanupL_ident n hne
  exact cleanupL_fix _ h.1 h.2


theorem shortStep_spec (keys : List String) (k : String) (hnd : keys.Nodup) :
    (shortStep keys k).2.Nodup ∧ (∃ e, (shortStep keys k).2 = keys ++ e) ∧
    k ∈ (shortStep keys k).2 ∧ (shortStep keys k).1 = (shortStep keys k).2.idxOf k := by
  unfold shortStep
  by_cases h : k ∈ keys
  · simp only [if_pos h]
    exact ⟨hnd, ⟨[], (List.append_nil _).symm⟩, h, trivial⟩
  · simp only [if_neg h]
    refine ⟨?_, ⟨[k], rfl⟩, by simp, ?_⟩
    · rw [List.nodup_append]
      refine ⟨hnd, by simp, ?_⟩
      intro a ha b hb
      simp only [List.mem_singleton] at hb
      subst hb
      intro hab; subst hab; exact h ha
    · rw [List.idxOf_append, if_neg h]
      simp

theorem idxOf_append_mem {k : String} {keys e : List String} (h : k ∈ keys) :
    (keys ++ e).idxOf k = keys.idxOf k := by
  rw [List.idxOf_append, if_pos h]

theorem shortRun_spec : ∀ (ks keys : List String), keys.Nodup →
    (shortRun keys ks).2.Nodup ∧ (∃ e, (shortRun keys ks).2 = keys ++ e) ∧
    (shortRun keys ks).1.length = ks.length ∧
    ∀ i (h : i < ks.length) (h' : i < (shortRun keys ks).1.length),
      ks[i] ∈ (shortRun keys ks).2 ∧ (shortRun keys ks).1[i] = (shortRun keys ks).2.idxOf ks[i]
  | [], keys, hnd => ⟨hnd, ⟨[], by simp [shortRun]⟩, rfl, fun i h => absurd h (Nat.not_lt_zero _)⟩
  | k :: ks, keys, hnd => by
    obtain ⟨h1, ⟨e1, he1⟩, hk, hidx⟩ := shortStep_spec keys k hnd
    obtain ⟨h2, ⟨e2, he2⟩, hlen, hall⟩ := shortRun_spec ks (shortStep keys k).2 h1
    simp only [shortRun]
    refine ⟨h2, ⟨e1 ++ e2, by rw [he2, he1, List.append_assoc]⟩, by simp [hlen], ?_⟩
    intro i hi hi'
    cases i with
    | zero =>
      simp only [List.getElem_cons_zero]
      constructor
      · rw [he2]; exact List.mem_append_left _ hk
      · rw [hidx, he2, idxOf_append_mem hk]
    | succ j =>
      simp only [List.getElem_cons_succ]
      have hj : j < ks.length := by simpa using hi
      have hj' : j < (shortRun (shortStep keys k).2 ks).1.length := by simpa using hi'
      exact hall j hj hj'

theorem idxOf_inj {l : List String} {a b : String} (ha : a ∈ l) (hb : b ∈ l)
    (h : l.idxOf a = l.idxOf b) : a = b := by
  have h1 := List.getElem_idxOf (List.idxOf_lt_length_of_mem ha)
  have h2 := List.getElem_idxOf (List.idxOf_lt_length_of_mem hb)
  rw [← h1, ← h2]
  simp only [h]

theorem shortRun_eq_iff (ks : List String) (i j : Nat) (hi : i < ks.length) (hj : j < ks.length)
    (hi' : i < (shortRun [] ks).1.length) (hj' : j < (shortRun [] ks).1.length) :
    (shortRun [] ks).1[i] = (shortRun [] ks).1[j] ↔ ks[i] = ks[j] := by
  obtain ⟨_, _, _, hall⟩ := shortRun_spec ks [] List.nodup_nil
  obtain ⟨mi, ei⟩ := hall i hi hi'
  obtain ⟨mj, ej⟩ := hall j hj hj'
  rw [ei, ej]
  constructor
  · exact idxOf_inj mi mj
  · intro h; rw [h]


theorem short_label_inj {a b : Nat} (h : "v" ++ Nat.repr (a + 1) = "v" ++ Nat.repr (b + 1)) : a = b := by
  have h1 := congrArg String.toList h
  simp only [String.toList_append] at h1
  have h2 := List.append_cancel_left h1
  have h3 := String.toList_inj.mp h2
  have := Nat.repr_inj.mp h3
  omega

/-- no scope of `_name_remappings` maps anything -/
def QuietRemaps (st : St) : Prop := ∀ v, lookupRemap st.remaps v = none

theorem conflictStep_nil (nu : List String) (nn : String) : conflictStep [] nu nn = (nn, [], nu) := rfl

theorem translateVar_fresh_short (o : Opts) (st : St) (v : String) (hr : o.rename = true)
    (ha : st.attrRen = []) (hm : QuietRemaps st) (hv : v ≠ "") :
    translateVar o st v = ("v" ++ Nat.repr ((shortStep st.shortKeys v).1 + 1),
        { st with shortKeys := (shortStep st.shortKeys v).2 }) := by
  unfold translateVar
  have : (v == "") = false := by simpa using hv
  simp only [this, Bool.false_eq_true, if_false, hm v, newRenamer, hr, if_true, shortName, ha, List.lookup,
    conflictStep_nil]

theorem translateVars_fresh_short (o : Opts) (hr : o.rename = true) :
    ∀ (ns : List String) (st : St), st.attrRen = [] → QuietRemaps st → (∀ n ∈ ns, n ≠ "") →
      (translateVars o st ns).1 =
        (shortRun st.shortKeys ns).1.map (fun k => "v" ++ Nat.repr (k + 1))
  | [], st, _, _, _ => rfl
  | n :: ns, st, ha, hm, hne => by
    simp only [translateVars, translateVar_fresh_short o st n hr ha hm (hne n (by simp)), List.map_cons, shortRun]
    have ih := translateVars_fresh_short o hr ns
      { st with shortKeys := (shortStep st.shortKeys n).2 } ha hm (fun x hx => hne x (by simp [hx]))
    simp only [ih]

/-! ## the exact collision relation of the clean-up -/

/-- the name after the keyword / first-character step, before the per-character replacement -/
def prefixed (n : List Char) : List Char :=
  if n ∈ kwlistL then 'r' :: '_' :: n
  else match n with
    | [] => []
    | c :: _ => if idStart c then n else '_' :: '_' :: n

/-- two characters are merged by `rename_char` iff they are equal or both are not alphanumeric -/
def sameClass (c d : Char) : Prop := c = d ∨ (isAlnum c = false ∧ isAlnum d = false)

theorem cleanupL_eq_map_prefixed (n : List Char) : cleanupL n = (prefixed n).map renameChar := by
  unfold cleanupL prefixed
  by_cases hk : n ∈ kwlistL
  · simp only [if_pos hk]
    have h := kw_all_idChar n hk
    symm
    apply map_renameChar_of_all
    simp only [List.all_cons, h, idChar_us, Bool.and_true]
    decide
  · simp only [if_neg hk]
    cases n with
    | nil => rfl
    | cons c cs => rfl

theorem isAlnum_us : isAlnum '_' = false := by decide

theorem renameChar_eq (c : Char) : renameChar c = if isAlnum c = true then c else '_' := by
  unfold renameChar idChar
  by_cases h : isAlnum c = true
  · simp [h]
  · have h' : isAlnum c = false := by simpa using h
    by_cases hu : c = '_'
    · subst hu; simp [h']
    · simp [h', hu]

theorem renameChar_eq_iff (c d : Char) : renameChar c = renameChar d ↔ sameClass c d := by
  rw [renameChar_eq, renameChar_eq]
  unfold sameClass
  cases hc : isAlnum c <;> cases hd : isAlnum d
  · simp
  · simp only [Bool.false_eq_true, if_false, if_true]
    constructor
    · intro h; subst h; rw [isAlnum_us] at hd; cases hd
    · intro h
      rcases h with h | ⟨_, h⟩
      · subst h; rw [hc] at hd; cases hd
      · cases h
  · simp only [Bool.false_eq_true, if_false, if_true]
    constructor
    · intro h; subst h; rw [isAlnum_us] at hc; cases hc
    · intro h
      rcases h with h | ⟨h, _⟩
      · subst h; rw [hc] at hd; cases hd
      · cases h
  · simp

/-- position-wise relation between two names of equal length -/
def pointwise (R : Char → Char → Prop) : List Char → List Char → Prop
  | [], [] => True
  | a :: l1, b :: l2 => R a b ∧ pointwise R l1 l2
  | _, _ => False

theorem map_eq_map_iff_pointwise (f : Char → Char) : ∀ (l1 l2 : List Char),
    l1.map f = l2.map f ↔ pointwise (fun a b => f a = f b) l1 l2
  | [], [] => by simp [pointwise]
  | [], _ :: _ => by simp [pointwise]
  | _ :: _, [] => by simp [pointwise]
  | a :: l1, b :: l2 => by
    simp only [List.map_cons, List.cons.injEq, pointwise, map_eq_map_iff_pointwise f l1 l2]

theorem pointwise_congr {R S : Char → Char → Prop} (h : ∀ a b, R a b ↔ S a b) :
    ∀ l1 l2, pointwise R l1 l2 ↔ pointwise S l1 l2
  | [], [] => Iff.rfl
  | [], _ :: _ => Iff.rfl
  | _ :: _, [] => Iff.rfl
  | a :: l1, b :: l2 => by simp only [pointwise, h a b, pointwise_congr h l1 l2]


/-! ## refusals -/


theorem nodesLoop_error_of_mem (f : Node → St → R) (n : Node)
    (hn : ∀ st, ∃ e, f n st = .error e) :
    ∀ (nodes : List Node), n ∈ nodes → ∀ st, ∃ e, nodesLoop f nodes st = .error e
  | [], h, _ => by cases h
  | m :: ms, h, st => by
    simp only [nodesLoop]
    cases hm : f m st with
    | error e => exact ⟨e, rfl⟩
    | ok r =>
      obtain ⟨l1, st1⟩ := r
      simp only
      rcases List.mem_cons.mp h with h | h
      · subst h; obtain ⟨e, he⟩ := hn st; rw [he] at hm; cases hm
      · obtain ⟨e, he⟩ := nodesLoop_error_of_mem f n hn ms h st1
        rw [he]; exact ⟨e, rfl⟩

theorem graphBody_error_of_sparse (o : Opts) (rec : Node → St → R) (g : Graph) (st : St)
    (h : g.nSparse > 0) : ∃ e, graphBody o rec g st = .error e := by
  unfold graphBody
  cases initsLoop o rec g.inits st with
  | error e => exact ⟨e, rfl⟩
  | ok r => simp only [h, if_true]; exact ⟨_, rfl⟩

theorem graphBody_error_of_node (o : Opts) (rec : Node → St → R) (g : Graph) (st : St) (n : Node)
    (hn : ∀ st, ∃ e, rec n st = .error e) (hmem : n ∈ g.nodes) : ∃ e, graphBody o rec g st = .error e := by
  unfold graphBody
  cases initsLoop o rec g.inits st with
  | error e => exact ⟨e, rfl⟩
  | ok r =>
    simp only
    split
    · exact ⟨_, rfl⟩
    · obtain ⟨e, he⟩ := nodesLoop_error_of_mem rec n hn g.nodes hmem r.2
      rw [he]; exact ⟨e, rfl⟩

theorem graphProg_error_of_body (o : Opts) (d : Nat) (m : ModelP) (fn : String) (indent : Nat) (st : St)
    (h : ∀ rec st, (∀ n st, rec n st = translateNode o m.opsets d indent n st) →
      ∃ e, graphBody o rec m.graph st = .error e) :
    ∃ e, graphProg o d m fn indent st = .error e := by
  unfold graphProg
  obtain ⟨e, he⟩ := h (translateNode o m.opsets d indent)
    { st with remaps := [] :: st.remaps, namesRead := m.graph.outputs ++ namesReadBy d m.graph.nodes,
              constants := [] } (fun _ _ => rfl)
  simp only [he]
  exact ⟨e, rfl⟩

theorem translateGraph_error_of_body (o : Opts) (d : Nat) (m : ModelP)
    (h : ∀ indent rec st, (∀ n st, rec n st = translateNode o m.opsets d indent n st) →
      ∃ e, graphBody o rec m.graph st = .error e) :
    ∃ e, exportModel o d m = .error e := by
  unfold exportModel exportModelT translateGraph
  split
  · exact ⟨_, rfl⟩
  · obtain ⟨e, he⟩ := graphProg_error_of_body o d m m.funName
      (if o.skipInit then 2 else 1) { uniq := reservedTable (reservedNames [] [m.opsets] []) } (h _)
    simp only [he]
    exact ⟨e, rfl⟩

theorem translateNode_scan (o : Opts) (ops : List (String × Nat)) (d indent : Nat) (n : Node) (st : St)
    (h : n.op = "Scan") : ∃ e, translateNode o ops d indent n st = .error e := by
  cases d with
  | zero => exact ⟨_, rfl⟩
  | succ d =>
    refine ⟨.scan, ?_⟩
    simp only [translateNode, h]
    simp



theorem translateNode_plain (o : Opts) (ops : List (String × Nat)) (d indent : Nat) (n : Node) (st : St)
    (h1 : n.op ≠ "Constant") (h2 : n.op ≠ "If") (h3 : n.op ≠ "Loop") (h4 : n.op ≠ "Scan") :
    translateNode o ops (d + 1) indent n st = translatePlain o ops n indent st := by
  simp only [translateNode]
  have e1 : (n.op == "Constant") = false := by simpa using h1
  have e2 : (n.op == "If") = false := by simpa using h2
  have e3 : (n.op == "Loop") = false := by simpa using h3
  have e4 : (n.op == "Scan") = false := by simpa using h4
  simp [e1, e2, e3, e4]

theorem translateAttrs_error_of_unsupported : ∀ (attrs : List (String × Attr)) (k : String),
    (k, Attr.unsupported) ∈ attrs → ∃ e, translateAttrs attrs = .error e
  | [], _, h => by cases h
  | (k', a) :: rest, k, h => by
    rcases List.mem_cons.mp h with h | h
    · cases h; exact ⟨_, rfl⟩
    · obtain ⟨e, he⟩ := translateAttrs_error_of_unsupported rest k h
      cases a <;> simp only [translateAttrs, he, Except.map] <;> exact ⟨_, rfl⟩

theorem translatePlain_graphAttr (o : Opts) (ops : List (String × Nat)) (n : Node) (indent : Nat) (st : St)
    (h : n.attrs.any (·.2.isGraph) = true) : translatePlain o ops n indent st = .error .graphAttr := by
  simp only [translatePlain, h, if_true]

theorem translatePlain_unsupported (o : Opts) (ops : List (String × Nat)) (n : Node) (indent : Nat) (st : St)
    (k : String) (h : (k, Attr.unsupported) ∈ n.attrs)
    (hs : o.useOps = false ∨ opsTable.lookup n.op = none) :
    ∃ e, translatePlain o ops n indent st = .error e := by
  unfold translatePlain
  split
  · exact ⟨_, rfl⟩
  · have : (if o.useOps = true then opsTable.lookup n.op else none) = none := by
      rcases hs with hs | hs
      · simp [hs]
      · simp [hs]
    simp only [this]
    cases ops.lookup n.domain with
    | none => exact ⟨_, rfl⟩
    | some v =>
      obtain ⟨e, he⟩ := translateAttrs_error_of_unsupported n.attrs k h
      simp only [he]
      exact ⟨_, rfl⟩


/-! ## the unique-name mapper (fix da27432) -/





theorem uniqCand_inj (c : String) {j k : Nat} (h : uniqCand c j = uniqCand c k) : j = k := by
  unfold uniqCand at h
  by_cases hj : j = 0 <;> by_cases hk : k = 0
  · omega
  · simp only [hj, hk, if_true, if_false] at h
    have h1 := congrArg String.toList h
    simp only [String.toList_append] at h1
    have : ("_" : String).toList ++ (Nat.repr k).toList = [] := by
      have h2 : c.toList ++ [] = c.toList ++ (("_" : String).toList ++ (Nat.repr k).toList) := by
        simpa [List.append_assoc] using h1
      exact (List.append_cancel_left h2).symm
    simp at this
  · simp only [hj, hk, if_true, if_false] at h
    have h1 := congrArg String.toList h
    simp only [String.toList_append] at h1
    have : ("_" : String).toList ++ (Nat.repr j).toList = [] := by
      have h2 : c.toList ++ (("_" : String).toList ++ (Nat.repr j).toList) = c.toList ++ [] := by
        simpa [List.append_assoc] using h1
      exact List.append_cancel_left h2
    simp at this
  · simp only [hj, hk, if_false] at h
    have h1 := congrArg String.toList h
    simp only [String.toList_append] at h1
    have h2 := List.append_cancel_left h1
    exact Nat.repr_inj.mp (String.toList_inj.mp h2)

/-- the candidates `k, k+1, …, k+n-1` -/
def cands (c : String) : Nat → Nat → List String
  | _, 0 => []
  | k, n + 1 => uniqCand c k :: cands c (k + 1) n

theorem mem_cands {c : String} : ∀ {n k : Nat} {x : String}, x ∈ cands c k n → ∃ i, i < n ∧ x = uniqCand c (k + i)
  | 0, _, _, h => by cases h
  | n + 1, k, x, h => by
    simp only [cands, List.mem_cons] at h
    rcases h with h | h
    · exact ⟨0, by omega, by simpa using h⟩
    · obtain ⟨i, hi, hx⟩ := mem_cands h
      exact ⟨i + 1, by omega, by rw [hx]; congr 1; omega⟩

theorem cands_length (c : String) : ∀ (n k : Nat), (cands c k n).length = n
  | 0, _ => rfl
  | n + 1, k => by simp [cands, cands_length c n (k + 1)]

theorem cands_nodup (c : String) : ∀ (n k : Nat), (cands c k n).Nodup
  | 0, _ => List.nodup_nil
  | n + 1, k => by
    simp only [cands, List.nodup_cons]
    refine ⟨?_, cands_nodup c n (k + 1)⟩
    intro h
    obtain ⟨i, _, hx⟩ := mem_cands h
    have := uniqCand_inj c hx
    omega

theorem findFree_fail {c : String} {used : List String} : ∀ (fuel k : Nat),
    findFree c used fuel k ∈ used → ∀ x ∈ cands c k (fuel + 1), x ∈ used
  | 0, k, h => by
    intro x hx
    simp only [cands, List.mem_cons, List.not_mem_nil, or_false] at hx
    subst hx; exact h
  | fuel + 1, k, h => by
    simp only [findFree] at h
    by_cases hk : uniqCand c k ∈ used
    · simp only [hk, if_true] at h
      have ih := findFree_fail fuel (k + 1) h
      intro x hx
      simp only [cands, List.mem_cons] at hx
      rcases hx with hx | hx
      · subst hx; exact hk
      · exact ih x (by simpa [cands] using hx)
    · simp only [hk, if_false] at h

/-- **the uniquifier's search always ends on a free name** -/
theorem findFree_notin (c : String) (used : List String) (fuel : Nat) (hf : used.length ≤ fuel) :
    findFree c used fuel 0 ∉ used := by
  intro h
  have hsub := findFree_fail fuel 0 h
  have := List.Nodup.length_le_of_subset (cands_nodup c (fuel + 1) 0) hsub
  rw [cands_length] at this
  omega



/-! ### the table of the unique-name mapper -/

/-- `T` extends `u` (the mapper only ever appends) -/
def Ext (u T : List (String × String)) : Prop := ∃ e, T = u ++ e

theorem Ext.refl (u : List (String × String)) : Ext u u := ⟨[], (List.append_nil u).symm⟩
theorem Ext.trans {a b c : List (String × String)} (h1 : Ext a b) (h2 : Ext b c) : Ext a c := by
  obtain ⟨e1, rfl⟩ := h1; obtain ⟨e2, rfl⟩ := h2; exact ⟨e1 ++ e2, by rw [List.append_assoc]⟩

theorem lookup_ext {u T : List (String × String)} (h : Ext u T) {k r : String} (hk : u.lookup k = some r) :
    T.lookup k = some r := by
  obtain ⟨e, rfl⟩ := h
  rw [List.lookup_append, hk]; rfl

theorem uniqStep_ext (u : List (String × String)) (n : String) : Ext u (uniqStep u n).2 := by
  unfold uniqStep
  cases u.lookup n with
  | some r => exact Ext.refl u
  | none => exact ⟨_, rfl⟩

theorem uniqStep_lookup (u : List (String × String)) (n : String) :
    (uniqStep u n).2.lookup n = some (uniqStep u n).1 := by
  unfold uniqStep
  cases h : u.lookup n with
  | some r => simpa using h
  | none => simp [List.lookup_append, h, List.lookup]

theorem uniqReq_ext (u : List (String × String)) (v : String) : Ext u (uniqReq u v) := by
  unfold uniqReq; split
  · exact Ext.refl u
  · exact uniqStep_ext u v

theorem uniqRun_ext : ∀ (vs : List String) (u : List (String × String)), Ext u (uniqRun u vs)
  | [], u => Ext.refl u
  | v :: vs, u => (uniqReq_ext u v).trans (uniqRun_ext vs (uniqReq u v))

theorem uniqRun_append (u : List (String × String)) (a b : List String) :
    uniqRun u (a ++ b) = uniqRun (uniqRun u a) b := by
  induction a generalizing u with
  | nil => rfl
  | cons v vs ih => simp only [List.cons_append, uniqRun, ih]

/-- present: `v` is the empty name or has an entry -/
def Present (T : List (String × String)) (v : String) : Prop := v = "" ∨ (T.lookup v).isSome = true

theorem present_uniqReq (u : List (String × String)) (v : String) : Present (uniqReq u v) v := by
  unfold Present uniqReq
  by_cases hv : v = ""
  · left; exact hv
  · right; simp only [hv, if_false, uniqStep_lookup, Option.isSome_some]

theorem present_ext {u T : List (String × String)} (h : Ext u T) {v : String} (hp : Present u v) : Present T v := by
  rcases hp with hp | hp
  · left; exact hp
  · right
    obtain ⟨r, hr⟩ := Option.isSome_iff_exists.mp hp
    rw [lookup_ext h hr]; rfl

theorem pyT_stable {u T : List (String × String)} (h : Ext u T) {v : String} (hp : Present u v) :
    pyT T v = pyT u v := by
  unfold pyT
  rcases hp with hp | hp
  · simp [hp]
  · obtain ⟨r, hr⟩ := Option.isSome_iff_exists.mp hp
    rw [lookup_ext h hr, hr]

theorem present_uniqRun : ∀ (vs : List String) (u : List (String × String)) (v : String),
    v ∈ vs → Present (uniqRun u vs) v
  | [], _, _, h => by cases h
  | w :: ws, u, v, h => by
    simp only [uniqRun]
    rcases List.mem_cons.mp h with h | h
    · subst h; exact present_ext (uniqRun_ext ws _) (present_uniqReq u v)
    · exact present_uniqRun ws _ v h

/-- the printed name of a request -/
theorem pyT_uniqReq_fst (u : List (String × String)) (v : String) (hv : v ≠ "") :
    pyT (uniqReq u v) v = (uniqStep u v).1 := by
  unfold pyT uniqReq
  simp only [hv, if_false, uniqStep_lookup, Option.getD_some]



/-! ### invariants of the table -/

structure TblInv (u : List (String × String)) : Prop where
  nodup : (u.map (·.2)).Nodup
  nokw : ∀ p ∈ u, p.2.toList ∉ kwlistL
  ne : ∀ p ∈ u, p.2 ≠ ""

theorem tblInv_nil : TblInv [] :=
  ⟨List.nodup_nil, fun p h => absurd h (List.not_mem_nil), fun p h => absurd h (List.not_mem_nil)⟩

theorem toList_ne_nil' {s : String} (h : s ≠ "") : s.toList ≠ [] := by
  intro h'
  apply h
  apply String.toList_inj.mp
  rw [h']; rfl

theorem findFree_is_cand (c : String) (used : List String) : ∀ (fuel k : Nat),
    ∃ j, findFree c used fuel k = uniqCand c j
  | 0, k => ⟨k, rfl⟩
  | fuel + 1, k => by
    simp only [findFree]
    split
    · exact findFree_is_cand c used fuel (k + 1)
    · exact ⟨k, rfl⟩

theorem uniqCand_good (n : String) (hn : n ≠ "") (j : Nat) :
    (uniqCand (cleanup n) j).toList ∉ kwlistL ∧ uniqCand (cleanup n) j ≠ "" := by
  have hid := cleanupL_ident n.toList (toList_ne_nil' hn)
  unfold uniqCand
  by_cases hj : j = 0
  · simp only [hj, if_true]
    constructor
    · simpa [cleanup, String.toList_ofList] using hid.2
    · intro h
      have h1 := hid.1
      have h2 : cleanupL n.toList = [] := by
        have := congrArg String.toList h
        simpa [cleanup, String.toList_ofList] using this
      rw [h2] at h1
      simp [isPyIdentL] at h1
  · simp only [hj, if_false]
    constructor
    · intro hk
      have := kw_no_us _ hk
      apply this
      simp [String.toList_append]
    · intro h
      have := congrArg String.toList h
      simp [String.toList_append] at this

theorem lookup_some_mem_vals : ∀ (T : List (String × String)) (k r : String),
    T.lookup k = some r → r ∈ T.map (·.2)
  | [], _, _, h => by simp [List.lookup] at h
  | (a, b) :: T, k, r, h => by
    simp only [List.lookup_cons] at h
    by_cases hk : (k == a) = true
    · simp only [hk] at h
      simp only [List.map_cons, List.mem_cons]
      left; simpa using h.symm
    · have hk' : (k == a) = false := by simpa using hk
      simp only [hk'] at h
      simp only [List.map_cons, List.mem_cons]
      right; exact lookup_some_mem_vals T k r h

theorem lookup_some_mem : ∀ (T : List (String × String)) (k r : String),
    T.lookup k = some r → (k, r) ∈ T
  | [], _, _, h => by simp [List.lookup] at h
  | (a, b) :: T, k, r, h => by
    simp only [List.lookup_cons] at h
    by_cases hk : (k == a) = true
    · simp only [hk] at h
      have : k = a := by simpa using hk
      subst this
      simp only [Option.some.injEq] at h
      subst h
      simp
    · have hk' : (k == a) = false := by simpa using hk
      simp only [hk'] at h
      exact List.mem_cons_of_mem _ (lookup_some_mem T k r h)

/-- **distinct keys have distinct values** in a table with duplicate-free values -/
theorem lookup_val_inj : ∀ (T : List (String × String)), (T.map (·.2)).Nodup → ∀ (a b r : String),
    T.lookup a = some r → T.lookup b = some r → a = b
  | [], _, _, _, _, h, _ => by simp [List.lookup] at h
  | (k, v) :: T, hnd, a, b, r, ha, hb => by
    simp only [List.map_cons, List.nodup_cons] at hnd
    simp only [List.lookup_cons] at ha hb
    by_cases hak : (a == k) = true <;> by_cases hbk : (b == k) = true
    · have h1 : a = k := by simpa using hak
      have h2 : b = k := by simpa using hbk
      rw [h1, h2]
    · have hbk' : (b == k) = false := by simpa using hbk
      simp only [hak, hbk'] at ha hb
      have : v = r := by simpa using ha
      subst this
      exact absurd (lookup_some_mem_vals T b v hb) hnd.1
    · have hak' : (a == k) = false := by simpa using hak
      simp only [hak', hbk] at ha hb
      have : v = r := by simpa using hb
      subst this
      exact absurd (lookup_some_mem_vals T a v ha) hnd.1
    · have hak' : (a == k) = false := by simpa using hak
      have hbk' : (b == k) = false := by simpa using hbk
      simp only [hak', hbk'] at ha hb
      exact lookup_val_inj T hnd.2 a b r ha hb

theorem tblInv_uniqStep {u : List (String × String)} (h : TblInv u) (n : String) (hn : n ≠ "") :
    TblInv (uniqStep u n).2 := by
  unfold uniqStep
  cases hl : u.lookup n with
  | some r => exact h
  | none =>
    simp only
    have hnot : findFree (cleanup n) (u.map (·.2)) (u.length + 1) 0 ∉ u.map (·.2) :=
      findFree_notin _ _ _ (by simp)
    obtain ⟨j, hj⟩ := findFree_is_cand (cleanup n) (u.map (·.2)) (u.length + 1) 0
    have hg := uniqCand_good n hn j
    refine ⟨?_, ?_, ?_⟩
    · rw [List.map_append, List.nodup_append]
      refine ⟨h.nodup, by simp, ?_⟩
      intro a ha b hb
      simp only [List.map_cons, List.map_nil, List.mem_singleton] at hb
      subst hb
      intro hab; subst hab; exact hnot ha
    · intro p hp
      rcases List.mem_append.mp hp with hp | hp
      · exact h.nokw p hp
      · simp only [List.mem_singleton] at hp
        subst hp; simp only; rw [hj]; exact hg.1
    · intro p hp
      rcases List.mem_append.mp hp with hp | hp
      · exact h.ne p hp
      · simp only [List.mem_singleton] at hp
        subst hp; simp only; rw [hj]; exact hg.2

theorem tblInv_uniqReq {u : List (String × String)} (h : TblInv u) (v : String) : TblInv (uniqReq u v) := by
  unfold uniqReq
  by_cases hv : v = ""
  · simp only [hv, if_true]; exact h
  · simp only [hv, if_false]; exact tblInv_uniqStep h v hv

theorem tblInv_uniqRun : ∀ (vs : List String) {u : List (String × String)}, TblInv u → TblInv (uniqRun u vs)
  | [], _, h => h
  | v :: vs, _, h => tblInv_uniqRun vs (tblInv_uniqReq h v)

/-- printed names of present, non-empty names: non-empty, not `None`, and injective -/
theorem pyT_ne_empty {T : List (String × String)} (h : TblInv T) {v : String} (hv : v ≠ "")
    (hp : Present T v) : pyT T v ≠ "" := by
  unfold pyT
  rcases hp with hp | hp
  · exact absurd hp hv
  · obtain ⟨r, hr⟩ := Option.isSome_iff_exists.mp hp
    simp only [hv, if_false, hr, Option.getD_some]
    exact h.ne _ (lookup_some_mem T v r hr)

theorem pyT_ne_None {T : List (String × String)} (h : TblInv T) {v : String} (hv : v ≠ "")
    (hp : Present T v) : pyT T v ≠ "None" := by
  unfold pyT
  rcases hp with hp | hp
  · exact absurd hp hv
  · obtain ⟨r, hr⟩ := Option.isSome_iff_exists.mp hp
    simp only [hv, if_false, hr, Option.getD_some]
    intro h'
    have := h.nokw _ (lookup_some_mem T v r hr)
    apply this
    simp only [h']; decide

theorem pyT_inj {T : List (String × String)} (h : TblInv T) {a b : String} (ha : a ≠ "") (hb : b ≠ "")
    (hpa : Present T a) (hpb : Present T b) (he : pyT T a = pyT T b) : a = b := by
  unfold pyT at he
  rcases hpa with hpa | hpa
  · exact absurd hpa ha
  rcases hpb with hpb | hpb
  · exact absurd hpb hb
  obtain ⟨r, hr⟩ := Option.isSome_iff_exists.mp hpa
  obtain ⟨r', hr'⟩ := Option.isSome_iff_exists.mp hpb
  simp only [ha, hb, if_false, hr, hr', Option.getD_some] at he
  subst he
  exact lookup_val_inj T h.nodup a b r hr hr'



/-! ### the renamer of `rename=False` in a state without attribute parameters, remappings, inlined constants -/

structure Plain (st : St) : Prop where
  attr : st.attrRen = []
  remap : QuietRemaps st
  consts : st.constants = []
  fns : st.localFns = []

theorem plain_uniq {st : St} (h : Plain st) (T : List (String × String)) : Plain { st with uniq := T } :=
  ⟨h.attr, h.remap, h.consts, h.fns⟩

theorem translateVar_uniq (o : Opts) (hr : o.rename = false) (st : St) (hq : Plain st) (v : String) :
    translateVar o st v = (pyT (uniqReq st.uniq v) v, { st with uniq := uniqReq st.uniq v }) := by
  unfold translateVar
  by_cases hv : v = ""
  · subst hv
    simp [pyT, uniqReq]
  · have : (v == "") = false := by simpa using hv
    simp only [this, Bool.false_eq_true, if_false, hq.remap v, newRenamer, hr, uniqueName, hq.attr, List.lookup,
      pyT_uniqReq_fst st.uniq v hv, conflictStep_nil]
    simp only [uniqReq, hv, if_false]

theorem translateVarRef_uniq (o : Opts) (hr : o.rename = false) (st : St) (hq : Plain st) (v : String) :
    translateVarRef o st v = (pyT (uniqReq st.uniq v) v, { st with uniq := uniqReq st.uniq v }) := by
  unfold translateVarRef
  simp only [hq.consts, List.lookup, translateVar_uniq o hr st hq v]

theorem translateVars_uniq (o : Opts) (hr : o.rename = false) :
    ∀ (vs : List String) (st : St), Plain st →
      translateVars o st vs = (vs.map (pyT (uniqRun st.uniq vs)), { st with uniq := uniqRun st.uniq vs })
  | [], st, _ => rfl
  | v :: vs, st, hq => by
    have ih := translateVars_uniq o hr vs { st with uniq := uniqReq st.uniq v } (plain_uniq hq _)
    simp only [translateVars, translateVar_uniq o hr st hq v, ih, List.map_cons, uniqRun]
    have := pyT_stable (uniqRun_ext vs (uniqReq st.uniq v)) (present_uniqReq st.uniq v)
    rw [this]

theorem translateVarRefs_uniq (o : Opts) (hr : o.rename = false) :
    ∀ (vs : List String) (st : St), Plain st →
      translateVarRefs o st vs = (vs.map (pyT (uniqRun st.uniq vs)), { st with uniq := uniqRun st.uniq vs })
  | [], st, _ => rfl
  | v :: vs, st, hq => by
    have ih := translateVarRefs_uniq o hr vs { st with uniq := uniqReq st.uniq v } (plain_uniq hq _)
    simp only [translateVarRefs, translateVarRef_uniq o hr st hq v, ih, List.map_cons, uniqRun]
    have := pyT_stable (uniqRun_ext vs (uniqReq st.uniq v)) (present_uniqReq st.uniq v)
    rw [this]

theorem outNames_uniq (o : Opts) (hr : o.rename = false) :
    ∀ (outs : List String) (i : Nat) (st : St), Plain st → (∀ x ∈ outs, x ≠ "") →
      outNames o st i outs = (outs.map (pyT (uniqRun st.uniq outs)), { st with uniq := uniqRun st.uniq outs })
  | [], _, st, _, _ => rfl
  | x :: xs, i, st, hq, h => by
    have hx : (x == "") = false := by simpa using h x (by simp)
    have ih := outNames_uniq o hr xs (i + 1) { st with uniq := uniqReq st.uniq x } (plain_uniq hq _)
      (fun y hy => h y (by simp [hy]))
    simp only [outNames, hx, Bool.false_eq_true, if_false, translateVar_uniq o hr st hq x, ih, List.map_cons, uniqRun]
    have := pyT_stable (uniqRun_ext xs (uniqReq st.uniq x)) (present_uniqReq st.uniq x)
    rw [this]


theorem plain_empty : Plain ({} : St) := ⟨rfl, fun _ => rfl, rfl, rfl⟩


/-! ## renamer requests never touch the table of inlined constants -/

theorem newRenamer_constants (o : Opts) (st : St) (v : String) : (newRenamer o st v).2.constants = st.constants := by
  unfold newRenamer shortName uniqueName
  cases o.rename <;> simp

theorem translateVar_constants (o : Opts) (st : St) (v : String) : (translateVar o st v).2.constants = st.constants := by
  unfold translateVar
  split
  · rfl
  · split
    · rfl
    · exact newRenamer_constants o st v

theorem translateVarRef_constants (o : Opts) (st : St) (v : String) :
    (translateVarRef o st v).2.constants = st.constants := by
  unfold translateVarRef
  split
  · rfl
  · exact translateVar_constants o st v

theorem translateVars_constants (o : Opts) : ∀ (vs : List String) (st : St),
    (translateVars o st vs).2.constants = st.constants
  | [], _ => rfl
  | v :: vs, st => by
    simp only [translateVars]
    rw [translateVars_constants o vs, translateVar_constants]

end OV.C13
