import OV.Model.C10Meta
/-! Helper lemmas for the metadata frame theorems (core Lean only). -/
namespace OV.C10.Meta

theorem get_append_of_has {d e : Props} {k : String} (h : d.has k = true) : Props.get (d ++ e) k = d.get k := by
  simp only [Props.has, List.any_eq_true] at h
  obtain ⟨x, hx, hk⟩ := h
  simp only [Props.get, List.find?_append]
  cases hf : d.find? (fun e => e.1 == k) with
  | some y => rfl
  | none => exact absurd hk (by simpa using List.find?_eq_none.mp hf x hx)

theorem get_none_of_not_has {d : Props} {k : String} (h : d.has k = false) : d.get k = none := by
  simp only [Props.get, Option.map_eq_none_iff, List.find?_eq_none]
  intro x hx hk
  have : d.has k = true := by simp only [Props.has, List.any_eq_true]; exact ⟨x, hx, hk⟩
  rw [h] at this; cases this

theorem has_iff_get {d : Props} {k : String} : d.has k = true ↔ (d.get k).isSome = true := by
  constructor
  · intro h
    simp only [Props.has, List.any_eq_true] at h
    obtain ⟨x, hx, hk⟩ := h
    cases hf : d.find? (fun e => e.1 == k) with
    | some y => simp [Props.get, hf]
    | none => exact absurd hk (by simpa using List.find?_eq_none.mp hf x hx)
  · intro h
    cases hh : d.has k with
    | true => rfl
    | false => rw [get_none_of_not_has hh] at h; cases h

theorem setdefault_get (d : Props) (k v k' : String) :
    (d.setdefault k v).get k' = (d.get k').or (if k == k' then some v else none) := by
  unfold Props.setdefault
  by_cases h : d.has k = true
  · simp only [h, if_true]
    by_cases hk : (k == k') = true
    · have hk' : k = k' := by simpa using hk
      subst hk'
      have := has_iff_get.mp h
      cases hg : d.get k with
      | none => rw [hg] at this; cases this
      | some x => simp
    · simp [hk]
  · have h' : d.has k = false := by simpa using h
    simp only [h', Bool.false_eq_true, if_false]
    by_cases hk : (k == k') = true
    · have hk' : k = k' := by simpa using hk
      subst hk'
      rw [get_none_of_not_has h']
      simp [Props.get, List.find?_append]
      have : d.find? (fun e => e.1 == k) = none := by
        rw [List.find?_eq_none]; intro x hx hq
        have : d.has k = true := by simp only [Props.has, List.any_eq_true]; exact ⟨x, hx, hq⟩
        rw [h'] at this; cases this
      simp [this]
    · simp only [hk, Bool.false_eq_true, if_false, Option.or_none]
      simp only [Props.get, List.find?_append]
      cases hf : d.find? (fun e => e.1 == k') with
      | some y => rfl
      | none => simp [hk]

/-- **The merge law**: after `for key, item in old.items(): d.setdefault(key, item)` a key reads as in `d` if `d` had
it, else as (its first entry) in `old`. -/
theorem merge_get (old : Props) : ∀ (d : Props) (k : String), (d.merge old).get k = (d.get k).or (old.get k) := by
  induction old with
  | nil => intro d k; simp [Props.merge, Props.get]
  | cons e old ih =>
    intro d k
    have := ih (d.setdefault e.1 e.2) k
    simp only [Props.merge, List.foldl_cons] at this ⊢
    rw [this, setdefault_get]
    simp only [Props.get, List.find?_cons]
    by_cases hk : (e.1 == k) = true
    · simp only [hk, if_true, Option.map_some]
      cases (List.find? (fun e => e.1 == k) d) <;> simp
    · simp only [hk, Bool.false_eq_true, if_false, Option.or_none]

end OV.C10.Meta
