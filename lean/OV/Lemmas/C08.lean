import OV.Model.C08View
import OV.Model.C08Slice
import OV.Model.C08Repl
import OV.Model.C08Reduce
import OV.Model.C08IntArith
import OV.Model.C08Creation
import OV.Model.C08Attr
import OV.Model.C08Misc
import OV.Model.C08Linalg
/-! Helper lemmas for `OV.Props.C08` (core Lean only; `omega`, `simp`, case analysis). -/
namespace OV.Lemmas.C08
open OV.C08 OV.C08.IntArith

theorem fdiv_is_floor (a b : Int) (hb : 0 < b) : b * Int.fdiv a b ≤ a ∧ a < b * (Int.fdiv a b + 1) := by
  rw [Int.fdiv_eq_ediv_of_nonneg a (by omega)]
  have h1 := Int.mul_ediv_add_emod a b
  have h2 := Int.emod_nonneg a (show b ≠ 0 by omega)
  have h3 := Int.emod_lt_of_pos a hb
  constructor
  · omega
  · rw [Int.mul_add]; omega

theorem tdiv_eq_fdiv_nonneg (a b : Int) (ha : 0 ≤ a) (hb : 0 < b) : Int.tdiv a b = Int.fdiv a b := by
  rw [Int.tdiv_eq_ediv_of_nonneg ha, Int.fdiv_eq_ediv_of_nonneg a (by omega)]

theorem onnx_mod_eq' (a b : Int) (hb : b ≠ 0) :
    (if (Int.tmod a b < 0 ∧ b > 0) ∨ (Int.tmod a b > 0 ∧ b < 0) then Int.tmod a b + b else Int.tmod a b) = a - Int.fdiv a b * b := by
  have h1 : a - Int.fdiv a b * b = Int.fmod a b := by rw [Int.fmod_def, Int.mul_comm]
  rw [h1, Int.fmod_eq_emod, Int.tmod_eq_emod]
  simp only [Int.dvd_iff_emod_eq_zero]
  have h2 := Int.emod_nonneg a hb
  have h3 := Int.emod_lt a hb
  generalize a % b = r at *
  (repeat' split) <;> omega

theorem onnx_mod_eq (a b : Int) (hb : b ≠ 0) :
    (let r := Int.tmod a b; if (r < 0 ∧ b > 0) ∨ (r > 0 ∧ b < 0) then r + b else r) = a - Int.fdiv a b * b :=
  onnx_mod_eq' a b hb

theorem floor_divide_signed (a b : Int) (hb : b ≠ 0) :
    (Int.tdiv a b - (if (((decide (a < 0)) == (decide (b > 0))) && ((let r := Int.tmod a b; if (r < 0 ∧ b > 0) ∨ (r > 0 ∧ b < 0) then r + b else r) != 0)) = true then 1 else 0)) = Int.fdiv a b := by
  rw [onnx_mod_eq a b hb]
  have h1 : a - Int.fdiv a b * b = Int.fmod a b := by rw [Int.fmod_def, Int.mul_comm]
  rw [h1, Int.fmod_eq_emod, Int.tdiv_eq_ediv, Int.fdiv_eq_ediv]
  simp only [Int.dvd_iff_emod_eq_zero, Bool.and_eq_true, beq_iff_eq, bne_iff_ne, ne_eq, decide_eq_decide]
  have h2 := Int.emod_nonneg a hb
  have h3 := Int.emod_lt a hb
  generalize a % b = r at *
  generalize a / b = q at *
  rcases Int.lt_or_gt_of_ne hb with hneg | hpos
  · rw [Int.sign_eq_neg_one_of_neg hneg]
    (repeat' split) <;> omega
  · rw [Int.sign_eq_one_of_pos hpos]
    (repeat' split) <;> omega

theorem sliceLen_one (d s e : Int) :
    (sliceLen d s e 1 : Int) = max 0 (clampI (if e < 0 then e + d else e) 0 d - clampI (if s < 0 then s + d else s) 0 d) := by
  unfold sliceLen sliceNorm
  simp only [show (1:Int) > 0 from by decide, if_true]
  generalize clampI (if e < 0 then e + d else e) 0 d = E
  generalize clampI (if s < 0 then s + d else s) 0 d = S
  simp only [Int.max_def]
  split <;> omega

theorem flip_len (d : Int) (hd0 : 0 ≤ d) (hd : d < INT64_MAX) :
    (sliceLen d (-1) INT64_MIN (-1) : Int) = d := by
  unfold sliceLen sliceNorm clampI INT64_MIN INT64_MAX at *
  simp only [show ¬ ((-1:Int) > 0) from by decide, show ((-1:Int) < 0) from by decide, if_true, if_false, Int.neg_neg]
  simp only [Int.min_def, Int.max_def]
  (repeat' split) <;> omega

theorem sliceIdx_length (d a b c : Int) : (sliceIdx d a b c).length = sliceLen d a b c := by
  simp [sliceIdx]

theorem two_slices (d big L : Int) (A B : Nat) (hd : 0 ≤ d) (hbig : d ≤ big) (h1 : -d ≤ L) (h2 : L ≤ d)
    (e1 : (A : Int) = max 0 (clampI (if big < 0 then big + d else big) 0 d - clampI (if L < 0 then L + d else L) 0 d))
    (e2 : (B : Int) = max 0 (clampI (if L < 0 then L + d else L) 0 d - clampI (if (0:Int) < 0 then 0 + d else 0) 0 d)) :
    (A : Int) + B = d := by
  unfold clampI at e1 e2
  simp only [Int.min_def, Int.max_def] at e1 e2
  have hb : ¬ big < 0 := by omega
  simp only [hb, if_false, show ¬ ((0:Int) < 0) from by decide] at e1 e2
  (repeat' split at e1) <;> (repeat' split at e2) <;> omega

theorem roll_len (d big : Nat) (shift : Int) (hbig : d ≤ big)
    (h1 : -(d : Int) ≤ shift) (h2 : shift ≤ 2 * (d : Int)) :
    (roll.stepIdx d big shift).length = d := by
  unfold roll.stepIdx
  rw [List.length_append, sliceIdx_length, sliceIdx_length]
  have e1 := sliceLen_one d (if shift < 0 then -shift else (d:Int) - shift) big
  have e2 := sliceLen_one d 0 (if shift < 0 then -shift else (d:Int) - shift)
  have := two_slices d big (if shift < 0 then -shift else (d:Int) - shift) _ _ (by omega) (by omega)
    (by split <;> omega) (by split <;> omega) e1 e2
  omega

theorem unsqueeze_agrees (s : Shape) (dim : Int) : unsqueeze.model s dim = unsqueeze.spec s dim := by
  unfold unsqueeze.model unsqueeze.spec unsqueeze1 normAxis insertOne
  have e : ((s.length + 1 : Nat) : Int) = (s.length : Int) + 1 := by omega
  rw [e]
  by_cases h1 : 0 ≤ dim ∧ dim < (s.length : Int) + 1
  · have h4 : -((s.length : Int) + 1) ≤ dim ∧ dim ≤ s.length := by omega
    have h3 : ¬ dim < 0 := by omega
    simp only [h1, h4, h3, if_true, if_false, and_self, Option.map_some, List.append_assoc, List.cons_append, List.nil_append]
  · by_cases h2 : dim < 0 ∧ -((s.length : Int) + 1) ≤ dim
    · have h4 : -((s.length : Int) + 1) ≤ dim ∧ dim ≤ s.length := by omega
      have h3 : dim < 0 := by omega
      simp only [h1, h2, h4, h3, if_true, if_false, and_self, Option.map_some]
      have : (dim + ((s.length : Int) + 1)).toNat = (dim + (s.length : Int) + 1).toNat := by congr 1; omega
      rw [this]; simp only [List.append_assoc, List.cons_append, List.nil_append]
    · have h4 : ¬ (-((s.length : Int) + 1) ≤ dim ∧ dim ≤ s.length) := by omega
      simp only [h1, h2, h4, if_false, Option.map_none]

theorem linspace_len (steps : Int) (h : 0 ≤ steps) : linspace.modelLen steps = linspace.specLen steps := by
  unfold linspace.modelLen linspace.specLen
  have hn : ¬ steps < 0 := by omega
  simp only [hn, if_false]
  by_cases h0 : steps = 0
  · subst h0; decide
  · by_cases h1 : steps = 1
    · subst h1; decide
    · simp only [h0, h1, if_false, rangeLen, ceilDivPos]
      simp

theorem range_len_char (start stop step : Int) (hs : 0 < step) (i : Nat) :
    i < arange.modelLen start stop step ↔ start + (i : Int) * step < stop := by
  unfold arange.modelLen rangeLen ceilDivPos
  simp only [hs, if_true, gt_iff_lt]
  have key : ((i : Int) + 1 ≤ (stop - start + step - 1) / step) ↔ ((i : Int) + 1) * step ≤ stop - start + step - 1 :=
    Int.le_ediv_iff_mul_le hs
  rw [Int.add_mul] at key
  constructor
  · intro h
    have : (i : Int) + 1 ≤ (stop - start + step - 1) / step := by omega
    have := key.mp this
    omega
  · intro h
    have : (i : Int) + 1 ≤ (stop - start + step - 1) / step := key.mpr (by omega)
    omega

theorem div_toNat_zero (x st : Int) (hst : 0 < st) (hx : x < st) : (x / st).toNat = 0 := by
  have : x / st < 1 := (Int.ediv_lt_iff_lt_mul hst).mpr (by omega)
  omega

theorem slice_len (d : Int) (start stop step : Option Int)
    (hd0 : 0 ≤ d) (hs : 0 < optI step 1) :
    (sliceLen d (optI start 0) (optI stop INT64_MAX) (optI step 1) : Int)
      = (slice.specLen d start stop step).toNat := by
  unfold slice.specLen sliceLen sliceNorm clampI
  generalize optI start 0 = s0 at *
  generalize optI stop INT64_MAX = e0 at *
  generalize optI step 1 = st at *
  simp only [hs, if_true, gt_iff_lt, Int.min_def, Int.max_def]
  (repeat' split) <;> first
    | rfl
    | (rw [div_toNat_zero _ _ hs (by omega), div_toNat_zero _ _ hs (by omega)])
    | (congr 3; omega)

theorem reduce_agrees (s : Shape) (dims : List Int) (keep : Bool) (out : Shape)
    (hr : s.length ≠ 0) (h : torchReduce s dims keep = some out) : reduceOp s dims keep = some out := by
  unfold torchReduce at h
  unfold reduceOp normAxes
  have e : (fun d => torchDim s.length d) = normAxis s.length := by
    funext d; unfold torchDim; simp only [hr, if_false]
  have e' : dims.mapM (torchDim s.length) = dims.mapM (normAxis s.length) := by
    show dims.mapM (fun d => torchDim s.length d) = _
    rw [e]
  rw [e'] at h
  cases hm : dims.mapM (normAxis s.length) with
  | none => rw [hm] at h; simp at h
  | some ax =>
    rw [hm] at h
    simp only at h ⊢
    split at h
    · simp at h
    · exact h

theorem flatten_branches (a b : Nat) (rest : Shape) :
    flatten.model (a :: b :: rest) 1 (-1) = flatten.spec (a :: b :: rest) 1 (-1)
    ∧ flatten.model [a] 0 (-1) = flatten.spec [a] 0 (-1)
    ∧ flatten.model [] 0 (-1) = flatten.spec [] 0 (-1) := by
  refine ⟨?_, ?_, by decide⟩
  · have hr : ((a :: b :: rest).length : Int) ≠ 1 := by simp only [List.length_cons]; omega
    have hl : (rest.length + 1 + 1 : Nat) ≠ 0 := by omega
    simp only [flatten.model, flatten.spec, hr, if_false, true_and, true_or, if_true, flattenOp, torchDim, normAxis,
      List.length_cons, hl]
    simp
    have h1 : ¬ ((rest.length:Int) + 1 + 1 = 1) := by omega
    have h2 : -((rest.length:Int) + 1 + 1) ≤ 1 ∧ 1 ≤ (rest.length:Int) + 1 + 1 := by omega
    have h3 : (1:Int) < (rest.length:Int) + 1 + 1 := by omega
    have h4 : (1:Int) ≤ (rest.length:Int) + 1 + 1 := by omega
    have h5 : (-1 + ((rest.length:Int) + 1 + 1)).toNat = rest.length + 1 := by omega
    simp only [h1, h2, h3, h4, h5, if_true, if_false, and_self]
    have h6 : ¬ (rest.length + 1 < 1) := by omega
    simp only [h6, if_false, List.take_succ_cons, List.take_zero, List.drop_succ_cons, List.drop_zero, Nat.add_sub_cancel]
    rw [List.take_of_length_le (by simp), List.drop_of_length_le (by simp)]
    simp [numel]
  · simp [flatten.model, flatten.spec, torchDim, normAxis, numel]

theorem setAt_getD_self (s : Shape) (a : Nat) : setAt s a (s.getD a 0) = s := by
  unfold setAt
  induction s generalizing a with
  | nil => simp
  | cons x xs ih =>
    cases a with
    | zero => simp
    | succ n => simp only [List.set_cons_succ, List.getD_cons_succ]; rw [ih]

theorem split_sizes (d c : Nat) (hd : 0 < d) (hc : 0 < c) : splitScalar d c = split.specSizes d c := by
  unfold splitScalar split.specSizes
  have hc0 : c ≠ 0 := by omega
  simp only [hc0, if_false]
  have hdm := Nat.div_add_mod d c
  by_cases hr : d % c = 0
  · have hq : d = c * (d / c) := by omega
    have hq1 : 1 ≤ d / c := by
      rcases Nat.eq_zero_or_pos (d / c) with h | h
      · rw [h] at hq; omega
      · exact h
    have e : (d + c - 1) / c = d / c := by
      apply Nat.div_eq_of_lt_le
      · rw [Nat.mul_comm (d / c) c]; omega
      · rw [Nat.add_mul, Nat.one_mul, Nat.mul_comm (d / c) c]; omega
    simp only [hr, if_true, e, List.append_nil]
    have m : max (d / c) 1 = d / c := by omega
    rw [m]
    have l : c - (c * (d / c) - d) = c := by omega
    rw [l]
    have : d / c = (d / c - 1) + 1 := by omega
    conv => lhs; rw [this, List.replicate_succ']
  · have hlt := Nat.mod_lt d hc
    have e : (d + c - 1) / c = d / c + 1 := by
      apply Nat.div_eq_of_lt_le
      · rw [Nat.add_mul, Nat.one_mul, Nat.mul_comm (d / c) c]; omega
      · rw [Nat.add_mul, Nat.add_mul, Nat.one_mul, Nat.mul_comm (d / c) c]; omega
    simp only [hr, if_false, e]
    have m : max (d / c + 1) 1 = d / c + 1 := Nat.max_eq_left (Nat.le_add_left 1 _)
    rw [m, Nat.add_sub_cancel]
    have l : c - (c * (d / c + 1) - d) = d % c := by
      rw [Nat.mul_add, Nat.mul_one]; omega
    rw [l]

theorem chunk_even (q n : Nat) (hq : 0 < q) (hn : 1 < n) :
    splitNumOutputs (q * n) n = some (chunk.specSizes (q * n) n) := by
  unfold splitNumOutputs chunk.specSizes
  have e1 : (q * n + n - 1) / n = q := by
    apply Nat.div_eq_of_lt_le
    · omega
    · rw [Nat.add_mul, Nat.one_mul]; omega
  have hle : n ≤ q * n := by
    have := Nat.mul_le_mul_right n hq
    omega
  have h0 : ¬ (n = 0 ∨ n > q * n) := by omega
  have hq0 : q ≠ 0 := by omega
  have hmul : (n - 1) * q + q = q * n := by
    have : n = (n - 1) + 1 := by omega
    conv => rhs; rw [this, Nat.mul_add, Nat.mul_one, Nat.mul_comm]
  have hlt : (n - 1) * q < q * n := by omega
  have e2 : (q * n + q - 1) / q = n := by
    apply Nat.div_eq_of_lt_le
    · rw [Nat.mul_comm n q]; omega
    · rw [Nat.add_mul, Nat.one_mul, Nat.mul_comm n q]; omega
  simp only [h0, if_false, e1, hlt, if_true, hq0, e2]
  have m : max n 1 = n := by omega
  rw [m]

theorem roll_shape_one (s : Shape) (shift dim : Int) (a : Nat)
    (h0 : s.length ≠ 0) (hz : s.getD 0 0 ≠ 0) (ha : normAxis s.length dim = some a)
    (hlen : (roll.stepIdx (s.getD a 0) INT64_MAX.toNat (roll.redShift (s.getD a 0) shift)).length = s.getD a 0) :
    roll.model s [shift] [dim] = some s := by
  unfold roll.model
  simp only [h0, hz, if_false, List.isEmpty_cons, List.zip_cons_cons, List.zip_nil_right, List.drop_succ_cons, List.drop_zero,
    List.drop_nil, List.any_nil, List.foldlM_cons, List.foldlM_nil, List.length_cons, List.length_nil, ha, hlen, setAt_getD_self,
    ne_eq, not_true_eq_false, Bool.false_eq_true, bind, Option.bind, pure]


theorem cat_agrees (ss : List Shape) (dim : Int) (out : Shape)
    (h : cat.spec ss dim = some out) : cat.model ss dim = some out := by
  unfold cat.spec at h
  unfold cat.model
  split at h
  · simp at h
  · next hne0 =>
    cases hf : ss.filter (· != [0]) with
    | nil =>
      rw [hf] at h
      simp only at h ⊢
      cases ss with
      | nil => simp at hne0
      | cons x xs =>
        have hx : (x != [0]) = false := by
          cases hb : (x != [0]) with
          | false => rfl
          | true => simp [List.filter_cons, hb] at hf
        have : x = [0] := by simpa using hx
        simp only [List.head?_cons]
        rw [this]; exact h
    | cons s rest =>
      rw [hf] at h
      cases rest with
      | nil =>
        simp only at h ⊢
        split at h
        · simp at h
        · next a ha =>
          simp only [List.all_nil, if_true, List.foldl_cons, List.foldl_nil, Nat.zero_add, setAt_getD_self] at h
          exact h
      | cons t rest' =>
        simp only at h ⊢
        unfold concatOp
        by_cases hl : s.length = 0
        · simp [hl] at h
        · simp only [hl, if_false] at h
          exact h

theorem all_nonneg_iff (l : List Int) : l.all (0 ≤ ·) = !l.any (· < 0) := by
  induction l with
  | nil => rfl
  | cons x xs ih =>
    simp only [List.all_cons, List.any_cons, ih, Bool.not_or]
    congr 1
    by_cases h : 0 ≤ x <;> simp [h] <;> omega

theorem tile_agrees (s : Shape) (dims : List Int) (h : dims.length ≤ s.length) :
    tile.model s dims = tile.spec s dims := by
  unfold tile.model tile.spec tileOp
  have h2 : ¬ s.length < dims.length := by omega
  have h3 : dims.length - s.length = 0 := by omega
  by_cases hgt : s.length > dims.length
  · simp only [hgt, if_true, h3, List.replicate_zero, List.nil_append, List.length_append, List.length_replicate,
      List.all_append, all_nonneg_iff]
    have hl : (s.length - dims.length + dims.length == s.length) = true := by simp; omega
    have hr : (List.replicate (s.length - dims.length) (1:Int)).any (· < 0) = false := by
      simp [List.any_replicate]
    simp only [hl, hr, Bool.not_false, Bool.true_and]
    cases hd : dims.any (· < 0) <;> simp
  · have heq : dims.length = s.length := by omega
    simp only [hgt, h2, if_false, h3, heq, Nat.sub_self, List.replicate_zero, List.nil_append, all_nonneg_iff, beq_self_eq_true,
      Bool.true_and]
    cases hd : dims.any (· < 0) <;> simp

theorem normAxis_some (r : Nat) (a : Int) (k : Nat) (h : normAxis r a = some k) :
    ¬ ((if a < 0 then a + (r:Int) else a) < 0) ∧ k = (if a < 0 then a + (r:Int) else a).toNat ∧ k < r := by
  unfold normAxis at h
  split at h
  · injection h with h; subst h
    have : ¬ a < 0 := by omega
    rw [if_neg this]; exact ⟨by omega, rfl, by omega⟩
  · split at h
    · injection h with h; subst h
      have : a < 0 := by omega
      rw [if_pos this]; exact ⟨by omega, rfl, by omega⟩
    · simp at h

theorem normAxes_some (r : Nat) (dims : List Int) (q : List Nat) (h : normAxes r dims = some q) :
    (dims.map (fun a => if a < 0 then a + (r:Int) else a)).any (· < 0) = false
    ∧ q = (dims.map (fun a => if a < 0 then a + (r:Int) else a)).map Int.toNat
    ∧ q.all (· < r) = true ∧ q.length = dims.length := by
  unfold normAxes at h
  induction dims generalizing q with
  | nil => simp at h; subst h; simp
  | cons a as ih =>
    rw [List.mapM_cons] at h
    cases ha : normAxis r a with
    | none => simp [ha] at h
    | some k =>
      cases hm : List.mapM (normAxis r) as with
      | none => simp [ha, hm] at h
      | some q' =>
        simp [ha, hm] at h
        subst h
        obtain ⟨h1, h2, h3⟩ := normAxis_some r a k ha
        obtain ⟨i1, i2, i3, i4⟩ := ih q' hm
        refine ⟨?_, ?_, ?_, ?_⟩
        · simp only [List.map_cons, List.any_cons, i1, Bool.or_false]; simpa using h1
        · simp only [List.map_cons]; rw [← i2, ← h2]
        · simp only [List.all_cons, i3, Bool.and_true]; simpa using h3
        · simp [i4]

theorem permute_agrees (s : Shape) (dims : List Int) (out : Shape) (hne : dims ≠ [])
    (h : permute.spec s dims = some out) : permute.model s dims = some out := by
  unfold permute.spec at h
  unfold permute.model transposeOp isPerm
  split at h
  · simp at h
  · next hlen =>
    have hlen : dims.length = s.length := by simpa using hlen
    cases hq : normAxes s.length dims with
    | none => simp [hq] at h
    | some q =>
      simp only [hq] at h
      obtain ⟨i1, i2, i3, i4⟩ := normAxes_some s.length dims q hq
      have he : dims.isEmpty = false := by cases dims <;> simp_all
      rw [← hlen] at i1 i2
      simp only [he, Bool.false_eq_true, if_false, i1, ← i2]
      split at h
      · simp at h
      · next hd =>
        have : (q.length == s.length && q.all (· < s.length) && !hasDup q) = true := by
          simp [i4, hlen, i3, hd]
        simp only [this, if_true]
        exact h

def fneg (d : Int) : Int := if d == -1 then 1 else d

theorem expand_rev (a : List Nat) (t : List Int) (o : List Nat) (h : expand.specRev a t = some o) :
    (t.map fneg).any (· < 0) = false ∧ bcastRev a ((t.map fneg).map Int.toNat) = some o := by
  induction t generalizing a o with
  | nil =>
    cases a with
    | nil => simp [expand.specRev] at h; subst h; simp [bcastRev]
    | cons x xs => simp [expand.specRev] at h
  | cons d ds ih =>
    cases a with
    | nil =>
      simp only [expand.specRev] at h
      split at h
      · simp at h
      · next hd =>
        cases hr : expand.specRev [] ds with
        | none => simp [hr] at h
        | some o' =>
          simp [hr] at h
          obtain ⟨i1, i2⟩ := ih [] o' hr
          have hf : fneg d = d := by unfold fneg; have : ¬ (d == -1) = true := by simp; omega
                                     simp [this]
          have i2' : ((ds.map fneg).map Int.toNat) = o' := by simpa [bcastRev] using i2
          refine ⟨?_, ?_⟩
          · simp only [List.map_cons, List.any_cons, i1, hf, Bool.or_false]; simp; omega
          · simp only [List.map_cons, hf, bcastRev, i2']; rw [← h]
    | cons x xs =>
      simp only [expand.specRev] at h
      split at h
      · next hd =>
        have hd : d = -1 := by simpa using hd
        cases hr : expand.specRev xs ds with
        | none => simp [hr] at h
        | some o' =>
          simp [hr] at h
          obtain ⟨i1, i2⟩ := ih xs o' hr
          have hf : fneg d = 1 := by subst hd; rfl
          refine ⟨?_, ?_⟩
          · simp only [List.map_cons, List.any_cons, i1, hf, Bool.or_false]; decide
          · simp only [List.map_cons, hf]
            show bcastRev (x :: xs) (1 :: _) = _
            unfold bcastRev
            rw [i2, ← h]
            by_cases hx : x = 1 <;> simp [hx]
      · next hd =>
        have hd : d ≠ -1 := by simpa using hd
        have hf : fneg d = d := by unfold fneg; simp [hd]
        split at h
        · simp at h
        · next hneg =>
          split at h
          · next heq =>
            have heq : (x : Int) = d := by simpa using heq
            cases hr : expand.specRev xs ds with
            | none => simp [hr] at h
            | some o' =>
              simp [hr] at h
              obtain ⟨i1, i2⟩ := ih xs o' hr
              refine ⟨?_, ?_⟩
              · simp only [List.map_cons, List.any_cons, i1, hf, Bool.or_false]; simp; omega
              · simp only [List.map_cons, hf]
                have : d.toNat = x := by omega
                rw [this]
                unfold bcastRev
                rw [i2]
                simp [← h]
          · next hne =>
            split at h
            · next h1 =>
              have h1 : x = 1 := by simpa using h1
              cases hr : expand.specRev xs ds with
              | none => simp [hr] at h
              | some o' =>
                simp [hr] at h
                obtain ⟨i1, i2⟩ := ih xs o' hr
                refine ⟨?_, ?_⟩
                · simp only [List.map_cons, List.any_cons, i1, hf, Bool.or_false]; simp; omega
                · simp only [List.map_cons, hf]
                  unfold bcastRev
                  subst h1
                  by_cases hb : 1 = d.toNat
                  · rw [i2]; simp [← hb, ← h]
                  · rw [i2]; simp [hb, ← h]
            · simp at h

theorem expand_agrees (s : Shape) (size : List Int) (out : Shape)
    (h : expand.spec s size = some out) : expand.model s size = some out := by
  unfold expand.spec at h
  unfold expand.model expandOp
  cases hr : expand.specRev s.reverse size.reverse with
  | none => simp [hr] at h
  | some o =>
    simp only [hr, Option.map_some] at h
    obtain ⟨i1, i2⟩ := expand_rev s.reverse size.reverse o hr
    have e1 : (size.map (fun d => if d == -1 then 1 else d)) = size.map fneg := rfl
    have a1 : ((size.map fneg).any (· < 0)) = false := by
      rw [← List.any_reverse, ← List.map_reverse]; exact i1
    have a2 : ((size.map fneg).map Int.toNat).reverse = (size.reverse.map fneg).map Int.toNat := by
      rw [List.map_reverse, List.map_reverse]
    simp only [e1, a1, Bool.false_eq_true, if_false, a2, i2, Option.map_some]
    exact h

theorem broadcast_to_agrees (s : Shape) (size : List Int) (out : Shape)
    (h : broadcast_to.spec s size = some out) : broadcast_to.model s size = some out :=
  expand_agrees s size out h

theorem resolveZeros_true (inp : Shape) (tgt : List Int) (i : Nat) : resolveZeros true inp tgt i = some tgt := by
  induction tgt generalizing i with
  | nil => rfl
  | cons t ts ih => simp [resolveZeros, ih]

theorem knownProd_nonneg (l : List Int) (h : ∀ t ∈ l, -1 ≤ t) :
    0 ≤ knownProd l ∧ (0 < knownProd l → l.contains 0 = false) := by
  induction l with
  | nil => simp [knownProd]
  | cons t ts ih =>
    have ht : -1 ≤ t := h t (by simp)
    obtain ⟨i1, i2⟩ := ih (fun x hx => h x (by simp [hx]))
    unfold knownProd
    by_cases hm : t = -1
    · subst hm
      simp only [beq_self_eq_true, if_true]
      refine ⟨i1, fun hp => ?_⟩
      have := i2 hp
      simp at this
      simp [this]
    · have hb : (t == -1) = false := by simpa using hm
      simp only [hb, Bool.false_eq_true, if_false]
      have ht0 : 0 ≤ t := by omega
      refine ⟨Int.mul_nonneg ht0 i1, fun hp => ?_⟩
      have htp : 0 < t := by
        rcases Int.lt_or_eq_of_le ht0 with h1 | h1
        · exact h1
        · rw [← h1] at hp; simp at hp
      have hkp : 0 < knownProd ts := by
        rcases Int.lt_or_eq_of_le i1 with h1 | h1
        · exact h1
        · rw [← h1] at hp; simp at hp
      have := i2 hkp
      simp at this
      have hne : ¬ (0 = t) := by omega
      simp [this, hne]

theorem view_agrees (s : Shape) (size : List Int) (out : Shape)
    (h : view.spec s size = some out) : view.model s size = some out := by
  unfold view.spec unflatten.inferSize at h
  dsimp only at h
  unfold view.model reshape
  dsimp only
  split at h
  · simp at h
  · next hany =>
    split at h
    · simp at h
    · next hcnt =>
      simp only [hany, hcnt, if_false, resolveZeros_true]
      have hall : ∀ t ∈ size, -1 ≤ t := by
        intro t ht
        have := hany
        simp only [List.any_eq_true, not_exists, not_and, decide_eq_true_eq] at this
        have := this t ht
        omega
      obtain ⟨k1, k2⟩ := knownProd_nonneg size hall
      split at h
      · next h1 =>
        split at h
        · next hk =>
          have hpos : 0 < knownProd size := by omega
          have hc := k2 hpos
          have hk0 : ¬ ((knownProd size).toNat = 0 ∨ numel s % (knownProd size).toNat ≠ 0) := by omega
          simp only [h1, if_true, hc, Bool.and_false, Bool.false_eq_true, if_false, hk0]
          exact h
        · simp at h
      · next h1 =>
        simp only [h1, if_false]
        exact h

theorem bcastRev_ones (a : List Nat) (n : Nat) :
    bcastRev a (List.replicate n 1) = some (a ++ List.replicate (n - a.length) 1) := by
  induction a generalizing n with
  | nil => cases n <;> simp [bcastRev]
  | cons x xs ih =>
    cases n with
    | zero => simp [bcastRev]
    | succ m =>
      simp only [List.replicate_succ, bcastRev, ih m, Option.map_some, List.length_cons, Nat.add_sub_add_right]
      by_cases h1 : x = 1 <;> simp [h1]

theorem repeat_agrees (s : Shape) (reps : List Int) (out : Shape)
    (h : repeat_.spec s reps = some out) : repeat_.model s reps = some out := by
  unfold repeat_.spec at h
  unfold repeat_.model
  split at h
  · simp at h
  · next hc =>
    have hlen : s.length ≤ reps.length := by omega
    have hneg : reps.any (· < 0) = false := by
      cases hh : reps.any (· < 0) with
      | false => rfl
      | true => exact absurd (Or.inr hh) hc
    by_cases he : reps.isEmpty
    · have : reps = [] := by simpa using he
      subst this
      have hs : s = [] := by cases s with | nil => rfl | cons _ _ => simp at hlen
      subst hs
      simpa using h
    · simp only [he, Bool.false_eq_true, if_false, expandOp, List.reverse_replicate, bcastRev_ones, Option.map_some,
        List.reverse_append, List.reverse_reverse, List.length_reverse]
      unfold tileOp
      have hl : (reps.length == (List.replicate (reps.length - s.length) 1 ++ s).length) = true := by
        simp; omega
      simp only [hl, all_nonneg_iff, hneg, Bool.not_false, Bool.and_self, Bool.and_true, if_true] at h ⊢
      exact h

theorem sameExcept_self (a : Nat) (u : Shape) : sameExcept a u u = true := by
  unfold sameExcept
  simp

theorem mapM_replicate_some {α β} (f : α → Option β) (x : α) (y : β) (h : f x = some y) (n : Nat) :
    (List.replicate n x).mapM f = some (List.replicate n y) := by
  induction n with
  | zero => rfl
  | succ m ih => simp [List.replicate_succ, List.mapM_cons, h, ih]

theorem mapM_replicate_none {α β} (f : α → Option β) (x : α) (h : f x = none) (n : Nat) :
    (List.replicate (n + 1) x).mapM f = none := by
  simp [List.replicate_succ, List.mapM_cons, h]

theorem foldl_count (u : Shape) (a : Nat) (n acc : Nat) :
    (List.replicate n u).foldl (fun acc t => acc + t.getD a 0) acc = acc + n * u.getD a 0 := by
  induction n generalizing acc with
  | zero => simp
  | succ m ih => simp only [List.replicate_succ, List.foldl_cons, ih]; rw [Nat.succ_mul]; omega

theorem insertOne_set (s : Shape) (a v : Nat) (ha : a ≤ s.length) :
    setAt (insertOne s a) a v = s.take a ++ [v] ++ s.drop a ∧ (insertOne s a).getD a 0 = 1 := by
  unfold setAt insertOne
  have hl : (s.take a).length = a := by simp; omega
  constructor
  · rw [List.set_append_right _ _ (by omega)]
    simp [hl]
  · simp [List.getD_eq_getElem?_getD, List.getElem?_append_right (Nat.le_of_eq hl), hl]

theorem stack_agrees (s : Shape) (n : Nat) (dim : Int) :
    stack.model (List.replicate (n + 1) s) dim = stack.spec (List.replicate (n + 1) s) dim := by
  unfold stack.model stack.spec
  have hall : (List.replicate n s).all (· == s) = true := by simp
  simp only [List.replicate_succ, hall, if_true, List.length_cons, List.length_replicate]
  cases ha : normAxis (s.length + 1) dim with
  | none =>
    have : unsqueeze1 s dim = none := by simp [unsqueeze1, ha]
    have := mapM_replicate_none (fun t => unsqueeze1 t dim) s this n
    simp only [List.replicate_succ] at this
    simp [this]
  | some a =>
    have hu : unsqueeze1 s dim = some (insertOne s a) := by simp [unsqueeze1, ha]
    have hm := mapM_replicate_some (fun t => unsqueeze1 t dim) s _ hu (n + 1)
    simp only [List.replicate_succ] at hm
    simp only [hm, Option.map_some]
    have hlen : (insertOne s a).length = s.length + 1 := by
      unfold insertOne; simp; omega
    have hale : a ≤ s.length := by
      unfold normAxis at ha
      split at ha
      · injection ha with ha; omega
      · split at ha
        · injection ha with ha; omega
        · simp at ha
    unfold concatOp
    simp only [hlen, ha]
    have hs : (List.replicate n (insertOne s a)).all (sameExcept a (insertOne s a)) = true := by
      simp [sameExcept_self]
    obtain ⟨e1, e2⟩ := insertOne_set s a (n + 1) hale
    have hf := foldl_count (insertOne s a) a (n + 1) 0
    simp only [List.replicate_succ] at hf
    simp only [hs, if_true, hf, e2, Nat.mul_one, Nat.zero_add, e1]

theorem hasDup_false_of_nodup (l : List Nat) (h : l.Nodup) : hasDup l = false := by
  induction l with
  | nil => rfl
  | cons a as ih =>
    rw [List.nodup_cons] at h
    simp [hasDup, h.1, ih h.2]

theorem swapRange_get? (r i j k : Nat) (hi : i < r) (hj : j < r) (hk : k < r) :
    (transpose.swapRange r i j)[k]? = some (if k = j then i else if k = i then j else k) := by
  unfold transpose.swapRange
  simp only [List.getElem?_set, List.length_set, List.length_range, List.getElem?_range hk]
  by_cases e1 : j = k
  · subst e1; simp [hk]
  · have e1' : ¬ k = j := fun e => e1 e.symm
    simp only [e1, e1', if_false]
    by_cases e2 : i = k
    · subst e2; simp [hk]
    · have e2' : ¬ k = i := fun e => e2 e.symm
      simp [e2, e2']

theorem swapRange_getElem (r i j k : Nat) (hi : i < r) (hj : j < r) (hk : k < (transpose.swapRange r i j).length) :
    (transpose.swapRange r i j)[k] = if k = j then i else if k = i then j else k := by
  have hk' : k < r := by simpa [transpose.swapRange] using hk
  have := swapRange_get? r i j k hi hj hk'
  rw [List.getElem?_eq_getElem hk] at this
  exact Option.some.inj this

theorem swapRange_length (r i j : Nat) : (transpose.swapRange r i j).length = r := by
  simp [transpose.swapRange]

theorem swapRange_perm (r i j : Nat) (hi : i < r) (hj : j < r) : isPerm r (transpose.swapRange r i j) = true := by
  unfold isPerm
  have hlen := swapRange_length r i j
  have hall : (transpose.swapRange r i j).all (· < r) = true := by
    rw [List.all_eq_true]
    intro x hx
    obtain ⟨k, hk, rfl⟩ := List.getElem_of_mem hx
    rw [swapRange_getElem r i j k hi hj hk]
    have : k < r := by omega
    simp only [decide_eq_true_eq]
    (repeat' split) <;> omega
  let σ : Nat → Nat := fun k => if k = i then j else if k = j then i else k
  have hmap : (transpose.swapRange r i j).map σ = List.range r := by
    apply List.ext_getElem
    · simp [hlen]
    · intro k h1 h2
      simp only [List.getElem_map, List.getElem_range]
      rw [swapRange_getElem r i j k hi hj (by simpa using h1)]
      show (if _ = i then j else if _ = j then i else _) = k
      (repeat' split) <;> omega
  have hnd : (transpose.swapRange r i j).Nodup := by
    have hr : (List.map σ (transpose.swapRange r i j)).Nodup := by rw [hmap]; exact List.nodup_range
    exact List.Pairwise.of_map σ (fun a b hab e => hab (congrArg σ e)) hr
  simp [hlen, hall, hasDup_false_of_nodup _ hnd]

theorem transpose_agrees (s : Shape) (d0 d1 : Int) (hr : s.length ≠ 0) :
    transpose.model s d0 d1 = transpose.spec s d0 d1 := by
  unfold transpose.model transpose.spec torchDim transposeOp
  simp only [hr, if_false]
  cases h0 : normAxis s.length d0 with
  | none => simp
  | some i =>
    cases h1 : normAxis s.length d1 with
    | none => simp
    | some j =>
      have hi : i < s.length := by
        unfold normAxis at h0; split at h0
        · injection h0 with h0; omega
        · split at h0
          · injection h0 with h0; omega
          · simp at h0
      have hj : j < s.length := by
        unfold normAxis at h1; split at h1
        · injection h1 with h1; omega
        · split at h1
          · injection h1 with h1; omega
          · simp at h1
      simp only [swapRange_perm s.length i j hi hj, if_true, Option.some.injEq]
      apply List.ext_getElem
      · simp [swapRange_length]
      · intro k h1' h2'
        have hk : k < s.length := by simpa [swapRange_length] using h1'
        simp only [List.getElem_map, List.getElem_set]
        rw [swapRange_getElem s.length i j k hi hj (by simpa using h1')]
        simp only [List.getD_eq_getElem?_getD]
        by_cases e1 : k = j
        · subst e1; simp [List.getElem?_eq_getElem hi]
        · have : ¬ j = k := fun e => e1 e.symm
          simp only [e1, this, if_false]
          by_cases e2 : k = i
          · subst e2; simp [List.getElem?_eq_getElem hj]
          · have : ¬ i = k := fun e => e2 e.symm
            simp [e2, this, List.getElem?_eq_getElem hk]


section attr
open OV.C08.attr
theorem pyMul_one (l : List Int) : pyMul l 1 = l := by simp [pyMul]
theorem pyMul_two (l : List Int) : pyMul l 2 = l ++ l := by simp [pyMul]
theorem pyMul_singleton (v : Int) (k : Nat) : pyMul [v] k = List.replicate k v := by
  induction k with
  | zero => rfl
  | succ n ih => simp [pyMul, ih, List.replicate_succ]

theorem avg_pads_layout (k : Nat) (ks st : IntOrList) (p : List Int) (hp : p.length = k) (hk : 1 ≤ k) :
    (avgPool k ks st (.list p)).2.2 = p ++ p := by
  unfold avgPool
  simp only
  by_cases h1 : p.length = 1
  · have : k = 1 := by omega
    subst this
    simp only [h1, if_true, pyMul_one, pyMul_two]
  · by_cases h2 : p.length = 2
    · have : k = 2 := by omega
      subst this
      simp [h2, pyMul_two]
    · simp only [h1, h2, if_false, pyMul_two]

theorem avg_pads_scalar (k : Nat) (ks st : IntOrList) (v : Int) :
    (avgPool k ks st (.int v)).2.2 = List.replicate k v ++ List.replicate k v
    ∧ (avgPool k ks st (.list [v])).2.2 = List.replicate k v ++ List.replicate k v := by
  unfold avgPool
  simp [pyMul_singleton, pyMul_two]

theorem max_pads_layout (k : Nat) (ks st dil : IntOrList) (p : List Int) (hp : p.length = k) (hk : 1 ≤ k) (hk3 : k ≤ 3) :
    (maxPool k ks st (.list p) dil).2.2.1 = p ++ p := by
  unfold maxPool
  simp only
  by_cases h1 : p.length = 1
  · have : k = 1 := by omega
    subst this
    simp only [h1, if_true, pyMul_one, pyMul_two]
  · by_cases h2 : p.length = 2
    · simp [h2, pyMul_two]
    · have h3 : p.length = 3 := by omega
      simp [h3, pyMul_two]

theorem max_pads_scalar (k : Nat) (ks st dil : IntOrList) (v : Int) :
    (maxPool k ks st (.int v) dil).2.2.1 = List.replicate k v ++ List.replicate k v
    ∧ (maxPool k ks st (.list [v]) dil).2.2.1 = List.replicate k v ++ List.replicate k v := by
  unfold maxPool
  simp [pyMul_singleton, pyMul_two]

theorem axis_pads (p : List Int) (i : Nat) (hi : i < p.length) :
    getI (p ++ p) i = getI p i ∧ getI (p ++ p) (i + p.length) = getI p i := by
  unfold getI
  constructor
  · simp [List.getD_eq_getElem?_getD, List.getElem?_append_left hi]
  · simp [List.getD_eq_getElem?_getD, List.getElem?_append_right (Nat.le_add_left _ _)]

theorem pool_out_agrees (ceil : Bool) (n k s p d : Int) : poolOut ceil n k s p p d = torchPoolOut ceil n k s p d := by
  unfold poolOut torchPoolOut
  have : n + p + p = n + 2 * p := by omega
  rw [this]

theorem conv_out_agrees (n k s p d : Int) : convOut n k s p p d = torchConvOut n k s p d := by
  unfold convOut torchConvOut
  have : n + p + p = n + 2 * p := by omega
  rw [this]

theorem convT_out_agrees (n k s p d op : Int) : convTOut n k s p p d op = torchConvTOut n k s p d op := by
  unfold convTOut torchConvTOut
  have h1 : s * (n - 1) = (n - 1) * s := Int.mul_comm _ _
  have h2 : (k - 1) * d = d * (k - 1) := Int.mul_comm _ _
  rw [h1, h2]; omega

theorem conv_pads_layout (imageD : Nat) (st dil : IntOrList) (p : List Int) (hp : p.length = imageD) (h2 : 2 ≤ imageD) :
    (convolution imageD st (.list p) dil).2.1 = p ++ p := by
  unfold convolution
  have : ¬ p.length = 1 := by omega
  simp [this]

theorem conv_pads_scalar (imageD : Nat) (st dil : IntOrList) (v : Int) :
    (convolution imageD st (.int v) dil).2.1 = List.replicate imageD v ++ List.replicate imageD v
    ∧ (convolution imageD st (.list [v]) dil).2.1 = List.replicate imageD v ++ List.replicate imageD v := by
  unfold convolution
  simp

def flatR (ps : List (Int × Int)) : List Int := ps.flatMap (fun p => [p.2, p.1])

theorem flat_reverse (ps : List (Int × Int)) : (flatPairs ps).reverse = flatR ps.reverse := by
  induction ps with
  | nil => rfl
  | cons p ps ih =>
    simp only [flatPairs, flatR, List.flatMap_cons, List.reverse_append, List.reverse_cons, List.flatMap_append,
      List.flatMap_nil, List.reverse_nil, List.nil_append, List.append_nil] at ih ⊢
    rw [ih]
    simp

theorem everyOther_flatR (qs : List (Int × Int)) :
    everyOther (flatR qs) false = qs.map Prod.snd ∧ everyOther (flatR qs) true = qs.map Prod.fst := by
  induction qs with
  | nil => exact ⟨rfl, rfl⟩
  | cons q qs ih =>
    simp only [flatR, List.flatMap_cons, List.cons_append, List.nil_append, everyOther, List.map_cons] at ih ⊢
    exact ⟨by rw [ih.1], by rw [ih.2]⟩

theorem flat_zeros (n : Nat) : flatPairs (List.replicate n (0, 0)) = List.replicate (2 * n) 0 := by
  induction n with
  | zero => rfl
  | succ n ih =>
    simp only [flatPairs, List.replicate_succ, List.flatMap_cons] at ih ⊢
    rw [ih]
    have : 2 * (n + 1) = (2 * n + 1) + 1 := by omega
    rw [this, List.replicate_succ, List.replicate_succ]
    rfl

theorem flat_length (ps : List (Int × Int)) : (flatPairs ps).length = 2 * ps.length := by
  induction ps with
  | nil => rfl
  | cons p ps ih => simp only [flatPairs, List.flatMap_cons, List.length_append, List.length_cons, List.length_nil] at ih ⊢; omega

/-- `aten_constant_pad_nd` / `_process_padding`, every rank and every (even-length) pad tuple:
with `ps` the `(begin, end)` pairs in PyTorch's order (last axis first) and `m ≤ rank` of them, the ONNX
`pads` is: begins of all axes in axis order (zeros for the unpadded leading axes), then ends in axis order. -/
theorem pad_layout (rank : Nat) (ps : List (Int × Int)) (hm : ps.length ≤ rank) :
    padLayout rank (flatPairs ps)
      = (List.replicate (rank - ps.length) 0 ++ ps.reverse.map Prod.fst)
        ++ (List.replicate (rank - ps.length) 0 ++ ps.reverse.map Prod.snd) := by
  unfold padLayout
  have hz : List.replicate (2 * rank - (flatPairs ps).length) (0 : Int) = flatPairs (List.replicate (rank - ps.length) (0, 0)) := by
    rw [flat_zeros, flat_length]; congr 1; omega
  have happ : flatPairs ps ++ flatPairs (List.replicate (rank - ps.length) (0, 0)) = flatPairs (ps ++ List.replicate (rank - ps.length) (0, 0)) := by
    simp [flatPairs, List.flatMap_append]
  simp only [hz, happ, flat_reverse]
  obtain ⟨e1, e2⟩ := everyOther_flatR (ps ++ List.replicate (rank - ps.length) (0, 0)).reverse
  rw [e1, e2]
  simp [List.reverse_append, List.map_append]

theorem ceil_eq_floor_succ (x s : Int) (hs : 0 < s) : ceilDivPos x s = (x - 1) / s + 1 := by
  unfold ceilDivPos
  have : x + s - 1 = (x - 1) + 1 * s := by omega
  rw [this, Int.add_mul_ediv_right _ _ (by omega)]

theorem unfold_windows_agree (d size step : Int) (hs : 0 < step) (h : size ≤ d) :
    (unfold_.windows d size step : Int) = unfold_.specWindows d size step := by
  unfold unfold_.windows unfold_.specWindows rangeLen
  simp only [hs, if_true, gt_iff_lt]
  have e : d - (size - 1) - 0 = d - size + 1 := by omega
  rw [e, ceil_eq_floor_succ _ _ hs]
  have e2 : d - size + 1 - 1 = d - size := by omega
  rw [e2]
  have : 0 ≤ (d - size) / step := Int.ediv_nonneg (by omega) (by omega)
  omega

theorem im2col_blocks_agree (n k s p d : Int) (hs : 0 < s) (h : 1 ≤ n + 2 * p - d * (k - 1)) :
    (im2col.blocksModel n k s p d : Int) = attr.torchConvOut n k s p d := by
  unfold im2col.blocksModel attr.torchConvOut rangeLen
  simp only [hs, if_true, gt_iff_lt]
  have e : n + (2 * p - d * (k - 1)) - 0 = n + 2 * p - d * (k - 1) := by omega
  rw [e, ceil_eq_floor_succ _ _ hs]
  have : 0 ≤ (n + 2 * p - d * (k - 1) - 1) / s := Int.ediv_nonneg (by omega) (by omega)
  omega

theorem col2im_pads_layout (p : List Int) (h : p.length = 2) : col2im.pads p = p ++ p := by
  unfold col2im.pads
  simp [h, pyMul]

theorem col2im_pads_scalar (w : Int) : col2im.pads [w] = [w, w, w, w] := by
  simp [col2im.pads, pyMul]

end attr

theorem specSizes_zero (c : Nat) : split.specSizes 0 c = some [0] := by
  unfold split.specSizes
  by_cases hc : c = 0
  · simp [hc]
  · have h1 : (c - 1) / c = 0 := by
      apply Nat.div_eq_of_lt; omega
    simp [hc, h1]

theorem split_agrees (s : Shape) (size dim : Int) (out : List Shape)
    (h : split.spec s size dim = some out) : split.model s size dim = some out := by
  unfold split.spec at h
  unfold split.model
  split at h
  · simp at h
  · next hneg =>
    by_cases hr : s.length = 0
    · simp [hr] at h
    · simp only [hr, if_false] at h
      cases ha : normAxis s.length dim with
      | none => simp [ha] at h
      | some a =>
        simp only [ha] at h ⊢
        by_cases hd : s.getD a 0 = 0
        · simp only [hd, if_true]
          rw [hd, specSizes_zero] at h
          simp only [Option.map_some, List.map_cons, List.map_nil] at h
          have := setAt_getD_self s a
          rw [hd] at this
          rw [this] at h
          exact h
        · simp only [hd, hneg, if_false]
          by_cases hc : size.toNat = 0
          · exfalso
            simp only [split.specSizes, hc, if_true, hd, if_false, Option.map_none] at h
            exact absurd h (by simp)
          · rw [split_sizes _ _ (by omega) (by omega)]
            exact h

theorem flip_norm (d : Int) (hd0 : 0 < d) (hd : d < INT64_MAX) :
    (sliceNorm d (-1) INT64_MIN (-1)).1 = d - 1 := by
  unfold sliceNorm clampI INT64_MIN INT64_MAX at *
  simp only [show ¬ ((-1:Int) > 0) from by decide, show ((-1:Int) < 0) from by decide, if_true, if_false]
  simp only [Int.min_def, Int.max_def]
  (repeat' split) <;> omega

theorem flip_idx (d : Nat) (hd : (d : Int) < INT64_MAX) : flip.modelIdx d = flip.specIdx d := by
  unfold flip.modelIdx flip.specIdx sliceIdx
  have hlen : sliceLen d (-1) INT64_MIN (-1) = d := by
    have := flip_len d (by omega) hd
    omega
  apply List.ext_getElem
  · simp [hlen]
  · intro i h1 h2
    have hi : i < d := by simpa [hlen] using h1
    simp only [List.getElem_map, List.getElem_range, List.getElem_reverse, List.length_range]
    rw [flip_norm d (by omega) hd]
    omega

theorem sliceNorm_pos (d a b : Int) (hd : 0 ≤ d) (ha0 : 0 ≤ a) (ha : a ≤ d) (hb : d ≤ b) :
    sliceNorm d a b 1 = (a, d) := by
  unfold sliceNorm clampI
  simp only [show (1:Int) > 0 from by decide, if_true, Int.min_def, Int.max_def]
  have h1 : ¬ a < 0 := by omega
  have h2 : ¬ b < 0 := by omega
  simp only [h1, h2, if_false]
  refine Prod.ext ?_ ?_ <;> simp only <;> (repeat' split) <;> omega

theorem sliceNorm_pos' (d b : Int) (hd : 0 ≤ d) (hb0 : 0 ≤ b) (hb : b ≤ d) :
    sliceNorm d 0 b 1 = (0, b) := by
  unfold sliceNorm clampI
  simp only [show (1:Int) > 0 from by decide, if_true, Int.min_def, Int.max_def]
  have h2 : ¬ b < 0 := by omega
  simp only [h2, if_false, show ¬ ((0:Int) < 0) from by decide]
  refine Prod.ext ?_ ?_ <;> simp only <;> (repeat' split) <;> omega

theorem sliceLen_of_norm (d a b s e : Int) (h : sliceNorm d a b 1 = (s, e)) (hse : s ≤ e) :
    sliceLen d a b 1 = (e - s).toNat := by
  unfold sliceLen
  simp only [h, show (1:Int) > 0 from by decide, if_true]
  congr 1
  omega

theorem emod_shift (d i shift : Int) (hd : 0 < d) (hi0 : 0 ≤ i) (hi : i < d) :
    (i - shift) % d = if i < shift % d then d - shift % d + i else i - shift % d := by
  have hq := Int.mul_ediv_add_emod shift d
  have h1 := Int.emod_nonneg shift (show d ≠ 0 by omega)
  have h2 := Int.emod_lt_of_pos shift hd
  have e : i - shift = (i - shift % d) - d * (shift / d) := by omega
  rw [e, Int.sub_mul_emod_self_left]
  split
  · next hlt =>
    have : (i - shift % d) % d = (i - shift % d + d) % d := by rw [Int.add_emod_right]
    rw [this, Int.emod_eq_of_lt (by omega) (by omega)]
    omega
  · next hge =>
    rw [Int.emod_eq_of_lt (by omega) (by omega)]

theorem roll_idx (d big : Nat) (shift : Int) (hd : 0 < d) (hbig : d ≤ big) :
    roll.stepIdx d big (roll.redShift d shift) = roll.specIdx d shift := by
  unfold roll.redShift
  simp only [hd, if_true, gt_iff_lt]
  have h1 := Int.emod_nonneg shift (show (d : Int) ≠ 0 by omega)
  have h2 := Int.emod_lt_of_pos shift (show (0 : Int) < d by omega)
  generalize hr : shift % (d : Int) = r at *
  unfold roll.stepIdx roll.specIdx sliceIdx
  have hneg : ¬ r < 0 := by omega
  simp only [hneg, if_false]
  have n1 := sliceNorm_pos d ((d:Int) - r) big (by omega) (by omega) (by omega) (by omega)
  have n2 := sliceNorm_pos' d ((d:Int) - r) (by omega) (by omega) (by omega)
  have l1 := sliceLen_of_norm _ _ _ _ _ n1 (by omega)
  have l2 := sliceLen_of_norm _ _ _ _ _ n2 (by omega)
  rw [l1, l2, n1, n2]
  apply List.ext_getElem
  · simp; omega
  · intro i hi1 hi2
    have hi : i < d := by simpa using hi2
    simp only [List.getElem_map, List.getElem_range]
    have hm := emod_shift d i shift (by omega) (by omega) (by omega)
    rw [hr] at hm
    rw [hm]
    by_cases hlt : (i : Int) < r
    · have hlt' : i < ((d:Int) - ((d:Int) - r)).toNat := by omega
      rw [List.getElem_append_left (by simpa using hlt')]
      simp only [List.getElem_map, List.getElem_range, hlt, if_true]
      omega
    · have hge : ((d:Int) - ((d:Int) - r)).toNat ≤ i := by omega
      rw [List.getElem_append_right (by simpa using hge)]
      simp only [List.getElem_map, List.getElem_range, hlt, if_false, List.length_map, List.length_range]
      omega

theorem knownProd_ofNat (l : List Nat) : knownProd (l.map (Int.ofNat ·)) = (numel l : Int) := by
  induction l with
  | nil => rfl
  | cons x xs ih =>
    have hx : ((Int.ofNat x) == -1) = false := by
      have : Int.ofNat x ≠ -1 := by simp
      simpa using this
    simp only [List.map_cons, knownProd, hx, Bool.false_eq_true, if_false, ih, numel]
    simp

theorem knownProd_ones (k : Nat) (x : List Int) : knownProd (List.replicate k 1 ++ x) = knownProd x := by
  induction k with
  | zero => simp
  | succ n ih =>
    simp only [List.replicate_succ, List.cons_append, knownProd, ih]
    simp

theorem no_neg1_ofNat (l : List Nat) (k : Nat) :
    (List.replicate k (1 : Int) ++ l.map (Int.ofNat ·)).any (· < -1) = false
    ∧ countNeg1 (List.replicate k (1 : Int) ++ l.map (Int.ofNat ·)) = 0 := by
  constructor
  · rw [List.any_eq_false]
    intro x hx
    simp only [List.mem_append, List.mem_replicate, List.mem_map] at hx
    rcases hx with ⟨_, rfl⟩ | ⟨a, _, rfl⟩ <;> simp <;> omega
  · unfold countNeg1
    rw [List.length_eq_zero_iff, List.filter_eq_nil_iff]
    intro x hx
    simp only [List.mem_append, List.mem_replicate, List.mem_map] at hx
    rcases hx with ⟨_, rfl⟩ | ⟨a, _, rfl⟩ <;> simp <;> omega

theorem reshape_pad_ones (s : Shape) (k : Nat) :
    reshape true s (List.replicate k (1 : Int) ++ s.map (Int.ofNat ·)) = some (List.replicate k 1 ++ s) := by
  unfold reshape
  obtain ⟨h1, h2⟩ := no_neg1_ofNat s k
  simp only [h1, h2, Bool.false_eq_true, if_false, resolveZeros_true, Nat.lt_irrefl, gt_iff_lt, Nat.not_lt_zero]
  have hk : knownProd (List.replicate k 1 ++ s.map (Int.ofNat ·)) = (numel s : Int) := by
    rw [knownProd_ones, knownProd_ofNat]
  simp only [hk, Int.toNat_natCast, if_true, Option.some.injEq, List.map_append, List.map_replicate, List.map_map]
  simp
  have : (Int.toNat ∘ fun (x : Nat) => (x : Int)) = id := by funext x; simp
  rw [this, List.map_id]

theorem tile_agrees_full (s : Shape) (dims : List Int) : tile.model s dims = tile.spec s dims := by
  by_cases h : dims.length ≤ s.length
  · exact tile_agrees s dims h
  · have hlt : s.length < dims.length := by omega
    have hgt : ¬ s.length > dims.length := by omega
    unfold tile.model tile.spec
    simp only [hgt, hlt, if_true, if_false, reshape_pad_ones]
    unfold tileOp
    have hz : s.length - dims.length = 0 := by omega
    have hl : ((dims.length == (List.replicate (dims.length - s.length) 1 ++ s).length)) = true := by simp; omega
    simp only [hz, List.replicate_zero, List.nil_append, hl, all_nonneg_iff, Bool.true_and]
    cases hd : dims.any (· < 0) <;> simp

theorem reshape_flat (s : Shape) : reshape false s [-1] = some [numel s] := by
  unfold reshape
  simp [countNeg1, resolveZeros, knownProd, Nat.mod_one]

theorem knownProd_replicate_one (r : Nat) : knownProd (List.replicate r 1) = 1 := by
  induction r with
  | zero => rfl
  | succ n ih => simp [List.replicate_succ, knownProd, ih]

theorem resolveZeros_ones (az : Bool) (inp : Shape) (r i : Nat) :
    resolveZeros az inp (List.replicate r 1) i = some (List.replicate r 1) := by
  induction r generalizing i with
  | zero => rfl
  | succ n ih => simp [List.replicate_succ, resolveZeros, ih]

theorem reshape_ones (r : Nat) : reshape false [1] (List.replicate r 1) = some (List.replicate r 1) := by
  unfold reshape
  have h1 : (List.replicate r (1:Int)).any (· < -1) = false := by
    rw [List.any_eq_false]; intro x hx; simp [List.mem_replicate] at hx; simp [hx.2]
  have h2 : countNeg1 (List.replicate r (1:Int)) = 0 := by
    unfold countNeg1
    rw [List.length_eq_zero_iff, List.filter_eq_nil_iff]
    intro x hx; simp [List.mem_replicate] at hx; simp [hx.2]
  simp only [h1, h2, Bool.false_eq_true, if_false, resolveZeros_ones, knownProd_replicate_one, gt_iff_lt, Nat.not_lt_zero]
  simp [numel]

theorem argmax_agrees (s : Shape) (dim : Option Int) (keep : Bool) :
    argmax.model s dim keep = argmax.spec s dim keep := by
  unfold argmax.model argmax.spec
  cases dim with
  | none =>
    simp only [reshape_flat]
    by_cases hn : numel s = 0
    · simp [argOp, normAxis, hn]
    · have hn' : (numel s == 0) = false := by simpa using hn
      by_cases hr : s.length = 0
      · have : s = [] := List.length_eq_zero_iff.mp hr
        subst this
        cases keep <;> simp [argOp, normAxis, numel, setAt, removeIdxs, squeezeAll]
      · cases keep
        · simp [argOp, normAxis, hn, hn', hr, removeIdxs]
        · simp [argOp, normAxis, hn, hn', hr, setAt, reshape_ones]
  | some d =>
    by_cases hr : s.length = 0
    · have : s = [] := List.length_eq_zero_iff.mp hr
      subst this
      simp only [List.length_nil, if_true, reshape_flat, torchDim, numel]
      unfold argOp
      cases hd : normAxis 1 d with
      | none => simp [hd]
      | some a =>
        have ha : a = 0 := by
          unfold normAxis at hd
          split at hd
          · injection hd with hd; omega
          · split at hd
            · injection hd with hd; omega
            · simp at hd
        subst ha
        cases keep <;> simp [hd, setAt, removeIdxs, squeezeAll]
    · simp only [hr, if_false, torchDim]
      unfold argOp
      cases hd : normAxis s.length d with
      | none => simp
      | some a =>
        simp only []
        by_cases hz : s.getD a 0 = 0
        · simp [hz]
        · have : (s.getD a 0 == 0) = false := by simpa using hz
          simp [this, hz]

/-- ceil facts: for c > 0, d > 0, n = (d + c - 1) / c:  1 ≤ n, (n-1)*c < d ≤ n*c -/
theorem ceil_facts (d c : Nat) (hc : 0 < c) (hd : 0 < d) :
    1 ≤ (d + c - 1) / c ∧ ((d + c - 1) / c - 1) * c < d ∧ d ≤ (d + c - 1) / c * c := by
  have h1 := Nat.mul_div_le (d + c - 1) c
  have h2 := Nat.lt_mul_div_succ (d + c - 1) hc
  generalize (d + c - 1) / c = n at *
  have hn : 1 ≤ n := by
    rcases Nat.eq_zero_or_pos n with h | h
    · subst h; simp at h2; omega
    · exact h
  rw [Nat.mul_comm] at h1
  rw [Nat.mul_add, Nat.mul_one, Nat.mul_comm] at h2
  refine ⟨hn, ?_, by omega⟩
  have : (n - 1) * c + c = n * c := by
    have : n = (n - 1) + 1 := by omega
    conv => rhs; rw [this, Nat.add_mul, Nat.one_mul]
  omega

theorem bounds_sizes (d chunks : Nat) (hch : 0 < chunks) :
    (chunk.bounds d chunks).map (fun b => b.2 - b.1) = chunk.specSizes d chunks
    ∧ ∀ b ∈ chunk.bounds d chunks, b.1 ≤ b.2 ∧ b.2 ≤ d := by
  unfold chunk.bounds chunk.specSizes
  by_cases hc0 : (d + chunks - 1) / chunks = 0
  · simp only [hc0, if_true]
    constructor
    · simp
    · intro b hb; simp [List.mem_replicate] at hb; rw [hb.2]; simp
  · simp only [hc0, if_false]
    generalize hcdef : (d + chunks - 1) / chunks = c at *
    have hc : 0 < c := by omega
    have hd : 0 < d := by
      rcases Nat.eq_zero_or_pos d with h | h
      · subst h
        have : (0 + chunks - 1) / chunks = 0 := Nat.div_eq_of_lt (by omega)
        omega
      · exact h
    obtain ⟨hn1, hlo, hhi⟩ := ceil_facts d c hc hd
    generalize hndef : (d + c - 1) / c = n at *
    have hmax : max n 1 = n := by omega
    rw [hmax]
    constructor
    · apply List.ext_getElem
      · simp; omega
      · intro k h1 h2
        have hk : k < n := by simpa using h1
        simp only [List.getElem_map, List.getElem_range]
        by_cases hlast : k < n - 1
        · rw [List.getElem_append_left (by simpa using hlast)]
          simp only [List.getElem_replicate]
          have : (k + 1) * c ≤ (n - 1) * c := Nat.mul_le_mul_right c (by omega)
          rw [Nat.add_mul, Nat.one_mul] at this
          have hmin : min (k * c + c) d = k * c + c := by omega
          rw [hmin]; omega
        · have hkn : k = n - 1 := by omega
          rw [List.getElem_append_right (by simp; omega)]
          simp only [List.length_replicate, hkn, Nat.sub_self, List.getElem_cons_zero]
          have : (n - 1) * c + c = n * c := by
            have : n = (n - 1) + 1 := by omega
            conv => rhs; rw [this, Nat.add_mul, Nat.one_mul]
          have hmin : min ((n - 1) * c + c) d = d := by omega
          rw [hmin]
    · intro b hb
      simp only [List.mem_map, List.mem_range] at hb
      obtain ⟨k, hk, rfl⟩ := hb
      simp only
      have : (k + 1) * c ≤ n * c := Nat.mul_le_mul_right c (by omega)
      have hkc : k * c ≤ (n - 1) * c := Nat.mul_le_mul_right c (by omega)
      constructor <;> omega

theorem mapM_some_of_forall {α β} (f : α → Option β) (g : α → β) (l : List α) (h : ∀ x ∈ l, f x = some (g x)) :
    l.mapM f = some (l.map g) := by
  induction l with
  | nil => rfl
  | cons x xs ih =>
    rw [List.mapM_cons, h x (by simp), ih (fun y hy => h y (by simp [hy]))]
    rfl

theorem sliceOp_bounds (s : Shape) (dim : Int) (a b1 b2 : Nat) (ha : normAxis s.length dim = some a)
    (h1 : b1 ≤ b2) (h2 : b2 ≤ s.getD a 0) :
    sliceOp s dim (b1 : Int) (b2 : Int) 1 = some (setAt s a (b2 - b1)) := by
  unfold sliceOp
  simp only [show ((1:Int) == 0) = false from by decide, Bool.false_eq_true, if_false, ha]
  have hn : sliceNorm (s.getD a 0 : Nat) (b1 : Int) (b2 : Int) 1 = ((b1 : Int), (b2 : Int)) := by
    unfold sliceNorm clampI
    simp only [show (1:Int) > 0 from by decide, if_true, Int.min_def, Int.max_def]
    have e1 : ¬ (b1 : Int) < 0 := by omega
    have e2 : ¬ (b2 : Int) < 0 := by omega
    simp only [e1, e2, if_false]
    refine Prod.ext ?_ ?_ <;> simp only <;> (repeat' split) <;> omega
  have := sliceLen_of_norm _ _ _ _ _ hn (by omega)
  rw [this]
  congr 2
  omega

theorem specSizes_one (d : Nat) : chunk.specSizes d 1 = [d] := by
  unfold chunk.specSizes
  by_cases hd : d = 0
  · subst hd; simp
  · have h1 : (d + 1 - 1) / 1 = d := by simp
    have h2 : (d + d - 1) / d = 1 := by
      apply Nat.div_eq_of_lt_le <;> omega
    simp [h1, hd, h2]

theorem chunk_agrees (s : Shape) (chunks : Nat) (dim : Int) (out : List Shape)
    (h : chunk.spec s chunks dim = some out) : chunk.model s chunks dim = some out := by
  unfold chunk.spec at h
  unfold chunk.model
  split at h
  · simp at h
  · next hch =>
    by_cases hr : s.length = 0
    · simp [hr] at h
    · simp only [hr, if_false] at h
      cases ha : normAxis s.length dim with
      | none => simp [ha] at h
      | some a =>
        simp only [ha, Option.some.injEq] at h
        by_cases h1 : chunks = 1
        · subst h1
          rw [specSizes_one] at h
          simp only [List.map_cons, List.map_nil, setAt_getD_self] at h
          simp [h]
        · simp only [h1, if_false]
          have hch0 : 0 < chunks := by omega
          obtain ⟨bs, bb⟩ := bounds_sizes (s.getD a 0) chunks hch0
          by_cases hus : chunk.useSlices (s.getD a 0) chunks = true
          · simp only [hus, if_true]
            rw [mapM_some_of_forall _ (fun b => setAt s a (b.2 - b.1)) _
              (fun b hb => sliceOp_bounds s dim a b.1 b.2 ha (bb b hb).1 (bb b hb).2)]
            rw [← h, ← bs, List.map_map]
            rfl
          · simp only [hus, Bool.false_eq_true, if_false]
            -- Split(num_outputs) branch: the bounds count equals `chunks` and the axis is non-empty
            unfold chunk.useSlices at hus
            simp only [Bool.or_eq_true, bne_iff_ne, ne_eq, beq_iff_eq, not_or, Decidable.not_not] at hus
            obtain ⟨hlen, hd0⟩ := hus
            have hd : 0 < s.getD a 0 := by omega
            generalize hdd : s.getD a 0 = d at *
            unfold chunk.bounds at hlen
            unfold splitNumOutputs chunk.specSizes at *
            generalize hcdef : (d + chunks - 1) / chunks = c at *
            by_cases hc0 : c = 0
            · exfalso
              have h1' := Nat.lt_mul_div_succ (d + chunks - 1) hch0
              rw [hcdef, hc0] at h1'
              omega
            · simp only [hc0, if_false, List.length_map, List.length_range] at hlen
              obtain ⟨hn1, hlo, hhi⟩ := ceil_facts d c (by omega) hd
              rw [hlen] at hn1 hlo hhi
              have hcpos : 1 ≤ c := by omega
              have hle : (chunks - 1) * 1 ≤ (chunks - 1) * c := Nat.mul_le_mul_left _ hcpos
              have hcd : ¬ (chunks = 0 ∨ chunks > d) := by omega
              simp only [hcd, if_false, hlo, if_true, Option.map_some]
              rw [← h]
              simp only [hc0, if_false, hlen]
              have : max chunks 1 = chunks := by omega
              rw [this]

def markOnes (s : Shape) (ax : List Nat) : Shape := s.zipIdx.map (fun p => if ax.contains p.2 then 1 else p.1)

theorem markOnes_length (s : Shape) (ax : List Nat) : (markOnes s ax).length = s.length := by
  simp [markOnes]

theorem markOnes_getElem (s : Shape) (ax : List Nat) (i : Nat) (h : i < (markOnes s ax).length) :
    (markOnes s ax)[i] = if ax.contains i then 1 else s[i]'(by simpa [markOnes] using h) := by
  simp [markOnes, List.getElem_zipIdx]

theorem fold_set_markOnes (ax : List Nat) (acc : Shape) :
    ax.foldl (fun acc a => acc.set a 1) acc = markOnes acc ax := by
  induction ax generalizing acc with
  | nil =>
    apply List.ext_getElem
    · simp [markOnes]
    · intro i h1 h2; simp [markOnes, List.getElem_zipIdx]
  | cons a rest ih =>
    simp only [List.foldl_cons]
    rw [ih]
    apply List.ext_getElem
    · simp [markOnes]
    · intro i h1 h2
      rw [markOnes_getElem, markOnes_getElem]
      simp only [List.getElem_set, List.contains_cons]
      by_cases hr : rest.contains i = true
      · have hm : i ∈ rest := by simpa using hr
        simp [hr, hm]
      · have hr' : rest.contains i = false := by simpa using hr
        simp only [hr', Bool.or_false, Bool.false_eq_true, if_false]
        by_cases e : a = i
        · subst e; simp
        · have : (i == a) = false := by simpa using (fun h => e h.symm)
          simp [e, this]

theorem reduceOp_single (acc : Shape) (d : Int) (a : Nat) (h : normAxis acc.length d = some a) :
    reduceOp acc [d] true = some (acc.set a 1) := by
  unfold reduceOp normAxes
  simp only [List.mapM_cons, List.mapM_nil, h]
  simp only [bind, Option.bind, pure, List.isEmpty_cons, Bool.false_eq_true, if_false, if_true, Option.some.injEq]
  have := fold_set_markOnes [a] acc
  simp only [List.foldl_cons, List.foldl_nil] at this
  rw [this]; rfl

theorem fold_reduce (s : Shape) (ds : List Int) (ax : List Nat) (hr : s.length ≠ 0)
    (h : ds.mapM (normAxis s.length) = some ax) :
    ds.foldlM (fun acc d => reduceDyn acc [d] true) s = some (markOnes s ax) := by
  have key : ∀ (ds : List Int) (ax : List Nat) (acc : Shape), acc.length = s.length →
      ds.mapM (normAxis s.length) = some ax →
      ds.foldlM (fun acc d => reduceDyn acc [d] true) acc = some (ax.foldl (fun acc a => acc.set a 1) acc) := by
    intro ds
    induction ds with
    | nil => intro ax acc _ h; simp at h; subst h; rfl
    | cons d ds ih =>
      intro ax acc hl h
      rw [List.mapM_cons] at h
      cases ha : normAxis s.length d with
      | none => simp [ha] at h
      | some a =>
        cases hm : ds.mapM (normAxis s.length) with
        | none => simp [ha, hm] at h
        | some ax' =>
          simp [ha, hm] at h
          subst h
          have hacc : acc.length ≠ 0 := by omega
          simp only [List.foldlM_cons, reduceDyn, hacc, if_false]
          rw [reduceOp_single acc d a (by rw [hl]; exact ha)]
          simp only [bind, Option.bind, List.foldl_cons]
          exact ih ax' (acc.set a 1) (by simp [hl]) hm
  rw [key ds ax s rfl h, fold_set_markOnes]

theorem removeAux (ax : List Nat) (r s : List Nat) (n : Nat) (hl : r.length = s.length)
    (h : ∀ i (h1 : i < r.length) (h2 : i < s.length), ax.contains (n + i) = false → r[i] = s[i]) :
    ((r.zipIdx n).filter (fun p => !ax.contains p.2)).map (·.1)
      = ((s.zipIdx n).filter (fun p => !ax.contains p.2)).map (·.1) := by
  induction r generalizing s n with
  | nil =>
    have : s = [] := List.length_eq_zero_iff.mp hl.symm
    subst this; rfl
  | cons x xs ih =>
    cases s with
    | nil => simp at hl
    | cons y ys =>
      simp only [List.zipIdx_cons, List.filter_cons]
      have hl' : xs.length = ys.length := by simpa using hl
      have ih' := ih ys (n + 1) hl' (by
        intro i h1 h2 hc
        have := h (i + 1) (by simp; omega) (by simp; omega) (by rw [← hc]; congr 1; omega)
        simpa using this)
      by_cases hc : ax.contains n = true
      · simp only [hc, Bool.not_true, Bool.false_eq_true, if_false]
        exact ih'
      · have hc' : ax.contains n = false := by simpa using hc
        have hxy : x = y := by
          have := h 0 (by simp) (by simp) (by simpa using hc')
          simpa using this
        simp only [hc', Bool.not_false, if_true, List.map_cons, hxy]
        rw [ih']

theorem removeIdxs_congr (ax : List Nat) (r s : Shape) (hl : r.length = s.length)
    (h : ∀ i (h1 : i < r.length) (h2 : i < s.length), ax.contains i = false → r[i] = s[i]) :
    removeIdxs r ax = removeIdxs s ax := by
  unfold removeIdxs
  exact removeAux ax r s 0 hl (by intro i h1 h2 hc; exact h i h1 h2 (by simpa using hc))

theorem all_dims_agrees (s : Shape) (ds : List Int) (keep : Bool) (out : Shape)
    (hr : s.length ≠ 0) (hne : ds ≠ [])
    (h : torchReduce s ds keep = some out) : all_dims.model s (some ds) keep = some out := by
  unfold torchReduce at h
  have e : ds.mapM (torchDim s.length) = ds.mapM (normAxis s.length) := by
    have : (fun d => torchDim s.length d) = normAxis s.length := by
      funext d; unfold torchDim; simp only [hr, if_false]
    show ds.mapM (fun d => torchDim s.length d) = _
    rw [this]
  rw [e] at h
  cases hm : ds.mapM (normAxis s.length) with
  | none => simp [hm] at h
  | some ax =>
    simp only [hm] at h
    split at h
    · simp at h
    · next hdup =>
      have hax : ax ≠ [] := by
        intro hh; subst hh
        cases ds with
        | nil => exact hne rfl
        | cons d ds' =>
          rw [List.mapM_cons] at hm
          cases h1 : normAxis s.length d <;> cases h2 : ds'.mapM (normAxis s.length) <;> simp [h1, h2] at hm
      have haxe : ax.isEmpty = false := by cases ax <;> simp_all
      simp only [haxe, Bool.false_eq_true, if_false] at h
      unfold all_dims.model
      cases ds with
      | nil => exact absurd rfl hne
      | cons d ds' =>
        simp only [fold_reduce s (d :: ds') ax hr hm]
        cases keep
        · simp only [Bool.false_eq_true, if_false, hr, or_self] at h ⊢
          unfold squeezeOp normAxes
          rw [markOnes_length, hm]
          have hall : ax.all (fun a => (markOnes s ax).getD a 0 == 1) = true := by
            rw [List.all_eq_true]
            intro a ha
            have hc : ax.contains a = true := by simpa using ha
            by_cases hlt : a < (markOnes s ax).length
            · simp [List.getD_eq_getElem?_getD, List.getElem?_eq_getElem hlt, markOnes_getElem, hc]
              intro hn; exact absurd ha hn
            · -- normalised axes are in range
              exfalso
              have : a < s.length := by
                have hmem := ha
                clear h
                -- every element of ax comes from normAxis
                have aux : ∀ (l : List Int) (q : List Nat), l.mapM (normAxis s.length) = some q → ∀ x ∈ q, x < s.length := by
                  intro l
                  induction l with
                  | nil => intro q hq x hx; simp at hq; subst hq; simp at hx
                  | cons t ts ih =>
                    intro q hq x hx
                    rw [List.mapM_cons] at hq
                    cases h1 : normAxis s.length t with
                    | none => simp [h1] at hq
                    | some k =>
                      cases h2 : ts.mapM (normAxis s.length) with
                      | none => simp [h1, h2] at hq
                      | some q' =>
                        simp [h1, h2] at hq
                        subst hq
                        rcases List.mem_cons.mp hx with rfl | hx'
                        · exact (normAxis_some s.length t _ h1).2.2
                        · exact ih q' h2 x hx'
                exact aux _ _ hm a hmem
              rw [markOnes_length] at hlt
              exact hlt this
          simp only [hall, if_true]
          rw [← h]
          congr 1
          apply removeIdxs_congr
          · exact markOnes_length s ax
          · intro i h1 h2 hc
            rw [markOnes_getElem]
            have hn : ¬ i ∈ ax := by simpa using hc
            simp [hn]
        · simp only [if_true, true_or] at h ⊢
          exact h

theorem knownProd_append (x y : List Int) : knownProd (x ++ y) = knownProd x * knownProd y := by
  induction x with
  | nil => simp [knownProd]
  | cons t ts ih =>
    simp only [List.cons_append, knownProd]
    split
    · exact ih
    · rw [ih, Int.mul_assoc]

theorem foldl_mul (l : List Int) (acc : Int) : l.foldl (· * ·) acc = acc * l.foldl (· * ·) 1 := by
  induction l generalizing acc with
  | nil => simp
  | cons t ts ih => simp only [List.foldl_cons]; rw [ih, ih (1 * t)]; simp [Int.mul_assoc]

theorem foldl_filter_eq_knownProd (l : List Int) : (l.filter (· != -1)).foldl (· * ·) 1 = knownProd l := by
  induction l with
  | nil => rfl
  | cons t ts ih =>
    by_cases h : t = -1
    · subst h; simp [knownProd, ih]
    · have hb : (t != -1) = true := by simpa using h
      have hb2 : (t == -1) = false := by simpa using h
      simp only [List.filter_cons, hb, if_true, List.foldl_cons, knownProd, hb2, Bool.false_eq_true, if_false]
      rw [foldl_mul, ih]; simp

theorem numel_split (s : Shape) (a : Nat) (h : a < s.length) :
    numel s = numel (s.take a) * (s.getD a 0 * numel (s.drop (a + 1))) := by
  induction s generalizing a with
  | nil => simp at h
  | cons x xs ih =>
    cases a with
    | zero => simp [numel]
    | succ n =>
      have := ih n (by simpa using h)
      simp only [List.take_succ_cons, List.drop_succ_cons, List.getD_cons_succ, numel, this]
      rw [Nat.mul_assoc]

theorem sliceShape_head (s : Shape) (a : Nat) (h : a ≤ s.length) : sliceShape s 0 a = s.take a := by
  unfold sliceShape
  have := sliceNorm_pos' (s.length : Int) a (by omega) (by omega) (by omega)
  simp [this]

theorem sliceShape_tail (s : Shape) (a : Nat) (h : a < s.length) (hmax : (s.length : Int) ≤ INT64_MAX) :
    sliceShape s ((a : Int) + 1) INT64_MAX = s.drop (a + 1) := by
  unfold sliceShape
  have := sliceNorm_pos (s.length : Int) ((a : Int) + 1) INT64_MAX (by omega) (by omega) (by omega) hmax
  simp only [this]
  have e1 : ((a : Int) + 1).toNat = a + 1 := by omega
  rw [e1]
  apply List.take_of_length_le
  simp; omega

def repl (q : Int) (z : Int) : Int := if z == -1 then q else z

theorem count_zero_map (q : Int) (l : List Int) (h : countNeg1 l = 0) : l.map (repl q) = l := by
  induction l with
  | nil => rfl
  | cons t ts ih =>
    unfold countNeg1 at h ih
    by_cases ht : t = -1
    · subst ht; simp at h
    · have hb : (t == -1) = false := by simpa using ht
      simp only [List.filter_cons, hb, Bool.false_eq_true, if_false] at h
      simp only [List.map_cons, repl, hb, Bool.false_eq_true, if_false, ih h]

theorem count_cons (t : Int) (ts : List Int) :
    countNeg1 (t :: ts) = (if t = -1 then 1 else 0) + countNeg1 ts := by
  unfold countNeg1
  by_cases ht : t = -1
  · subst ht; simp; omega
  · have hb : (t == -1) = false := by simpa using ht
    simp [List.filter_cons, hb, ht]

theorem knownProd_map_replace (q : Int) (hq : q ≠ -1) (l : List Int) (hc : countNeg1 l = 1) :
    knownProd (l.map (repl q)) = q * knownProd l ∧ countNeg1 (l.map (repl q)) = 0 := by
  induction l with
  | nil => simp [countNeg1] at hc
  | cons t ts ih =>
    rw [count_cons] at hc
    by_cases ht : t = -1
    · subst ht
      have hc0 : countNeg1 ts = 0 := by simpa using hc
      have hq' : (q == -1) = false := by simpa using hq
      simp only [List.map_cons, count_zero_map q ts hc0, repl, beq_self_eq_true, if_true, knownProd, hq',
        Bool.false_eq_true, if_false]
      refine ⟨trivial, ?_⟩
      rw [count_cons]; simp [hq, hc0]
    · have hb : (t == -1) = false := by simpa using ht
      have hc1 : countNeg1 ts = 1 := by simpa [ht] using hc
      obtain ⟨i1, i2⟩ := ih hc1
      simp only [List.map_cons, repl, hb, Bool.false_eq_true, if_false, knownProd]
      refine ⟨?_, ?_⟩
      · show t * knownProd (ts.map (repl q)) = _
        rw [i1, ← Int.mul_assoc, Int.mul_comm t q, Int.mul_assoc]
      · rw [count_cons]; simp [ht]; exact i2

theorem contains_iff_count (l : List Int) : l.contains (-1) = true ↔ countNeg1 l ≠ 0 := by
  induction l with
  | nil => simp [countNeg1]
  | cons t ts ih =>
    rw [count_cons]
    by_cases ht : t = -1
    · subst ht; simp
    · have : ¬ (-1 : Int) = t := fun e => ht e.symm
      have ih' : (-1 : Int) ∈ ts ↔ ¬ countNeg1 ts = 0 := by simpa using ih
      simp [List.contains_cons, ht, this, ih']

theorem resolve_spec (s : Shape) (a : Nat) (sizes : List Int) (mid : Shape)
    (hinf : unflatten.inferSize (s.getD a 0) sizes = some mid) :
    let sz := unflatten.resolveNeg1 s (a : Int) sizes
    sz.any (· < -1) = false ∧ countNeg1 sz = 0 ∧ knownProd sz = ((s.getD a 0 : Nat) : Int) ∧ sz.map Int.toNat = mid := by
  generalize hd : s.getD a 0 = d at *
  unfold unflatten.inferSize at hinf
  dsimp only at hinf
  split at hinf
  · simp at hinf
  · next hany =>
    have hany' : sizes.any (· < -1) = false := by simpa using hany
    split at hinf
    · simp at hinf
    · next hcnt =>
      have hall : ∀ t ∈ sizes, -1 ≤ t := by
        intro t ht
        have := hany
        simp only [List.any_eq_true, not_exists, not_and, decide_eq_true_eq] at this
        have := this t ht; omega
      obtain ⟨kn, _⟩ := knownProd_nonneg sizes hall
      unfold unflatten.resolveNeg1
      have hto : ((a : Int)).toNat = a := by simp
      simp only [hto, hd, foldl_filter_eq_knownProd]
      split at hinf
      · next h1 =>
        -- exactly one -1
        have hcont : sizes.contains (-1) = true := (contains_iff_count sizes).mpr (by omega)
        split at hinf
        · next hk =>
          have hkpos : 0 < knownProd sizes := by omega
          simp only [hcont, if_true, hkpos, gt_iff_lt]
          have hkn : knownProd sizes = ((knownProd sizes).toNat : Int) := by omega
          generalize hkk : (knownProd sizes).toNat = k at *
          have hq : ((d : Int) / knownProd sizes) = ((d / k : Nat) : Int) := by rw [hkn]; simp
          have hdk : d / k * k = d := Nat.div_mul_cancel (Nat.dvd_of_mod_eq_zero hk.2)
          generalize hqn : d / k = qn at *
          have hqne : ((qn : Nat) : Int) ≠ -1 := by omega
          have hmap : sizes.map (fun z => if z == -1 then (d : Int) / knownProd sizes else z) = sizes.map (repl ((qn : Nat) : Int)) := by
            rw [hq]; rfl
          rw [hmap]
          obtain ⟨p1, p2⟩ := knownProd_map_replace _ hqne sizes h1
          refine ⟨?_, p2, ?_, ?_⟩
          · rw [List.any_eq_false]
            intro x hx
            simp only [List.mem_map] at hx
            obtain ⟨t, ht, rfl⟩ := hx
            have := hall t ht
            unfold repl
            split <;> simp <;> omega
          · rw [p1, hkn]
            rw [← Int.natCast_mul, hdk]
          · injection hinf with hinf
            rw [← hinf, List.map_map]
            apply List.map_congr_left
            intro t ht
            simp only [Function.comp, repl]
            split <;> simp
        · simp at hinf
      · next h1 =>
        have hc0 : countNeg1 sizes = 0 := by omega
        have hcont : sizes.contains (-1) = false := by
          cases hh : sizes.contains (-1) with
          | false => rfl
          | true => exact absurd hc0 ((contains_iff_count sizes).mp hh)
        simp only [hcont, Bool.false_eq_true, if_false]
        split at hinf
        · next hk =>
          injection hinf with hinf
          refine ⟨hany', hc0, by omega, hinf⟩
        · simp at hinf

theorem reshape_exact (s : Shape) (tgt : List Int) (h1 : tgt.any (· < -1) = false) (h2 : countNeg1 tgt = 0)
    (h3 : knownProd tgt = (numel s : Int)) : reshape true s tgt = some (tgt.map Int.toNat) := by
  unfold reshape
  simp only [h1, h2, Bool.false_eq_true, if_false, resolveZeros_true, gt_iff_lt, Nat.not_lt_zero, Nat.lt_irrefl]
  simp [h3]

theorem any_append_false (x y : List Int) (p : Int → Bool) (hx : x.any p = false) (hy : y.any p = false) :
    (x ++ y).any p = false := by simp [List.any_append, hx, hy]

theorem ofNat_list_facts (l : List Nat) :
    (l.map (Int.ofNat ·)).any (· < -1) = false ∧ countNeg1 (l.map (Int.ofNat ·)) = 0 := by
  have := no_neg1_ofNat l 0
  simpa using this

theorem countNeg1_append (x y : List Int) : countNeg1 (x ++ y) = countNeg1 x + countNeg1 y := by
  simp [countNeg1, List.filter_append]

theorem unflatten_agrees (s : Shape) (dim : Int) (sizes : List Int) (out : Shape)
    (hmax : (s.length : Int) ≤ INT64_MAX)
    (h : unflatten.spec s dim sizes = some out) : unflatten.model s dim sizes = some out := by
  unfold unflatten.spec at h
  split at h
  · simp at h
  · by_cases hr : s.length = 0
    · simp [hr] at h
    · simp only [hr, if_false] at h
      cases ha : normAxis s.length dim with
      | none => simp [ha] at h
      | some a =>
        simp only [ha] at h
        cases hinf : unflatten.inferSize (s.getD a 0) sizes with
        | none => rw [hinf] at h; simp at h
        | some mid =>
          rw [hinf] at h
          simp only [Option.some.injEq] at h
          obtain ⟨hnn, hav, halt⟩ := normAxis_some s.length dim a ha
          have hdim : (if dim < 0 then (s.length : Int) + dim else dim) = (a : Int) := by
            split
            · next hneg => simp only [hneg, if_true] at hav; omega
            · next hneg => simp only [hneg, if_false] at hav; omega
          obtain ⟨r1, r2, r3, r4⟩ := resolve_spec s a sizes mid hinf
          unfold unflatten.model
          simp only [hdim]
          rw [sliceShape_head s a (by omega), sliceShape_tail s a halt hmax]
          -- the three trace-time cases build the same target
          have htgt : (if (a : Int) = 0 then unflatten.resolveNeg1 s a sizes ++ (s.drop (a + 1)).map (Int.ofNat ·)
              else if (a : Int) = (s.length : Int) - 1 then (s.take a).map (Int.ofNat ·) ++ unflatten.resolveNeg1 s a sizes
              else (s.take a).map (Int.ofNat ·) ++ unflatten.resolveNeg1 s a sizes ++ (s.drop (a + 1)).map (Int.ofNat ·))
              = (s.take a).map (Int.ofNat ·) ++ unflatten.resolveNeg1 s a sizes ++ (s.drop (a + 1)).map (Int.ofNat ·) := by
            split
            · next h0 =>
              have : a = 0 := by omega
              subst this; simp
            · split
              · next h1 =>
                have : s.drop (a + 1) = [] := by apply List.drop_of_length_le; omega
                simp [this]
              · rfl
          rw [htgt]
          obtain ⟨f1, f2⟩ := ofNat_list_facts (s.take a)
          obtain ⟨g1, g2⟩ := ofNat_list_facts (s.drop (a + 1))
          rw [reshape_exact]
          · simp only [List.map_append, List.map_map, r4]
            have hid : (Int.toNat ∘ fun (x : Nat) => Int.ofNat x) = id := by funext x; simp
            rw [hid, List.map_id, List.map_id, ← h]
          · exact any_append_false _ _ _ (any_append_false _ _ _ f1 r1) g1
          · rw [countNeg1_append, countNeg1_append, f2, r2, g2]
          · rw [knownProd_append, knownProd_append, knownProd_ofNat, knownProd_ofNat, r3, numel_split s a halt]
            simp [Int.mul_assoc]

theorem reshape_1m (a : Nat) : reshape false [a] [1, -1] = some [1, a] := by
  simp [reshape, countNeg1, resolveZeros, knownProd, numel, Nat.mod_one]
theorem reshape_1m1 (a : Nat) : reshape false [a] [1, -1, 1] = some [1, a, 1] := by
  simp [reshape, countNeg1, resolveZeros, knownProd, numel, Nat.mod_one]

theorem atleast_agrees (n : Nat) (s : Shape) (hn : n = 1 ∨ n = 2 ∨ n = 3) : atleast.model n s = atleast.spec n s := by
  rcases hn with rfl | rfl | rfl
  · cases s with
    | nil => decide
    | cons a t => rfl
  · match s with
    | [] => decide
    | [a] => show reshape false [a] [1, -1] = some [1, a]; exact reshape_1m a
    | a :: b :: t => rfl
  · match s with
    | [] => decide
    | [a] => show reshape false [a] [1, -1, 1] = some [1, a, 1]; exact reshape_1m1 a
    | [a, b] => show unsqueeze1 [a, b] (-1) = some [a, b, 1]; simp [unsqueeze1, normAxis, insertOne]
    | a :: b :: c :: t => rfl

theorem gather_agrees (s idx : Shape) (dim : Int) (out : Shape)
    (h : gather.spec s idx dim = some out) : gather.model s idx dim = some out := by
  unfold gather.spec at h
  unfold gather.model
  cases ha : torchDim s.length dim with
  | none => simp [ha] at h
  | some a =>
    simp only [ha] at h
    by_cases hr : s.length = 0
    · simp only [hr, if_true] at h ⊢
      split at h
      · next hl =>
        injection h with h; subst h
        have hs : s = [] := List.length_eq_zero_iff.mp hr
        subst hs
        by_cases h0 : idx.length = 0
        · have : idx = [] := List.length_eq_zero_iff.mp h0
          subst this; simp
        · simp [h0, expandOp, bcastRev]
      · simp at h
    · simp only [hr, if_false] at h ⊢
      have hn : normAxis s.length dim = some a := by
        unfold torchDim at ha; simpa [hr] using ha
      simp only [hn]
      by_cases h0 : idx.length = 0
      · have hi : idx = [] := List.length_eq_zero_iff.mp h0
        subst hi
        simp only [List.length_nil, if_true, List.length_cons] at h ⊢
        by_cases hl : (0 + 1 : Nat) ≠ s.length
        · simp [hl] at h
        · simp only [hl, if_false] at h ⊢
          split at h
          · exact h
          · simp at h
      · simp only [h0, if_false] at h ⊢
        by_cases hl : idx.length ≠ s.length
        · simp [hl] at h
        · simp only [hl, if_false] at h ⊢
          split at h
          · exact h
          · simp at h

theorem slice_agrees (s : Shape) (dim : Int) (start stop step : Option Int) (out : Shape)
    (h : slice.spec s dim start stop step = some out) : slice.model s dim start stop step = some out := by
  unfold slice.spec at h
  unfold slice.model sliceOp
  split at h
  · simp at h
  · next hst =>
    have hpos : 0 < optI step 1 := by omega
    have hne : (optI step 1 == 0) = false := by
      have : optI step 1 ≠ 0 := by omega
      simpa using this
    simp only [hne, Bool.false_eq_true, if_false]
    by_cases hr : s.length = 0
    · simp [hr] at h
    · simp only [hr, if_false] at h
      cases ha : normAxis s.length dim with
      | none => simp [ha] at h
      | some a =>
        simp only [ha, Option.some.injEq] at h ⊢
        rw [← h]
        congr 1
        have := slice_len (s.getD a 0 : Nat) start stop step (by omega) hpos
        omega

theorem slice_scatter_agrees (s src : Shape) (dim : Int) (start stop : Option Int) (step : Int) (out : Shape)
    (h : slice_scatter.spec s src dim start stop step = some out) :
    slice_scatter.model s src dim start stop step = some out := by
  unfold slice_scatter.spec at h
  unfold slice_scatter.model
  cases hs : slice.spec s dim start stop (some step) with
  | none => simp [hs] at h
  | some t =>
    simp only [hs] at h
    rw [slice_agrees s dim start stop (some step) t hs]
    have hr : s.length ≠ 0 := by
      intro h0
      unfold slice.spec at hs
      split at hs
      · simp at hs
      · simp [h0] at hs
    split at h
    · next ht => simp only [ht, hr, ne_eq, not_false_eq_true, and_self, if_true]; exact h
    · simp at h

theorem topk_agrees (s : Shape) (k dim : Int) (hr : s.length ≠ 0) : topk.model s k dim = topk.spec s k dim := by
  unfold topk.model topk.spec
  simp [hr]

theorem numel_append (x y : Shape) : numel (x ++ y) = numel x * numel y := by
  induction x with
  | nil => simp [numel]
  | cons a t ih => simp [numel, ih, Nat.mul_assoc]

theorem numel_singleton (a : Nat) : numel [a] = a := by simp [numel]

/-- the static target is a correct factorisation of the input -/
theorem static_numel (s : Shape) (a b : Nat) (hab : a ≤ b) :
    numel (s.take a ++ [numel ((s.take b).drop a)] ++ s.drop b) = numel s := by
  have hs : s = s.take a ++ ((s.take b).drop a ++ s.drop b) := by
    have h1 : s.take a ++ (s.take b).drop a = s.take b := by
      have : s.take a = (s.take b).take a := by rw [List.take_take]; congr 1; omega
      rw [this, List.take_append_drop]
    rw [← List.append_assoc, h1, List.take_append_drop]
  conv => rhs; rw [hs]
  simp only [numel_append, numel_singleton, Nat.mul_assoc]

theorem reshape_static (s tgt : Shape) (h : numel tgt = numel s) :
    reshape true s (tgt.map (Int.ofNat ·)) = some tgt := by
  obtain ⟨f1, f2⟩ := ofNat_list_facts tgt
  rw [reshape_exact s _ f1 f2 (by rw [knownProd_ofNat, h])]
  simp only [List.map_map]
  have hid : (Int.toNat ∘ fun (x : Nat) => Int.ofNat x) = id := by funext x; simp
  rw [hid, List.map_id]

theorem pyBound_valid (r : Nat) (d : Int) (a : Nat) (h : normAxis r d = some a) : flatten.pyBound r d = a := by
  obtain ⟨_, h2, h3⟩ := normAxis_some r d a h
  unfold flatten.pyBound
  split
  · next hneg => simp only [hneg, if_true] at h2; omega
  · next hneg => simp only [hneg, if_false] at h2; omega

theorem flatten_general (s : Shape) (a b : Nat) (ha : a ≤ b) (hb : b < s.length) :
    reshape true s ((s.take a ++ [numel ((s.take (b + 1)).drop a)] ++ s.drop (b + 1)).map (Int.ofNat ·))
      = some (s.take a ++ [numel ((s.drop a).take (b - a + 1))] ++ s.drop (b + 1)) := by
  rw [reshape_static s _ (static_numel s a (b + 1) (by omega))]
  have : (s.take (b + 1)).drop a = (s.drop a).take (b - a + 1) := by
    rw [List.drop_take]; congr 1; omega
  rw [this]

theorem normAxis_val (r : Nat) (d : Int) (a : Nat) (h : normAxis r d = some a) :
    ((a : Int) = if d < 0 then d + (r : Int) else d) ∧ a < r := by
  obtain ⟨h1, h2, h3⟩ := normAxis_some r d a h
  refine ⟨?_, h3⟩
  split
  · next hneg => simp only [hneg, if_true] at h1 h2; omega
  · next hneg => simp only [hneg, if_false] at h1 h2; omega

theorem flatten_rank1 (x : Nat) (sd ed : Int) : flatten.model [x] sd ed = some [x] := by
  unfold flatten.model; simp

theorem flatten_branchA (s : Shape) (ed : Int) (hr : 2 ≤ s.length) (he : ed = -1 ∨ ed = (s.length : Int) - 1) :
    flatten.model s 1 ed = some (s.take 1 ++ [numel ((s.drop 1).take (s.length - 1 - 1 + 1))] ++ s.drop (s.length - 1 + 1)) := by
  unfold flatten.model
  have h1 : ¬ (s.length : Int) = 1 := by omega
  simp only [h1, if_false, true_and, he, if_true]
  unfold flattenOp
  have hc : -(s.length : Int) ≤ 1 ∧ (1 : Int) ≤ s.length := by omega
  simp only [hc, and_self, if_true, show ¬ ((1 : Int) < 0) from by decide, if_false, show (1 : Int).toNat = 1 from rfl]
  match s, hr with
  | x :: y :: t, _ =>
    have e1 : (x :: y :: t).length - 1 - 1 + 1 = (y :: t).length := by simp
    have e2 : (x :: y :: t).length - 1 + 1 = (x :: y :: t).length := by simp
    rw [e1, e2, List.drop_length]
    simp [numel]

theorem drop_last_numel (s : Shape) (hr : 1 ≤ s.length) : [numel (s.drop (s.length - 1))] = s.drop (s.length - 1) := by
  have hl : (s.drop (s.length - 1)).length = 1 := by simp; omega
  match hx : s.drop (s.length - 1), hl with
  | [z], _ => simp [numel]

theorem flatten_branchB (s : Shape) (ed : Int) (hr : 2 ≤ s.length) (he : ed = -2 ∨ ed = (s.length : Int) - 2) :
    flatten.model s 0 ed = some ([numel (s.take (s.length - 2 - 0 + 1))] ++ s.drop (s.length - 2 + 1)) := by
  unfold flatten.model
  have h1 : ¬ (s.length : Int) = 1 := by omega
  have hA : ¬ ((0 : Int) = 1 ∧ (ed = -1 ∨ ed = (s.length : Int) - 1)) := by omega
  simp only [h1, if_false, hA, true_and, he, if_true]
  unfold flattenOp
  have hax : (if ed + 1 < 0 then ed + 1 + (s.length : Int) else ed + 1).toNat = s.length - 1 := by
    rcases he with e | e <;> (subst e; split <;> omega)
  have hc : -(s.length : Int) ≤ ed + 1 ∧ ed + 1 ≤ (s.length : Int) := by
    rcases he with e | e <;> (subst e; omega)
  simp only [hc, and_self, if_true, hax]
  have e2 : s.length - 2 - 0 + 1 = s.length - 1 := by omega
  have e3 : s.length - 2 + 1 = s.length - 1 := by omega
  rw [e2, e3]
  have := drop_last_numel s (by omega)
  simp only [List.singleton_append]
  rw [← this]
  simp [numel]

theorem flatten_agrees (s : Shape) (sd ed : Int) (out : Shape)
    (h : flatten.spec s sd ed = some out) : flatten.model s sd ed = some out := by
  unfold flatten.spec at h
  cases ha : torchDim s.length sd with
  | none => simp [ha] at h
  | some a =>
    cases hb : torchDim s.length ed with
    | none => simp [ha, hb] at h
    | some b =>
      simp only [ha, hb] at h
      split at h
      · simp at h
      · next hab =>
        have hab : a ≤ b := by omega
        by_cases hr : s.length = 0
        · have hs : s = [] := List.length_eq_zero_iff.mp hr
          subst hs
          simp only [List.length_nil, if_true] at h
          have ha' : normAxis 1 sd = some a := by unfold torchDim at ha; simpa using ha
          have hb' : normAxis 1 ed = some b := by unfold torchDim at hb; simpa using hb
          obtain ⟨va, la⟩ := normAxis_val 1 sd a ha'
          obtain ⟨vb, lb⟩ := normAxis_val 1 ed b hb'
          have hsd : sd = 0 ∨ sd = -1 := by split at va <;> omega
          have hed : ed = 0 ∨ ed = -1 := by split at vb <;> omega
          rw [← h]
          rcases hsd with rfl | rfl <;> rcases hed with rfl | rfl <;> decide
        · simp only [hr, if_false] at h
          have han : normAxis s.length sd = some a := by unfold torchDim at ha; simpa [hr] using ha
          have hbn : normAxis s.length ed = some b := by unfold torchDim at hb; simpa [hr] using hb
          obtain ⟨va, halt⟩ := normAxis_val s.length sd a han
          obtain ⟨vb, hblt⟩ := normAxis_val s.length ed b hbn
          by_cases h1 : s.length = 1
          · match s, h1 with
            | [x], _ =>
              have ha0 : a = 0 := by simp at halt; omega
              have hb0 : b = 0 := by simp at hblt; omega
              rw [ha0, hb0] at h
              simp [numel] at h
              rw [flatten_rank1, ← h]
          · by_cases hA : sd = 1 ∧ (ed = -1 ∨ ed = (s.length : Int) - 1)
            · obtain ⟨h1', h2'⟩ := hA
              have ha1 : a = 1 := by rw [h1'] at va; simp at va; omega
              have hb1 : b = s.length - 1 := by rcases h2' with e | e <;> (rw [e] at vb; split at vb <;> omega)
              rw [h1', flatten_branchA s ed (by omega) h2', ← h, ha1, hb1]
            · by_cases hB : sd = 0 ∧ (ed = -2 ∨ ed = (s.length : Int) - 2)
              · obtain ⟨h1', h2'⟩ := hB
                have hr2 : 2 ≤ s.length := by rcases h2' with e | e <;> (rw [e] at vb; split at vb <;> omega)
                have ha0 : a = 0 := by rw [h1'] at va; simp at va; omega
                have hb0 : b = s.length - 2 := by rcases h2' with e | e <;> (rw [e] at vb; split at vb <;> omega)
                rw [h1', flatten_branchB s ed hr2 h2', ← h, ha0, hb0]
                simp
              · unfold flatten.model
                have h1i : ¬ (s.length : Int) = 1 := by omega
                simp only [h1i, hA, hB, if_false]
                have hed' : (if ed < 0 then (s.length : Int) + ed else ed) = (b : Int) := by
                  split at vb <;> (split <;> omega)
                simp only [hed']
                unfold flatten.staticTarget
                dsimp only
                rw [pyBound_valid s.length sd a han]
                have hb1 : flatten.pyBound s.length ((b : Int) + 1) = b + 1 := by
                  unfold flatten.pyBound
                  have : ¬ ((b : Int) + 1 < 0) := by omega
                  simp only [this, if_false]
                  omega
                rw [hb1, flatten_general s a b hab hblt, ← h]

theorem removeSingleAux (s : Shape) (a n : Nat) :
    ((s.zipIdx n).filter (fun p => ![a + n].contains p.2)).map (·.1) = s.take a ++ s.drop (a + 1) := by
  induction s generalizing a n with
  | nil => simp
  | cons x xs ih =>
    simp only [List.zipIdx_cons, List.filter_cons]
    cases a with
    | zero =>
      have hc : [0 + n].contains n = true := by simp
      simp only [hc, Bool.not_true, Bool.false_eq_true, if_false, List.take_zero, List.nil_append, List.drop_succ_cons, List.drop_zero]
      -- remaining indices are all ≠ n
      have : ∀ (l : List Nat) (m : Nat), n < m → ((l.zipIdx m).filter (fun p => ![0 + n].contains p.2)).map (·.1) = l := by
        intro l
        induction l with
        | nil => intro m _; simp
        | cons y ys ihy =>
          intro m hm
          have hne : [0 + n].contains m = false := by simp; omega
          simp only [List.zipIdx_cons, List.filter_cons, hne, Bool.not_false, if_true, List.map_cons]
          rw [ihy (m + 1) (by omega)]
      exact this xs (n + 1) (by omega)
    | succ k =>
      have hc : [k + 1 + n].contains n = false := by simp
      simp only [hc, Bool.not_false, if_true, List.map_cons, List.take_succ_cons, List.cons_append, List.drop_succ_cons]
      have := ih k (n + 1)
      have e : k + (n + 1) = k + 1 + n := by omega
      rw [e] at this
      rw [this]

theorem removeIdxs_single (s : Shape) (a : Nat) : removeIdxs s [a] = s.take a ++ s.drop (a + 1) := by
  unfold removeIdxs
  have := removeSingleAux s a 0
  simpa using this

theorem select_agrees (s : Shape) (dim index : Int) (hr : s.length ≠ 0) :
    select.model s dim index = select.spec s dim index := by
  unfold select.model select.spec gatherScalar
  simp only [hr, if_false]
  cases normAxis s.length dim with
  | none => rfl
  | some a => simp only [removeIdxs_single]

theorem pyIndex_of_normAxis (s : Shape) (dim : Int) (a : Nat) (h : normAxis s.length dim = some a) :
    squeeze_dim.pyIndex s dim = some (s.getD a 0) := by
  obtain ⟨h1, h2, h3⟩ := normAxis_some _ _ _ h
  unfold squeeze_dim.pyIndex
  by_cases hneg : dim < 0
  · simp only [hneg, if_true] at h1 h2
    have c1 : ¬ (0 ≤ dim ∧ dim < (s.length : Int)) := by omega
    have c2 : -(s.length : Int) ≤ dim ∧ dim < 0 := by omega
    simp only [c1, c2, if_false, if_true, and_self]
    rw [h2]
  · simp only [hneg, if_false] at h1 h2
    have c1 : 0 ≤ dim ∧ dim < (s.length : Int) := by omega
    simp only [c1, and_self, if_true]
    rw [h2]

/-- after fix 3fa9486: no hypothesis on the size of the axis. -/
theorem squeeze_dim_agrees (s : Shape) (dim : Int) (out : Shape)
    (h : squeeze_dim.spec s dim = some out) : squeeze_dim.model s dim = some out := by
  unfold squeeze_dim.spec at h
  unfold squeeze_dim.model
  cases ha : torchDim s.length dim with
  | none => rw [ha] at h; cases h
  | some a =>
    rw [ha] at h
    simp only at h
    by_cases hr : s.length = 0
    · simp only [hr, if_true] at h ⊢; exact h
    · have han : normAxis s.length dim = some a := by unfold torchDim at ha; simpa [hr] using ha
      simp only [hr, if_false, pyIndex_of_normAxis s dim a han] at h ⊢
      by_cases h1 : s.getD a 0 = 1
      · simp only [h1, if_true, ne_eq, not_true_eq_false, if_false] at h ⊢
        rw [← h]
        unfold squeezeOp normAxes
        have h1'' : s[a]?.getD 0 = 1 := by simpa [List.getD_eq_getElem?_getD] using h1
        simp [han, h1'']
      · simp only [h1, if_false, ne_eq, not_false_eq_true, if_true] at h ⊢
        exact h

theorem index_select_agrees (s : Shape) (dim : Int) (n : Nat) (out : Shape)
    (h : index_select.spec s dim n = some out) : index_select.model s dim n = some out := by
  unfold index_select.spec at h
  unfold index_select.model
  cases ha : torchDim s.length dim with
  | none => simp [ha] at h
  | some a =>
    simp only [ha] at h
    by_cases hr : s.length = 0
    · have hs : s = [] := List.length_eq_zero_iff.mp hr
      subst hs
      simp only [List.length_nil, if_true] at h ⊢
      split at h
      · next hn =>
        subst hn
        injection h with h; subst h
        have ha' : normAxis 1 dim = some a := by unfold torchDim at ha; simpa using ha
        have : a = 0 := by
          obtain ⟨_, _, h3⟩ := normAxis_some 1 dim a ha'
          omega
        subst this
        simp [reshape_flat, numel, gatherVec, ha', setAt, squeezeAll]
      · simp at h
    · have han : normAxis s.length dim = some a := by unfold torchDim at ha; simpa [hr] using ha
      simp only [hr, if_false] at h ⊢
      simp only [gatherVec, han, Option.map_some]
      exact h

theorem unbind_agrees (s : Shape) (dim : Int) (hr : s.length ≠ 0) : unbind.model s dim = unbind.spec s dim := by
  unfold unbind.model unbind.spec
  simp only [hr, if_false]
  cases ha : normAxis s.length dim with
  | none => rfl
  | some a =>
    simp only []
    obtain ⟨_, _, halt⟩ := normAxis_some s.length dim a ha
    rw [mapM_some_of_forall _ (fun _ => s.take a ++ s.drop (a + 1))]
    · simp [List.map_const']
    · intro i hi
      have hi' : i < s.getD a 0 := by simpa using hi
      have hs := sliceOp_bounds s dim a i (i + 1) ha (by omega) (by omega)
      have e : ((i + 1 : Nat) : Int) = (i : Int) + 1 := by omega
      rw [e] at hs
      simp only [hs, show i + 1 - i = 1 from by omega]
      unfold squeezeOp normAxes
      have hl : (setAt s a 1).length = s.length := by simp [setAt]
      simp only [hl, List.mapM_cons, List.mapM_nil, ha, bind, Option.bind, pure]
      have hg : (setAt s a 1).getD a 0 = 1 := by
        simp [setAt, List.getD_eq_getElem?_getD, halt]
      simp only [List.all_cons, List.all_nil, hg, beq_self_eq_true, Bool.and_true, if_true, removeIdxs_single]
      simp [setAt, List.take_set, List.drop_set]
      apply List.set_eq_of_length_le
      simp
      omega

theorem torchReduce_rank0 (dims : List Int) (keep : Bool) (out : Shape)
    (h : torchReduce [] dims keep = some out) : out = [] := by
  unfold torchReduce at h
  simp only [List.length_nil] at h
  cases hm : dims.mapM (torchDim 0) with
  | none => rw [hm] at h; simp at h
  | some ax =>
    rw [hm] at h
    simp only at h
    split at h
    · simp at h
    · cases keep <;> simp [removeIdxs] at h <;> exact h

theorem sum_dim_agrees (s : Shape) (dims : Option (List Int)) (keep : Bool) (out : Shape)
    (h : sum_dim.spec s dims keep = some out) : sum_dim.model s dims keep = some out := by
  unfold sum_dim.spec at h
  unfold sum_dim.model
  by_cases hr : s.length = 0
  · have hs : s = [] := List.length_eq_zero_iff.mp hr
    subst hs
    simp only [List.length_nil, if_true]
    rw [torchReduce_rank0 _ keep out h]
  · simp only [hr, if_false]
    cases dims with
    | none => exact reduce_agrees s [] keep out hr h
    | some ds => exact reduce_agrees s ds keep out hr h

theorem mean_dim_agrees (s : Shape) (dims : List Int) (keep : Bool) (out : Shape)
    (h : mean_dim.spec s dims keep = some out) : mean_dim.model s dims keep = some out := by
  unfold mean_dim.spec at h
  unfold mean_dim.model
  by_cases hr : s.length = 0
  · have hs : s = [] := List.length_eq_zero_iff.mp hr
    subst hs
    simp only [List.length_nil, if_true]
    rw [torchReduce_rank0 _ keep out h]
  · simp only [hr, if_false]
    exact reduce_agrees s dims keep out hr h

theorem amax_agrees (s : Shape) (dims : List Int) (keep : Bool) (out : Shape)
    (hr : s.length ≠ 0 ∨ dims = [])
    (h : amax.spec s dims keep = some out) : amax.model s dims keep = some out := by
  unfold amax.spec at h
  unfold amax.model
  split at h
  · by_cases h0 : s.length = 0
    · have hd : dims = [] := by rcases hr with hr | hr; exact absurd h0 hr; exact hr
      have hs : s = [] := List.length_eq_zero_iff.mp h0
      subst hs
      subst hd
      rw [torchReduce_rank0 _ keep out h]
      cases keep <;> rfl
    · exact reduce_agrees s _ keep out h0 h
  · simp at h

/-- after fix f89de7f: rank 0 included. -/
theorem prod_dim_agrees (s : Shape) (dim : Int) (keep : Bool) (out : Shape)
    (h : prod_dim.spec s dim keep = some out) : prod_dim.model s dim keep = some out := by
  unfold prod_dim.model
  by_cases hr : s.length = 0
  · have hs : s = [] := List.length_eq_zero_iff.mp hr
    subst hs
    unfold prod_dim.spec at h
    simp only [List.length_nil, if_true]
    rw [torchReduce_rank0 _ keep out h]
  · simp only [hr, if_false]
    exact reduce_agrees s [dim] keep out hr h

theorem all_dim_agrees (s : Shape) (dim : Int) (keep : Bool) (out : Shape)
    (h : all_dim.spec s dim keep = some out) : all_dim.model s dim keep = some out := by
  unfold all_dim.spec at h
  unfold all_dim.model reduceDyn
  by_cases hr : s.length = 0
  · have hs : s = [] := List.length_eq_zero_iff.mp hr
    subst hs
    have ho := torchReduce_rank0 _ keep out h
    subst ho
    simp only [List.length_nil, if_true]
    -- the dim is 0 or -1
    unfold torchReduce at h
    simp only [List.length_nil, List.mapM_cons, List.mapM_nil] at h
    cases hd : torchDim 0 dim with
    | none => rw [hd] at h; simp at h
    | some a =>
      have hn : normAxis 1 dim = some a := by unfold torchDim at hd; simpa using hd
      obtain ⟨_, h2, h3⟩ := normAxis_some 1 dim a hn
      have : dim = 0 ∨ dim = -1 := by
        split at h2 <;> omega
      rcases this with rfl | rfl <;> simp
  · simp only [hr, if_false]
    exact reduce_agrees s [dim] keep out hr h

theorem cumsum_agrees (s : Shape) (dim : Int) (out : Shape)
    (h : cumsum.spec s dim = some out) : cumsum.model s dim = some out := by
  unfold cumsum.spec at h
  unfold cumsum.model
  by_cases hr : s.length = 0
  · simp only [hr, if_true]
    cases hd : torchDim s.length dim with
    | none => simp [hd] at h
    | some a => simp [hd] at h; rw [h]
  · simp only [hr, if_false]
    have : torchDim s.length dim = normAxis s.length dim := by unfold torchDim; simp [hr]
    rw [this] at h
    exact h

theorem slice_start_len (d start S : Int) (hd : 0 ≤ d) (h0 : 0 ≤ start) (hS : 0 ≤ S) (h : S = 0 ∨ start + S ≤ d) :
    (sliceLen d start (start + S) 1 : Int) = S := by
  rw [sliceLen_one]
  unfold clampI
  have e1 : ¬ start < 0 := by omega
  have e2 : ¬ start + S < 0 := by omega
  simp only [e1, e2, if_false, Int.min_def, Int.max_def]
  (repeat' split) <;> omega

theorem diagonal_len' (rows cols offset : Int) (hr : 0 ≤ rows) (hc : 0 ≤ cols) :
    diagonal.modelLen rows cols offset = diagonal.specLen rows cols offset := by
  unfold diagonal.modelLen diagonal.specLen
  simp only [Int.min_def, Int.max_def]
  (repeat' split) <;> omega

theorem diagonal_slice (rows cols offset : Int) (hr : 0 ≤ rows) (hc : 0 ≤ cols) :
    (sliceLen cols (if offset < 0 then 0 else offset)
        ((if offset < 0 then 0 else offset) + diagonal.modelLen rows cols offset) 1 : Int)
      = diagonal.specLen rows cols offset := by
  rw [diagonal_len' rows cols offset hr hc]
  have hS : 0 ≤ diagonal.specLen rows cols offset ∧
      (diagonal.specLen rows cols offset = 0 ∨ (if offset < 0 then 0 else offset) + diagonal.specLen rows cols offset ≤ cols) := by
    unfold diagonal.specLen
    simp only [Int.min_def, Int.max_def]
    (repeat' split) <;> omega
  exact slice_start_len cols _ _ hc (by split <;> omega) hS.1 hS.2

theorem diagonal_agrees (s : Shape) (offset d1 d2 : Int) (out : Shape)
    (h : diagonal.spec s offset d1 d2 = some out) : diagonal.model s offset d1 d2 = some out := by
  unfold diagonal.spec at h
  by_cases hr : s.length = 0
  · simp [hr] at h
  · simp only [hr, if_false] at h
    cases ha : normAxis s.length d1 with
    | none => simp [ha] at h
    | some a =>
      cases hb : normAxis s.length d2 with
      | none => simp [ha, hb] at h
      | some b =>
        simp only [ha, hb] at h
        split at h
        · simp at h
        · next hne =>
          obtain ⟨va, hal⟩ := normAxis_val s.length d1 a ha
          obtain ⟨vb, hbl⟩ := normAxis_val s.length d2 b hb
          unfold diagonal.model
          dsimp only
          rw [← va, ← vb]
          have hc : ¬ ((a : Int) < 0 ∨ (b : Int) < 0 ∨ (a : Int) ≥ s.length ∨ (b : Int) ≥ s.length ∨ (a : Int) = b) := by omega
          simp only [hc, if_false, Int.toNat_natCast]
          injection h with h
          rw [← h]
          congr 3
          have := diagonal_slice (s.getD a 0 : Nat) (s.getD b 0 : Nat) offset (by omega) (by omega)
          omega

section attr2
open OV.C08.attr
theorem poolSpatial_of_torch (ceil : Bool) (sp : List Nat) (kernel strides p dils : List Int) (o : List Nat)
    (h : torchPoolSpatial ceil sp kernel strides p dils = some o) :
    poolSpatial ceil sp kernel strides (p ++ p) dils = some o := by
  unfold torchPoolSpatial at h
  unfold poolSpatial
  dsimp only at h ⊢
  split at h
  · simp at h
  · next hl =>
    have hk : kernel.length = sp.length := by omega
    have hs : strides.length = sp.length := by omega
    have hp : p.length = sp.length := by omega
    have hd : dils.length = sp.length := by omega
    have hl' : ¬ (kernel.length ≠ sp.length ∨ strides.length ≠ sp.length ∨ (p ++ p).length ≠ 2 * sp.length ∨ dils.length ≠ sp.length) := by
      simp only [List.length_append]; omega
    simp only [hl', if_false]
    split at h
    · simp at h
    · next hv =>
      have hst : strides.any (· ≤ 0) = false := by
        cases hh : strides.any (· ≤ 0) with
        | false => rfl
        | true => exact absurd (Or.inl hh) hv
      simp only [hst, Bool.false_eq_true, if_false]
      split at h
      · simp at h
      · split at h
        · simp at h
        · have hmap : (List.range sp.length).map (fun i =>
              poolOut ceil (sp.getD i 0) (getI kernel i) (getI strides i) (getI (p ++ p) i) (getI (p ++ p) (i + sp.length)) (getI dils i))
            = (List.range sp.length).map (fun i =>
              torchPoolOut ceil (sp.getD i 0) (getI kernel i) (getI strides i) (getI p i) (getI dils i)) := by
            apply List.map_congr_left
            intro i hi
            have hi' : i < p.length := by rw [hp]; simpa using hi
            obtain ⟨e1, e2⟩ := axis_pads p i hi'
            rw [hp] at e2
            rw [e1, e2, pool_out_agrees]
          rw [hmap]
          exact h

theorem expand_full_model (l : List Int) (k : Nat) (h : l.length = k) : (if l.length = 1 then pyMul l k else l) = l := by
  split
  · next h1 => have : k = 1 := by omega
               subst this; exact pyMul_one l
  · rfl

theorem expand_full_spec (l dflt : List Int) (k : Nat) (h : l.length = k) (hk : 1 ≤ k) :
    torchExpand k (.list l) dflt = l := by
  unfold torchExpand
  have hne : l.isEmpty = false := by cases l with
    | nil => simp at h; omega
    | cons _ _ => rfl
  simp only [hne, Bool.false_eq_true, if_false]
  split
  · next h1 =>
    have : k = 1 := by omega
    subst this
    match l, h1 with
    | [x], _ => rfl
  · rfl

theorem avg_pool_agrees (k : Nat) (s : Shape) (kl sl p : List Int) (ceil : Bool) (out : Shape) (hk : 1 ≤ k)
    (h1 : kl.length = k) (h2 : sl.length = k) (h3 : p.length = k)
    (h : avg_pool.spec k s (.list kl) (.list sl) (.list p) ceil = some out) :
    avg_pool.model k s (.list kl) (.list sl) (.list p) ceil = some out := by
  unfold avg_pool.spec at h
  split at h
  · simp at h
  · next hlen =>
    have hlen : s.length = k + 1 ∨ s.length = k + 2 := by omega
    dsimp only at h
    rw [expand_full_spec kl [] k h1 hk, expand_full_spec sl kl k h2 hk, expand_full_spec p [] k h3 hk] at h
    cases ht : torchPoolSpatial ceil (s.drop (s.length - k)) kl sl p (List.replicate k 1) with
    | none => rw [ht] at h; simp at h
    | some o =>
      rw [ht] at h
      simp only [Option.map_some, Option.some.injEq] at h
      have hm := poolSpatial_of_torch ceil _ kl sl p _ o ht
      unfold avg_pool.model
      have hav : attr.avgPool k (.list kl) (.list sl) (.list p) = (kl, sl, p ++ p) := by
        have hp := avg_pads_layout k (.list kl) (.list sl) p h3 hk
        unfold attr.avgPool at hp ⊢
        have hsl : sl.isEmpty = false := by cases sl with
          | nil => simp at h2; omega
          | cons _ _ => rfl
        simp only [expand_full_model kl k h1, expand_full_model sl k h2, hsl, Bool.false_eq_true, if_false] at hp ⊢
        rw [hp]
      rw [hav]
      dsimp only
      rcases hlen with hu | hb
      · -- unbatched: [C, spatial…]
        have hunb : s.length = kl.length + 1 := by omega
        simp only [hunb, if_true]
        have hl2 : ¬ ((1 :: s).length ≠ kl.length + 2) := by simp; omega
        simp only [hl2, if_false]
        have hd : (1 :: s).drop 2 = s.drop (s.length - k) := by
          have : s.length - k = 1 := by omega
          rw [this]; rfl
        rw [hd, h1, hm]
        simp only []
        rw [← h]
        have : s.length - k = 1 := by omega
        rw [this]
        match s, hu with
        | x :: t, _ => simp
      · have hunb : ¬ s.length = kl.length + 1 := by omega
        have hl2 : ¬ (s.length ≠ kl.length + 2) := by omega
        simp only [hunb, if_false, hl2]
        have hd : s.drop 2 = s.drop (s.length - k) := by
          have : s.length - k = 2 := by omega
          rw [this]
        rw [hd, h1, hm]
        simp only []
        rw [← h]
        have : s.length - k = 2 := by omega
        rw [this]

theorem max_pool_agrees (k : Nat) (s : Shape) (kl sl p dl : List Int) (ceil : Bool) (out : Shape) (hk : 1 ≤ k) (hk3 : k ≤ 3)
    (h1 : kl.length = k) (h2 : sl.length = k) (h3 : p.length = k) (h4 : dl.length = k)
    (h : max_pool.spec k s (.list kl) (.list sl) (.list p) (.list dl) ceil = some out) :
    max_pool.model k s (.list kl) (.list sl) (.list p) (.list dl) ceil = some out := by
  unfold max_pool.spec at h
  split at h
  · simp at h
  · next hlen =>
    have hlen : s.length = k + 1 ∨ s.length = k + 2 := by omega
    dsimp only at h
    rw [expand_full_spec kl [] k h1 hk, expand_full_spec sl kl k h2 hk, expand_full_spec p [] k h3 hk,
      expand_full_spec dl [] k h4 hk] at h
    cases ht : torchPoolSpatial ceil (s.drop (s.length - k)) kl sl p dl with
    | none => rw [ht] at h; simp at h
    | some o =>
      rw [ht] at h
      simp only [Option.map_some, Option.some.injEq] at h
      have hm := poolSpatial_of_torch ceil _ kl sl p dl o ht
      unfold max_pool.model
      have hav : attr.maxPool k (.list kl) (.list sl) (.list p) (.list dl) = (kl, sl, p ++ p, dl) := by
        have hp := max_pads_layout k (.list kl) (.list sl) (.list dl) p h3 hk hk3
        unfold attr.maxPool at hp ⊢
        have hsl : sl.isEmpty = false := by cases sl with
          | nil => simp at h2; omega
          | cons _ _ => rfl
        simp only [expand_full_model kl k h1, expand_full_model sl k h2, expand_full_model dl k h4, hsl,
          Bool.false_eq_true, if_false] at hp ⊢
        rw [hp]
      rw [hav]
      dsimp only
      rcases hlen with hu | hb
      · simp only [hu, if_true]
        have hl2 : ¬ ((1 :: s).length ≠ kl.length + 2) := by simp; omega
        simp only [hl2, if_false]
        have hd : (1 :: s).drop 2 = s.drop (s.length - k) := by
          have : s.length - k = 1 := by omega
          rw [this]; rfl
        rw [hd, hm]
        simp only []
        rw [← h]
        have : s.length - k = 1 := by omega
        rw [this]
        match s, hu with
        | x :: t, _ => simp
      · have hunb : ¬ s.length = k + 1 := by omega
        have hl2 : ¬ (s.length ≠ kl.length + 2) := by omega
        simp only [hunb, if_false, hl2]
        have hd : s.drop 2 = s.drop (s.length - k) := by
          have : s.length - k = 2 := by omega
          rw [this]
        rw [hd, hm]
        simp only []
        rw [← h]
        have : s.length - k = 2 := by omega
        rw [this]

theorem conv_expand_full (l : List Int) (k : Nat) (h : l.length = k) (hk : 1 ≤ k) :
    (if l.length = 1 then List.replicate k (l.getD 0 0) else l) = l := by
  split
  · next h1 =>
    have : k = 1 := by omega
    subst this
    match l, h1 with
    | [x], _ => rfl
  · rfl

theorem conv_agrees (s w : Shape) (sl p dl : List Int) (tr : Bool) (op : List Int) (g : Nat) (out : Shape)
    (h2 : sl.length = s.length - 2) (h3 : p.length = s.length - 2) (h4 : dl.length = s.length - 2)
    (h : conv.spec s w (.list sl) (.list p) (.list dl) tr op g = some out) :
    conv.model s w (.list sl) (.list p) (.list dl) tr op g = some out := by
  have hk : 1 ≤ s.length - 2 := by
    apply Classical.byContradiction; intro hh
    have : s.length < 3 := by omega
    unfold conv.spec at h
    simp [this] at h
  have hk1 : 1 ≤ s.length - 2 := hk
  have hav : attr.convolution (s.length - 2) (.list sl) (.list p) (.list dl) = (sl, p ++ p, dl) := by
    unfold attr.convolution
    simp only [conv_expand_full sl _ h2 hk, conv_expand_full p _ h3 hk, conv_expand_full dl _ h4 hk]
  have hpads : ∀ i, i < s.length - 2 → getI (p ++ p) i = getI p i ∧ getI (p ++ p) (i + (s.length - 2)) = getI p i := by
    intro i hi
    have hi' : i < p.length := by rw [h3]; exact hi
    obtain ⟨e1, e2⟩ := axis_pads p i hi'
    rw [h3] at e2
    exact ⟨e1, e2⟩
  unfold conv.spec at h
  unfold conv.model
  dsimp only at h ⊢
  rw [expand_full_spec sl [] _ h2 hk1, expand_full_spec p [] _ h3 hk1, expand_full_spec dl [] _ h4 hk1] at h
  rw [hav]
  dsimp only
  by_cases hc : s.length < 3 ∨ w.length ≠ s.length
  · rw [if_pos hc] at h; cases h
  · rw [if_neg hc] at h
    have hl : ¬ (sl.length ≠ s.length - 2 ∨ p.length ≠ s.length - 2 ∨ dl.length ≠ s.length - 2) := by omega
    rw [if_neg hl] at h
    have hc' : ¬ (s.length < 3 ∨ w.length ≠ s.length ∨ sl.length ≠ s.length - 2 ∨ (p ++ p).length ≠ 2 * (s.length - 2)
        ∨ dl.length ≠ s.length - 2) := by
      simp only [List.length_append]; omega
    rw [if_neg hc']
    cases tr
    · simp only [Bool.false_eq_true, if_false] at h ⊢
      have hmap : (List.range (s.length - 2)).map (fun i =>
            convOut ((s.drop 2).getD i 0) ((w.drop 2).getD i 0) (getI sl i) (getI (p ++ p) i) (getI (p ++ p) (i + (s.length - 2))) (getI dl i))
          = (List.range (s.length - 2)).map (fun i =>
            torchConvOut ((s.drop 2).getD i 0) ((w.drop 2).getD i 0) (getI sl i) (getI p i) (getI dl i)) := by
        apply List.map_congr_left
        intro i hi
        obtain ⟨e1, e2⟩ := hpads i (by simpa using hi)
        rw [e1, e2, conv_out_agrees]
      rw [hmap]
      by_cases hv : (((List.range (s.length - 2)).map (fun i =>
            torchConvOut ((s.drop 2).getD i 0) ((w.drop 2).getD i 0) (getI sl i) (getI p i) (getI dl i))).any (· ≤ 0) = true)
      · have : (((List.range (s.length - 2)).map (fun i =>
            torchConvOut ((s.drop 2).getD i 0) ((w.drop 2).getD i 0) (getI sl i) (getI p i) (getI dl i))).any (· ≤ 0) = true)
            ∨ ((List.range (s.length - 2)).any (fun i => getI op i ≥ getI sl i) = true) := Or.inl hv
        rw [if_pos this] at h; cases h
      · rw [if_neg hv]
        split at h
        · cases h
        · exact h
    · simp only [if_true] at h ⊢
      have hmap : (List.range (s.length - 2)).map (fun i =>
            convTOut ((s.drop 2).getD i 0) ((w.drop 2).getD i 0) (getI sl i) (getI (p ++ p) i) (getI (p ++ p) (i + (s.length - 2)))
              (getI dl i) (getI op i))
          = (List.range (s.length - 2)).map (fun i =>
            torchConvTOut ((s.drop 2).getD i 0) ((w.drop 2).getD i 0) (getI sl i) (getI p i) (getI dl i) (getI op i)) := by
        apply List.map_congr_left
        intro i hi
        obtain ⟨e1, e2⟩ := hpads i (by simpa using hi)
        rw [e1, e2, convT_out_agrees]
      rw [hmap]
      by_cases hv : (((List.range (s.length - 2)).map (fun i =>
            torchConvTOut ((s.drop 2).getD i 0) ((w.drop 2).getD i 0) (getI sl i) (getI p i) (getI dl i) (getI op i))).any (· ≤ 0) = true)
      · have : (((List.range (s.length - 2)).map (fun i =>
            torchConvTOut ((s.drop 2).getD i 0) ((w.drop 2).getD i 0) (getI sl i) (getI p i) (getI dl i) (getI op i))).any (· ≤ 0) = true)
            ∨ ((List.range (s.length - 2)).any (fun i => getI op i ≥ getI sl i) = true) := Or.inl hv
        rw [if_pos this] at h; cases h
      · rw [if_neg hv]
        split at h
        · cases h
        · exact h

theorem getI_flatPairs (ps : List (Int × Int)) (j : Nat) :
    getI (flatPairs ps) (2 * j) = (ps.getD j (0, 0)).1 ∧ getI (flatPairs ps) (2 * j + 1) = (ps.getD j (0, 0)).2 := by
  induction ps generalizing j with
  | nil => simp [flatPairs, getI]
  | cons q qs ih =>
    cases j with
    | zero => simp [flatPairs, getI]
    | succ n =>
      have := ih n
      unfold flatPairs getI at this ⊢
      simp only [List.flatMap_cons, List.cons_append, List.nil_append]
      have e1 : 2 * (n + 1) = (2 * n + 1) + 1 := by omega
      have e2 : 2 * (n + 1) + 1 = ((2 * n + 1) + 1) + 1 := by omega
      rw [e1]
      simp only [List.getD_cons_succ]
      exact this

theorem getI_pad_side (r : Nat) (ps : List (Int × Int)) (f : Int × Int → Int) (hf0 : f (0, 0) = 0) (hm : ps.length ≤ r)
    (i : Nat) (hi : i < r) :
    getI (List.replicate (r - ps.length) 0 ++ ps.reverse.map f) i = f (ps.getD (r - 1 - i) (0, 0)) := by
  unfold getI
  by_cases hlt : i < r - ps.length
  · have hj : ps.length ≤ r - 1 - i := by omega
    rw [List.getD_eq_getElem?_getD, List.getElem?_append_left (by simpa using hlt)]
    simp only [List.getElem?_replicate, hlt, if_true, Option.getD_some]
    rw [List.getD_eq_getElem?_getD, List.getElem?_eq_none hj]
    simp [hf0]
  · have hge : r - ps.length ≤ i := by omega
    rw [List.getD_eq_getElem?_getD, List.getElem?_append_right (by simpa using hge)]
    simp only [List.length_replicate]
    have hk : i - (r - ps.length) < ps.length := by omega
    have hj : r - 1 - i < ps.length := by omega
    rw [List.getElem?_map, List.getElem?_reverse hk]
    have e : ps.length - 1 - (i - (r - ps.length)) = r - 1 - i := by omega
    rw [e, List.getD_eq_getElem?_getD, List.getElem?_eq_getElem hj]
    simp

theorem pad_agrees (s : Shape) (ps : List (Int × Int)) (hm : ps.length ≤ s.length) :
    pad.model s (flatPairs ps) = pad.spec s (flatPairs ps) := by
  unfold pad.model pad.spec
  dsimp only
  have hlen : (flatPairs ps).length = 2 * ps.length := flat_length ps
  rw [pad_layout s.length ps hm]
  have hc1 : ¬ ((flatPairs ps).length > 2 * s.length ∨
      ((List.replicate (s.length - ps.length) (0:Int) ++ ps.reverse.map Prod.fst) ++
        (List.replicate (s.length - ps.length) 0 ++ ps.reverse.map Prod.snd)).length ≠ 2 * s.length) := by
    simp only [List.length_append, List.length_replicate, List.length_map, List.length_reverse, hlen]; omega
  have hc2 : ¬ ((flatPairs ps).length % 2 ≠ 0 ∨ (flatPairs ps).length > 2 * s.length) := by rw [hlen]; omega
  rw [if_neg hc1, if_neg hc2]
  have hmap : (List.range s.length).map (fun i => (s.getD i 0 : Int)
        + getI ((List.replicate (s.length - ps.length) 0 ++ ps.reverse.map Prod.fst) ++
            (List.replicate (s.length - ps.length) 0 ++ ps.reverse.map Prod.snd)) i
        + getI ((List.replicate (s.length - ps.length) 0 ++ ps.reverse.map Prod.fst) ++
            (List.replicate (s.length - ps.length) 0 ++ ps.reverse.map Prod.snd)) (i + s.length))
      = (List.range s.length).map (fun i => (s.getD i 0 : Int)
        + getI (flatPairs ps) (2 * (s.length - 1 - i)) + getI (flatPairs ps) (2 * (s.length - 1 - i) + 1)) := by
    apply List.map_congr_left
    intro i hi
    have hi' : i < s.length := by simpa using hi
    have hB : (List.replicate (s.length - ps.length) (0:Int) ++ ps.reverse.map Prod.fst).length = s.length := by
      simp; omega
    obtain ⟨g1, g2⟩ := getI_flatPairs ps (s.length - 1 - i)
    rw [g1, g2]
    have b1 : getI ((List.replicate (s.length - ps.length) 0 ++ ps.reverse.map Prod.fst) ++
            (List.replicate (s.length - ps.length) 0 ++ ps.reverse.map Prod.snd)) i
        = getI (List.replicate (s.length - ps.length) 0 ++ ps.reverse.map Prod.fst) i := by
      unfold getI
      rw [List.getD_eq_getElem?_getD, List.getElem?_append_left (by rw [hB]; exact hi'), ← List.getD_eq_getElem?_getD]
    have b2 : getI ((List.replicate (s.length - ps.length) 0 ++ ps.reverse.map Prod.fst) ++
            (List.replicate (s.length - ps.length) 0 ++ ps.reverse.map Prod.snd)) (i + s.length)
        = getI (List.replicate (s.length - ps.length) 0 ++ ps.reverse.map Prod.snd) i := by
      unfold getI
      rw [List.getD_eq_getElem?_getD, List.getElem?_append_right (by rw [hB]; omega), hB, ← List.getD_eq_getElem?_getD]
      congr 1; omega
    rw [b1, b2, getI_pad_side s.length ps Prod.fst rfl hm i hi', getI_pad_side s.length ps Prod.snd rfl hm i hi']
  rw [hmap]

theorem all_pos_iff (l : List Int) : l.all (0 < ·) = !l.any (· ≤ 0) := by
  induction l with
  | nil => rfl
  | cons x xs ih =>
    simp only [List.all_cons, List.any_cons, ih, Bool.not_or]
    congr 1
    by_cases h : 0 < x <;> simp [h] <;> omega

theorem upsample_size_agrees (s : Shape) (outSize : List Int) : upsample.model s outSize none = upsample.spec s outSize := by
  unfold upsample.model upsample.spec
  by_cases h3 : s.length < 3
  · simp [h3]
  · simp only [h3, if_false, false_or, all_pos_iff]
    by_cases hl : outSize.length + 2 = s.length
    · cases ha : outSize.any (· ≤ 0) <;> simp [hl, ha]
    · simp [hl]

theorem unfold_agrees (s : Shape) (dim size step : Int) (out : Shape) (hr : s.length ≠ 0)
    (h : unfold_.spec s dim size step = some out) : unfold_.model s dim size step = some out := by
  unfold unfold_.spec at h
  cases ha : torchDim s.length dim with
  | none => simp [ha] at h
  | some a =>
    simp only [ha] at h
    have han : normAxis s.length dim = some a := by unfold torchDim at ha; simpa [hr] using ha
    obtain ⟨va, hal⟩ := normAxis_val s.length dim a han
    by_cases hc : step ≤ 0 ∨ size < 0
    · rw [if_pos hc] at h; cases h
    · rw [if_neg hc, if_neg hr] at h
      by_cases hs : size > ((s.getD a 0 : Nat) : Int)
      · rw [if_pos hs] at h; cases h
      · rw [if_neg hs] at h
        unfold unfold_.model
        rw [if_neg hr]
        dsimp only
        rw [← va]
        have hc2 : ¬ ((a : Int) < 0 ∨ (a : Int) ≥ s.length ∨ size < 0) := by omega
        rw [if_neg hc2]
        simp only [Int.toNat_natCast]
        rw [← h]
        congr 3
        have := unfold_windows_agree ((s.getD a 0 : Nat) : Int) size step (by omega) (by omega)
        omega

theorem col2im_agrees (s : Shape) (outSize kernel dil pad stride : List Int) (out : Shape) (hp : pad.length = 2)
    (h : col2im.spec s outSize kernel dil pad stride = some out) :
    col2im.model s outSize kernel dil pad stride = some out := by
  unfold col2im.spec at h
  unfold col2im.model
  rw [col2im_pads_layout pad hp]
  dsimp only at h ⊢
  have hpl : (pad ++ pad).length = 4 := by simp [hp]
  by_cases hc : s.length ≠ 3 ∨ outSize.length ≠ 2 ∨ kernel.length ≠ 2 ∨ dil.length ≠ 2 ∨ stride.length ≠ 2 ∨ pad.length ≠ 2
  · rw [if_pos hc] at h; cases h
  · rw [if_neg hc] at h
    have h1 : ¬ (s.length ≠ 3 ∨ outSize.length ≠ 2 ∨ kernel.length ≠ 2 ∨ dil.length ≠ 2 ∨ stride.length ≠ 2 ∨ (pad ++ pad).length ≠ 4) := by
      rw [hpl]; omega
    rw [if_neg h1]
    have hmap : (List.range 2).map (fun i => col2im.blocks (getI outSize i) (getI kernel i) (getI stride i)
          (getI (pad ++ pad) i) (getI (pad ++ pad) (i + 2)) (getI dil i))
        = (List.range 2).map (fun i => torchConvOut (getI outSize i) (getI kernel i) (getI stride i) (getI pad i) (getI dil i)) := by
      apply List.map_congr_left
      intro i hi
      have hi' : i < pad.length := by rw [hp]; simpa using hi
      obtain ⟨e1, e2⟩ := axis_pads pad i hi'
      rw [hp] at e2
      rw [e1, e2]
      exact conv_out_agrees _ _ _ _ _
    rw [hmap]
    split at h
    · cases h
    · exact h

theorem convOut_pos (x s : Int) (hs : 0 < s) (h : 0 < (x - 1) / s + 1) : 1 ≤ x := by
  have : 0 ≤ (x - 1) / s := by omega
  have := (Int.ediv_nonneg_iff_of_pos hs).mp this
  omega

theorem im2col_agrees (s : Shape) (kernel dil pad stride : List Int) (out : Shape)
    (h : im2col.spec s kernel dil pad stride = some out) : im2col.model s kernel dil pad stride = some out := by
  unfold im2col.spec at h
  unfold im2col.model
  dsimp only at h ⊢
  by_cases hc : s.length ≠ 4 ∨ kernel.length ≠ 2 ∨ dil.length ≠ 2 ∨ pad.length ≠ 2 ∨ stride.length ≠ 2
  · rw [if_pos hc] at h; cases h
  · rw [if_neg hc] at h ⊢
    by_cases hst : stride.any (· ≤ 0) = true
    · rw [if_pos hst] at h; cases h
    · rw [if_neg hst] at h
      have hpos : ∀ i, i < 2 → 0 < getI stride i := by
        intro i hi
        have hlen : stride.length = 2 := by omega
        have hall : ∀ x ∈ stride, ¬ x ≤ 0 := by
          intro x hx
          have := hst
          simp only [List.any_eq_true, not_exists, not_and, decide_eq_true_eq] at this
          exact this x hx
        unfold getI
        have hi' : i < stride.length := by omega
        rw [List.getD_eq_getElem?_getD, List.getElem?_eq_getElem hi']
        have := hall stride[i] (List.getElem_mem hi')
        simp; omega
      simp only [show List.range 2 = [0, 1] from rfl, List.map_cons, List.map_nil, List.any_cons, List.any_nil, Bool.or_false] at h ⊢
      by_cases hl : (decide (torchConvOut ((s.getD (0 + 2) 0 : Nat) : Int) (getI kernel 0) (getI stride 0) (getI pad 0) (getI dil 0) ≤ 0)
          || decide (torchConvOut ((s.getD (1 + 2) 0 : Nat) : Int) (getI kernel 1) (getI stride 1) (getI pad 1) (getI dil 1) ≤ 0)) = true
      · rw [if_pos hl] at h; cases h
      · rw [if_neg hl] at h
        simp only [Bool.or_eq_true, decide_eq_true_eq, not_or, Int.not_le] at hl
        obtain ⟨p0, p1⟩ := hl
        have q0 := convOut_pos _ _ (hpos 0 (by omega)) (by unfold torchConvOut at p0; exact p0)
        have q1 := convOut_pos _ _ (hpos 1 (by omega)) (by unfold torchConvOut at p1; exact p1)
        have b0 := im2col_blocks_agree ((s.getD (0 + 2) 0 : Nat) : Int) (getI kernel 0) (getI stride 0) (getI pad 0) (getI dil 0) (hpos 0 (by omega)) (by omega)
        have b1 := im2col_blocks_agree ((s.getD (1 + 2) 0 : Nat) : Int) (getI kernel 1) (getI stride 1) (getI pad 1) (getI dil 1) (hpos 1 (by omega)) (by omega)
        have n0 : ¬ (im2col.blocksModel ((s.getD (0 + 2) 0 : Nat) : Int) (getI kernel 0) (getI stride 0) (getI pad 0) (getI dil 0) = 0) := by omega
        have n1 : ¬ (im2col.blocksModel ((s.getD (1 + 2) 0 : Nat) : Int) (getI kernel 1) (getI stride 1) (getI pad 1) (getI dil 1) = 0) := by omega
        simp only [n0, n1, decide_false, Bool.or_self, Bool.false_eq_true, if_false, List.getD_cons_zero, List.getD_cons_succ]
        rw [← h]
        simp only [getI, List.getD_cons_zero, List.getD_cons_succ, Option.some.injEq, List.cons.injEq, true_and, and_true]
        unfold getI at b0 b1
        rw [← b0, ← b1, ← Int.natCast_mul, Int.toNat_natCast]

end attr2

theorem select_scatter_agrees (s src : Shape) (dim index : Int) (out : Shape)
    (h : select_scatter.spec s src dim index = some out) : select_scatter.model s src dim index = some out := by
  unfold select_scatter.spec select.spec at h
  by_cases hr : s.length = 0
  · simp [hr] at h
  · simp only [hr, if_false] at h
    cases ha : normAxis s.length dim with
    | none => simp [ha] at h
    | some a =>
      simp only [ha] at h
      by_cases hidx : -((s.getD a 0 : Nat) : Int) ≤ index ∧ index < ((s.getD a 0 : Nat) : Int)
      · rw [if_pos hidx] at h
        simp only at h
        by_cases heq : (s.take a ++ s.drop (a + 1) == src) = true
        · rw [if_pos heq] at h
          have hsrc : src = s.take a ++ s.drop (a + 1) := by
            have := heq; simp only [beq_iff_eq] at this; exact this.symm
          injection h with h; subst h
          obtain ⟨_, _, halt⟩ := normAxis_some s.length dim a ha
          have hsl : src.length + 1 = s.length := by
            rw [hsrc]; simp; omega
          unfold select_scatter.model unsqueeze1
          rw [hsl, ha]
          simp only [Option.map_some]
          have hu : insertOne src a = s.take a ++ 1 :: s.drop (a + 1) := by
            unfold insertOne
            rw [hsrc]
            have h1 : (s.take a).length = a := by simp; omega
            rw [List.take_append_of_le_length (by omega), List.drop_append_of_le_length (by omega)]
            simp [h1, List.take_of_length_le, List.drop_of_length_le]
          rw [hu]
          have hlen : (s.take a ++ 1 :: s.drop (a + 1)).length = s.length := by simp; omega
          have hd1 : 1 ≤ s.getD a 0 := by omega
          have hcond : ¬ ((s.take a ++ 1 :: s.drop (a + 1)).length ≠ s.length ∨
              ¬ (-((s.getD a 0 : Nat) : Int) ≤ index ∧ index < ((s.getD a 0 : Nat) : Int))) := by
            rw [hlen]; simp; exact hidx
          rw [if_neg hcond]
          have hall : (List.range s.length).all (fun i => decide ((s.take a ++ 1 :: s.drop (a + 1)).getD i 0 ≤ s.getD i 0)) = true := by
            rw [List.all_eq_true]
            intro i hi
            have hi' : i < s.length := by simpa using hi
            simp only [decide_eq_true_eq]
            have h1 : (s.take a).length = a := by simp; omega
            by_cases hia : i < a
            · rw [List.getD_eq_getElem?_getD, List.getElem?_append_left (by omega)]
              simp [List.getD_eq_getElem?_getD, List.getElem?_take, hia]
            · rw [List.getD_eq_getElem?_getD, List.getElem?_append_right (by omega), h1]
              by_cases hie : i = a
              · subst hie; simpa using hd1
              · have : i - a = (i - a - 1) + 1 := by omega
                rw [this, List.getElem?_cons_succ, List.getElem?_drop]
                have e : a + 1 + (i - a - 1) = i := by omega
                rw [e]; simp [List.getD_eq_getElem?_getD]
          rw [if_pos hall]
        · rw [if_neg heq] at h; cases h
      · rw [if_neg hidx] at h; cases h


/-! ## repeat_interleave (static path, fix 2309579) -/

theorem ri_final_eq (st : Shape) (pos : Nat) (reps : Int) (h : 0 ≤ reps) :
    repeat_interleave.final st pos reps
      = (st.take pos ++ [st.getD pos 0 * reps.toNat] ++ st.drop (pos + 1)).map (Int.ofNat ·) := by
  unfold repeat_interleave.final
  simp only [List.map_append, List.map_cons, List.map_nil]
  congr 2
  have : (reps.toNat : Int) = reps := Int.toNat_of_nonneg h
  simp [Int.natCast_mul, this]

theorem ri_numel (x : Shape) (pos k : Nat) (h : pos < x.length) :
    numel (x.take pos ++ [x.getD pos 0 * k] ++ x.drop (pos + 1)) = numel (x.take (pos + 1) ++ [k] ++ x.drop (pos + 1)) := by
  have ht : x.take (pos + 1) = x.take pos ++ [x.getD pos 0] := by
    rw [List.take_add_one]; simp [List.getD, List.getElem?_eq_getElem h]
  rw [ht]
  simp only [numel_append, numel_singleton, Nat.mul_assoc]

theorem ri_core (x : Shape) (pos : Nat) (reps : Int) (h : 0 ≤ reps) (hp : pos < x.length) :
    reshape true (x.take (pos + 1) ++ [reps.toNat] ++ x.drop (pos + 1)) (repeat_interleave.final x pos reps)
      = some (x.take pos ++ [x.getD pos 0 * reps.toNat] ++ x.drop (pos + 1)) := by
  rw [ri_final_eq x pos reps h]
  exact reshape_static _ _ (ri_numel x pos reps.toNat hp)

theorem repeat_interleave_agrees (s : Shape) (reps : Int) (dim : Option Int) (out : Shape)
    (h : repeat_interleave.spec s reps dim = some out) : repeat_interleave.model s reps dim = some out := by
  unfold repeat_interleave.spec at h
  split at h
  · simp at h
  · next hneg =>
    have h0 : 0 ≤ reps := by omega
    unfold repeat_interleave.model
    cases dim with
    | none =>
      simp only at h
      injection h with h; subst h
      simp only [reshape_flat, repeat_interleave.staticShape]
      have hp : repeat_interleave.posDim 1 none = 0 := by decide
      simp only [List.length_singleton, Nat.one_ne_zero, if_false, hneg, hp]
      have := ri_core [numel s] 0 reps h0 (by simp)
      simpa using this
    | some d =>
      simp only at h
      split at h
      · simp at h
      · next a ha =>
        split at h
        · simp at h
        next hne =>
        injection h with h; subst h
        unfold torchDim at ha
        simp only [hne, if_false] at ha
        obtain ⟨h1, h2, h3⟩ := normAxis_some _ _ _ ha
        have hp : repeat_interleave.posDim s.length (some d) = a := by
          unfold repeat_interleave.posDim
          simp only [Option.getD_some]
          split at h2
          · next hd => 
            have : (d + (s.length : Int)) % (s.length : Int) = d + s.length := Int.emod_eq_of_lt (by omega) (by omega)
            rw [this]; omega
          · next hd =>
            have : (d + (s.length : Int)) % (s.length : Int) = d := by
              rw [Int.add_emod_right]; exact Int.emod_eq_of_lt (by omega) (by omega)
            rw [this]; omega
        simp only [hne, if_false, hneg, hp, repeat_interleave.staticShape]
        rw [ri_core s a reps h0 h3]
        congr 1
        unfold setAt
        rw [List.set_eq_take_append_cons_drop]
        simp [h3]

/-! ## roll after fix cb8a6fb, all.dims on rank 0 after fix f89de7f -/

theorem clampI_zero (x : Int) : clampI x 0 0 = 0 := by
  unfold clampI
  simp only [Int.min_def, Int.max_def]
  (repeat' split) <;> omega

theorem roll_len_zero (big : Nat) (shift : Int) : (roll.stepIdx 0 big shift).length = 0 := by
  unfold roll.stepIdx
  rw [List.length_append, sliceIdx_length, sliceIdx_length]
  have z : ((0:Nat):Int) = 0 := rfl
  rw [z]
  have e1 := sliceLen_one 0 (if shift < 0 then -shift else 0 - shift) big
  have e2 := sliceLen_one 0 0 (if shift < 0 then -shift else 0 - shift)
  rw [clampI_zero, clampI_zero] at e1 e2
  simp only [Int.sub_self, Int.max_self] at e1 e2
  omega

/-- after fix cb8a6fb (slice end INT64_MAX): one `(shift, dim)` step keeps the shape for every axis size, 0 included. -/
theorem roll_shape_agrees (s : Shape) (shift dim : Int) (out : Shape)
    (hb : ∀ x ∈ s, x ≤ INT64_MAX.toNat)
    (h : roll.spec s [shift] [dim] = some out) : roll.model s [shift] [dim] = some out := by
  unfold roll.spec at h
  simp only [List.isEmpty_cons, Bool.false_eq_true, if_false, List.length_cons, List.length_nil, ne_eq, not_true_eq_false] at h
  cases ha : torchDim s.length dim with
  | none => simp [ha] at h
  | some a =>
    simp [ha] at h
    subst h
    by_cases h0 : s.length = 0
    · unfold roll.model; simp [h0]
    · by_cases hz : s.getD 0 0 = 0
      · unfold roll.model; simp only [h0, hz, if_false, if_true]
      · have han : normAxis s.length dim = some a := by unfold torchDim at ha; simpa [h0] using ha
        apply roll_shape_one s shift dim a h0 hz han
        obtain ⟨_, _, h3⟩ := normAxis_some _ _ _ han
        have hbd : s.getD a 0 ≤ INT64_MAX.toNat := by
          have : s.getD a 0 = s[a] := by simp [List.getD_eq_getElem?_getD, List.getElem?_eq_getElem h3]
          rw [this]; exact hb _ (List.getElem_mem h3)
        by_cases hd : 0 < s.getD a 0
        · unfold roll.redShift
          simp only [gt_iff_lt, hd, if_true]
          have hpos : (0:Int) < (s.getD a 0 : Nat) := by omega
          have m1 := Int.emod_nonneg shift (show ((s.getD a 0 : Nat) : Int) ≠ 0 by omega)
          have m2 := Int.emod_lt_of_pos shift hpos
          exact roll_len _ _ _ hbd (by omega) (by omega)
        · have : s.getD a 0 = 0 := by omega
          rw [this]
          exact roll_len_zero _ _

theorem all_dims_rank0 (ds : List Int) (keep : Bool) (out : Shape) (hne : ds ≠ [])
    (h : torchReduce [] ds keep = some out) : all_dims.model [] (some ds) keep = some out := by
  have ho := torchReduce_rank0 ds keep out h
  subst ho
  unfold torchReduce at h
  cases hm : ds.mapM (torchDim ([] : Shape).length) with
  | none => rw [hm] at h; simp at h
  | some ax =>
    have aux : ∀ (l : List Int) (q : List Nat), l.mapM (torchDim 0) = some q →
        l.foldlM (fun acc d => reduceDyn acc [d] true) ([] : Shape) = some [] := by
      intro l
      induction l with
      | nil => intro q _; rfl
      | cons t ts ih =>
        intro q hq
        rw [List.mapM_cons] at hq
        cases h1 : torchDim 0 t with
        | none => simp [h1] at hq
        | some k =>
          cases h2 : ts.mapM (torchDim 0) with
          | none => simp [h1, h2] at hq
          | some q' =>
            rw [List.foldlM_cons]
            have ht : t = 0 ∨ t = -1 := by
              unfold torchDim at h1
              simp only [if_true] at h1
              obtain ⟨a1, a2, a3⟩ := normAxis_some _ _ _ h1
              split at a1 <;> omega
            have : reduceDyn [] [t] true = some [] := by
              unfold reduceDyn
              rcases ht with rfl | rfl <;> simp
            simp only [this, bind, Option.bind]
            exact ih q' h2
    unfold all_dims.model
    cases ds with
    | nil => exact absurd rfl hne
    | cons d ds' =>
      simp only [aux (d :: ds') ax hm, List.length_nil, or_true, if_true]

/-! ## MatMul family, max.dim, logsumexp, logcumsumexp, embedding, scatter, pixel (un)shuffle -/

/-! ## MatMul family -/

theorem mm_core (m k n : Nat) : matmulOp [m, k] [k, n] = some [m, n] := by
  simp [matmulOp, bcast2, bcastRev]
theorem dot_core (k : Nat) : matmulOp [k] [k] = some [] := by
  simp [matmulOp, bcast2, bcastRev]
theorem vm_core (k n : Nat) : matmulOp [k] [k, n] = some [n] := by
  simp [matmulOp, bcast2, bcastRev]
theorem mv_core (m k : Nat) : matmulOp [m, k] [k] = some [m] := by
  simp [matmulOp, bcast2, bcastRev]
theorem bmm_core (p m k n : Nat) : matmulOp [p, m, k] [p, k, n] = some [p, m, n] := by
  simp [matmulOp, bcast2, bcastRev]

theorem matmul_agrees (a b out : Shape) (h : matmul.spec a b = some out) : matmul.model a b = some out := by
  unfold matmul.spec at h
  unfold matmul.model
  split at h
  · split at h
    · next hk => injection h with h; subst h; subst hk; exact dot_core _
    · cases h
  · split at h
    · next hk => injection h with h; subst h; subst hk; exact mm_core _ _ _
    · cases h
  · split at h
    · next hk => injection h with h; subst h; subst hk; exact vm_core _ _
    · cases h
  · split at h
    · next hk => injection h with h; subst h; subst hk; exact mv_core _ _
    · cases h
  · split at h
    · cases h
    · next hab =>
      unfold matmul.specBatched at h
      unfold matmulOp
      rw [if_neg hab]
      exact h

theorem mm_agrees (a b out : Shape) (h : matmul.specMm a b = some out) : matmul.model a b = some out := by
  unfold matmul.specMm at h
  split at h
  · split at h
    · next hk => injection h with h; subst h; subst hk; exact mm_core _ _ _
    · cases h
  · cases h

theorem bmm_agrees (a b out : Shape) (h : matmul.specBmm a b = some out) : matmul.model a b = some out := by
  unfold matmul.specBmm at h
  split at h
  · next p m k p' k' n =>
    split at h
    · next hc => obtain ⟨h1, h2⟩ := hc; subst h1; subst h2; injection h with h; subst h; exact bmm_core _ _ _ _
    · cases h
  · cases h

theorem mv_agrees (a b out : Shape) (h : matmul.specMv a b = some out) : matmul.model a b = some out := by
  unfold matmul.specMv at h
  split at h
  · split at h
    · next hk => injection h with h; subst h; subst hk; exact mv_core _ _
    · cases h
  · cases h

theorem dot_agrees (a b out : Shape) (h : matmul.specDot a b = some out) : matmul.model a b = some out := by
  unfold matmul.specDot at h
  split at h
  · split at h
    · next hk => injection h with h; subst h; subst hk; exact dot_core _
    · cases h
  · cases h

/-! ## max.dim / logsumexp / embedding -/

theorem zipIdx_map_single (s : Shape) (a : Nat) :
    s.zipIdx.map (fun p => if [a].contains p.2 then 1 else p.1) = s.set a 1 := by
  apply List.ext_getElem
  · simp
  · intro i h1 h2
    simp only [List.getElem_map, List.getElem_zipIdx, List.getElem_set, Nat.zero_add]
    by_cases hia : a = i
    · subst hia; simp
    · have : ¬ i = a := fun h => hia h.symm
      simp [hia, this]

theorem max_dim_agrees (s : Shape) (dim : Int) (keep : Bool) (out : List Shape)
    (h : max_dim.spec s dim keep = some out) : max_dim.model s dim keep = some out := by
  unfold max_dim.spec at h
  unfold max_dim.model
  cases ha : torchDim s.length dim with
  | none => rw [ha] at h; cases h
  | some a =>
    rw [ha] at h
    simp only at h
    split at h
    · cases h
    · next hz =>
      cases ht : torchReduce s [dim] keep with
      | none => rw [ht] at h; cases h
      | some o =>
        rw [ht] at h
        injection h with h; subst h
        by_cases hr : s.length = 0
        · have hs : s = [] := List.length_eq_zero_iff.mp hr
          subst hs
          rw [torchReduce_rank0 _ keep o ht]
          rfl
        · simp only [hr, if_false]
          rw [reduce_agrees s [dim] keep o hr ht]
          have han : normAxis s.length dim = some a := by unfold torchDim at ha; simpa [hr] using ha
          have hnz : s.getD a 0 ≠ 0 := by
            intro hh; exact hz ⟨hr, hh⟩
          have hnz' : (s.getD a 0 == 0) = false := by simpa using hnz
          -- argOp gives the same shape as the single-axis reduction
          have harg : argOp s dim keep = some o := by
            unfold argOp
            simp only [han, hnz', Bool.false_eq_true, if_false]
            unfold torchReduce at ht
            have e : [dim].mapM (torchDim s.length) = some [a] := by
              simp [List.mapM_cons, ha]
            rw [e] at ht
            simp only [hasDup, List.contains_nil, Bool.or_self, Bool.false_eq_true, if_false, List.isEmpty_cons] at ht
            cases keep
            · simp only [Bool.false_eq_true, if_false] at ht ⊢; exact ht
            · simp only [if_true] at ht ⊢
              rw [← ht, zipIdx_map_single]; rfl
          rw [harg]

theorem logsumexp_agrees (s : Shape) (dims : List Int) (keep : Bool) (out : Shape)
    (h : logsumexp.spec s dims keep = some out) : logsumexp.model s dims keep = some out := by
  unfold logsumexp.spec at h
  unfold logsumexp.model
  by_cases hr : s.length = 0
  · have hs : s = [] := List.length_eq_zero_iff.mp hr
    subst hs
    simp only [List.length_nil, if_true]
    rw [torchReduce_rank0 _ keep out h]
  · simp only [hr, if_false]
    exact reduce_agrees s dims keep out hr h

theorem embedding_agrees (w idx out : Shape) (h : embedding.spec w idx = some out) : embedding.model w idx = some out := by
  unfold embedding.spec at h
  split at h
  · injection h with h; subst h; simp [embedding.model]
  · cases h

theorem zipWith_min_of_le : ∀ (src idx : List Nat), src.length = idx.length →
    (∀ i, i < idx.length → idx.getD i 0 ≤ src.getD i 0) → List.zipWith min src idx = idx
  | [], [], _, _ => rfl
  | [], _ :: _, h, _ => by simp at h
  | _ :: _, [], h, _ => by simp at h
  | a :: xs, b :: ys, hl, hp => by
    have h0 := hp 0 (by simp)
    simp only [List.getD_cons_zero] at h0
    have ih := zipWith_min_of_le xs ys (by simpa using hl) (fun i hi => by
      have := hp (i + 1) (by simp; omega)
      simpa using this)
    simp only [List.zipWith_cons_cons, ih]
    congr 1
    omega

/-- after fix 33c2a16: `src` may be larger than `index` (it is cut to the index shape). -/
theorem scatter_agrees (isAdd : Bool) (s idx src : Shape) (dim : Int) (out : Shape)
    (hr : s.length ≠ 0) (hi : idx.length ≠ 0) (hs : src.length ≠ 0)
    (h : scatter.spec s idx src dim = some out) : scatter.model isAdd s idx src dim = some out := by
  unfold scatter.spec at h
  unfold scatter.model
  simp only [hr, hi, hs, if_false, and_false] at h ⊢
  cases ha : torchDim s.length dim with
  | none => rw [ha] at h; cases h
  | some a =>
    rw [ha] at h
    have han : normAxis s.length dim = some a := by unfold torchDim at ha; simpa [hr] using ha
    simp only at h
    by_cases hlen : idx.length ≠ s.length ∨ src.length ≠ s.length
    · rw [if_pos hlen] at h; cases h
    · rw [if_neg hlen] at h
      have hl1 : idx.length = s.length := by
        apply Classical.byContradiction; intro hh; exact hlen (Or.inl hh)
      have hl2 : src.length = s.length := by
        apply Classical.byContradiction; intro hh; exact hlen (Or.inr hh)
      by_cases hall : ((List.range s.length).all fun i => decide (idx.getD i 0 ≤ src.getD i 0) && (i == a || decide (idx.getD i 0 ≤ s.getD i 0))) = true
      · rw [if_pos hall] at h
        rw [List.all_eq_true] at hall
        have hle : ∀ i, i < idx.length → idx.getD i 0 ≤ src.getD i 0 := by
          intro i hi'
          have := hall i (by simp; omega)
          simp only [Bool.and_eq_true, decide_eq_true_eq] at this
          exact this.1
        have hcut : scatter.sliceToIndex src idx = some idx := by
          unfold scatter.sliceToIndex
          by_cases he : src = idx
          · simp [he]
          · have hnl : ¬ src.length < idx.length := by omega
            simp only [he, hnl, if_false]
            rw [zipWith_min_of_le src idx (by omega) hle]
            have : src.drop idx.length = [] := List.drop_of_length_le (by omega)
            simp [this]
        simp only [hcut]
        unfold scatterElements
        simp only [han, hl1, ne_eq, not_true_eq_false, or_self, if_false]
        rw [if_pos]
        · exact h
        · rw [List.all_eq_true]
          intro i hi'
          have := hall i hi'
          simp only [Bool.and_eq_true, Bool.or_eq_true, decide_eq_true_eq] at this ⊢
          exact this.2
      · rw [if_neg hall] at h; cases h

theorem resolveZeros_nozero (az : Bool) (inp : Shape) (tgt : List Int) (i : Nat) (h : ∀ t ∈ tgt, t ≠ 0) :
    resolveZeros az inp tgt i = some tgt := by
  induction tgt generalizing i with
  | nil => rfl
  | cons t ts ih =>
    have ht : (t == 0) = false := by simpa using h t (by simp)
    simp only [resolveZeros, ht, Bool.false_and, Bool.false_eq_true, if_false]
    rw [ih (i + 1) (fun x hx => h x (by simp [hx]))]
    rfl

theorem numel_pos_of_nozero (t : Shape) (hpos : ∀ x ∈ t, x ≠ 0) : numel t ≠ 0 := by
  induction t with
  | nil => simp [numel]
  | cons a r ih =>
    have ha : a ≠ 0 := hpos a (by simp)
    have hr := ih (fun x hx => hpos x (by simp [hx]))
    simp only [numel]
    exact Nat.mul_ne_zero ha hr

/-- `Reshape([-1] ++ t)` (no zero in `t`) of a tensor with `B · numel t` elements is `[B] ++ t`. -/
theorem reshape_neg1_head (az : Bool) (s t : Shape) (B : Nat) (hpos : ∀ x ∈ t, x ≠ 0) (hn : numel s = B * numel t) :
    reshape az s ((-1 : Int) :: t.map (Int.ofNat ·)) = some (B :: t) := by
  obtain ⟨f1, f2⟩ := ofNat_list_facts t
  have hk := numel_pos_of_nozero t hpos
  have g1 : (((-1 : Int) :: t.map (Int.ofNat ·)).any (· < -1)) = false := by
    simp only [List.any_cons, f1, Bool.or_false]; decide
  have g2 : countNeg1 ((-1 : Int) :: t.map (Int.ofNat ·)) = 1 := by
    have : countNeg1 ((-1 : Int) :: t.map (Int.ofNat ·)) = 1 + countNeg1 (t.map (Int.ofNat ·)) := by
      unfold countNeg1; simp [List.filter_cons]; omega
    rw [this, f2]
  have g3 : ∀ x ∈ ((-1 : Int) :: t.map (Int.ofNat ·)), x ≠ 0 := by
    intro x hx
    rcases List.mem_cons.mp hx with rfl | hx
    · decide
    · simp only [List.mem_map] at hx
      obtain ⟨a, ha, rfl⟩ := hx
      have := hpos a ha
      simp; omega
  have g4 : ((-1 : Int) :: t.map (Int.ofNat ·)).contains 0 = false := by
    cases hc : ((-1 : Int) :: t.map (Int.ofNat ·)).contains 0 with
    | false => rfl
    | true => exact absurd rfl (g3 0 (List.contains_iff_mem.mp hc))
  have g5 : knownProd ((-1 : Int) :: t.map (Int.ofNat ·)) = (numel t : Int) := by
    simp only [knownProd, beq_self_eq_true, if_true]
    exact knownProd_ofNat t
  unfold reshape
  simp only [g1, g2, resolveZeros_nozero az s _ 0 g3, g4, g5, Bool.false_eq_true, if_false, gt_iff_lt, Nat.lt_irrefl, Bool.and_false,
    Int.toNat_natCast, if_true]
  have hmod : numel s % numel t = 0 := by rw [hn]; exact Nat.mul_mod_left _ _
  have hdiv : numel s / numel t = B := by rw [hn]; exact Nat.mul_div_cancel _ (Nat.pos_of_ne_zero hk)
  simp only [hk, hmod, false_or, ne_eq, not_true_eq_false, if_false, List.map_cons, beq_self_eq_true, if_true, hdiv]
  congr 1
  congr 1
  rw [List.map_map]
  have : ∀ l : List Nat, l.map ((fun (z : Int) => if (z == -1) = true then (B : Nat) else z.toNat) ∘ fun (x : Nat) => Int.ofNat x) = l := by
    intro l
    induction l with
    | nil => rfl
    | cons a r ih =>
      simp only [List.map_cons, Function.comp]
      rw [show (List.map ((fun (z : Int) => if (z == -1) = true then (B : Nat) else z.toNat) ∘ fun (x : Nat) => Int.ofNat x) r) = r from ih]
      congr 1
  exact this t

theorem sliceShape_batch (s : Shape) (h : 3 ≤ s.length) : sliceShape s 0 (-3) = s.take (s.length - 3) := by
  unfold sliceShape sliceNorm clampI
  simp only [show (1:Int) > 0 from by decide, if_true, show ¬ ((0:Int) < 0) from by decide, if_false,
    show ((-3:Int) < 0) from by decide]
  have e1 : (min (max (0:Int) 0) (s.length : Int)).toNat = 0 := by omega
  have e2 : (min (max (-3 + (s.length : Int)) 0) (s.length : Int) - min (max (0:Int) 0) (s.length : Int)).toNat = s.length - 3 := by omega
  rw [e1, e2]; rfl

theorem sliceShape_chw (s : Shape) (h : 3 ≤ s.length) : sliceShape s (-3) (s.length : Int) = s.drop (s.length - 3) := by
  unfold sliceShape sliceNorm clampI
  simp only [show (1:Int) > 0 from by decide, if_true, show ((-3:Int) < 0) from by decide]
  have hn : ¬ ((s.length : Int) < 0) := by omega
  simp only [hn, if_false]
  have e1 : (min (max (-3 + (s.length : Int)) 0) (s.length : Int)).toNat = s.length - 3 := by omega
  have e2 : (min (max (s.length : Int) 0) (s.length : Int) - min (max (-3 + (s.length : Int)) 0) (s.length : Int)).toNat = 3 := by omega
  rw [e1, e2]
  apply List.take_of_length_le
  simp; omega

theorem getD_drop' (s : Shape) (k i : Nat) : (s.drop k).getD i 0 = s.getD (k + i) 0 := by
  simp [List.getD_eq_getElem?_getD, List.getElem?_drop]

/-- after fix fcb6f44 (static shapes computed at trace time): no hypothesis on empty tensors. -/
theorem pixel_shuffle_agrees (s : Shape) (r : Int) (out : Shape)
    (h : pixel_shuffle.spec s r = some out) : pixel_shuffle.model s r = some out := by
  unfold pixel_shuffle.spec at h
  split at h
  · cases h
  · next hc =>
    have h3 : 3 ≤ s.length := by omega
    have hr : ¬ r ≤ 0 := by omega
    have hr0 : ¬ r = 0 := by omega
    unfold pixel_shuffle.model
    by_cases h4 : s.length = 4
    · simp only [h4, if_true]
      match s, h4 with
      | [n, c, hh, w], _ =>
        simp only [List.length_cons, List.length_nil] at h
        unfold depthToSpace
        simp only [hr, if_false]
        simpa using h
    · simp only [h4, h3, hr0, if_false, if_true]
      unfold pixel_shuffle.staticOut
      generalize hk : s.length - 3 = k at *
      have hdl : (s.drop k).length = 3 := by simp; omega
      have g0 := getD_drop' s k 0
      have g1 := getD_drop' s k 1
      have g2 := getD_drop' s k 2
      match hd : s.drop k, hdl with
      | [c, hh, w], _ =>
        rw [hd] at g0 g1 g2
        simp only [List.getD_cons_zero, List.getD_cons_succ, Nat.add_zero] at g0 g1 g2
        simp only [← g0, ← g1, ← g2] at h ⊢
        have hsplit : numel (numel (s.take k) :: [c, hh, w]) = numel s := by
          have : numel s = numel (s.take k) * numel [c, hh, w] := by
            rw [← hd, ← numel_append, List.take_append_drop]
          rw [this]; rfl
        rw [reshape_static s _ hsplit]
        simp only
        unfold depthToSpace
        simp only [hr, if_false]
        split at h
        · cases h
        · next hmod =>
          simp only [hmod, if_false]
          injection h with h; subst h
          apply reshape_static
          simp only [numel_append, numel, Nat.mul_one]

theorem tdiv_cast (H rn : Nat) : Int.tdiv (H : Int) (rn : Int) = ((H / rn : Nat) : Int) := by
  rw [Int.tdiv_eq_ediv_of_nonneg (by omega)]
  exact (Int.natCast_ediv H rn).symm

theorem pixel_unshuffle_agrees (s : Shape) (r : Int) (out : Shape)
    (hnz : ∀ x ∈ s.drop (s.length - 3), x ≠ 0)
    (h : pixel_unshuffle.spec s r = some out) : pixel_unshuffle.model s r = some out := by
  unfold pixel_unshuffle.spec at h
  split at h
  · cases h
  · next hc =>
    have h3 : 3 ≤ s.length := by omega
    have hr : 0 < r := by omega
    obtain ⟨rn, hrn⟩ := Int.eq_ofNat_of_zero_le (Int.le_of_lt hr)
    subst hrn
    have hrn0 : rn ≠ 0 := by omega
    unfold pixel_unshuffle.model
    rw [sliceShape_batch s h3, sliceShape_chw s h3]
    generalize hk : s.length - 3 = k at *
    have hdl : (s.drop k).length = 3 := by simp; omega
    have g0 := getD_drop' s k 0
    have g1 := getD_drop' s k 1
    have g2 := getD_drop' s k 2
    match hd : s.drop k, hdl with
    | [c, H, W], _ =>
      rw [hd] at g0 g1 g2
      simp only [List.getD_cons_zero, List.getD_cons_succ, Nat.add_zero] at g0 g1 g2
      simp only [← g0, ← g1, ← g2, Int.toNat_natCast] at h
      have hsplit : numel s = numel (s.take k) * numel [c, H, W] := by
        rw [← hd, ← numel_append, List.take_append_drop]
      have hpos : ∀ x ∈ [c, H, W], x ≠ 0 := by
        intro x hx; rw [← hd] at hx; exact hnz x hx
      have hc0 : c ≠ 0 := hpos c (by simp)
      have hH0 : H ≠ 0 := hpos H (by simp)
      have hW0 : W ≠ 0 := hpos W (by simp)
      simp only [reshape_neg1_head false s [c, H, W] (numel (s.take k)) hpos hsplit]
      split at h
      · cases h
      · next hmod =>
        have hHm : H % rn = 0 := by omega
        have hWm : W % rn = 0 := by omega
        have hHe : H = H / rn * rn := by have := Nat.div_add_mod H rn; rw [hHm, Nat.mul_comm] at this; omega
        have hWe : W = W / rn * rn := by have := Nat.div_add_mod W rn; rw [hWm, Nat.mul_comm] at this; omega
        generalize hhq : H / rn = hq at *
        generalize hwq : W / rn = wq at *
        have hq0 : hq ≠ 0 := by intro hh; subst hh; omega
        have wq0 : wq ≠ 0 := by intro hh; subst hh; omega
        injection h with h; subst h
        have hr0 : ¬ ((rn : Int) = 0) := by omega
        simp only [hr0, if_false, List.getD_cons_zero, List.getD_cons_succ, tdiv_cast, hhq, hwq]
        -- 6-D reshape
        have e6 : ([-1, (c : Int), (hq : Int), (rn : Int), (wq : Int), (rn : Int)] : List Int)
            = (-1 : Int) :: ([c, hq, rn, wq, rn] : Shape).map (Int.ofNat ·) := by simp
        have p6 : ∀ x ∈ ([c, hq, rn, wq, rn] : Shape), x ≠ 0 := by
          intro x hx; simp at hx; rcases hx with rfl | rfl | rfl | rfl | rfl <;> assumption
        have n6 : numel (numel (s.take k) :: [c, H, W]) = numel (s.take k) * numel ([c, hq, rn, wq, rn] : Shape) := by
          simp only [numel, Nat.mul_one]
          rw [hHe, hWe]
          simp only [Nat.mul_assoc, Nat.mul_comm, Nat.mul_left_comm]
        rw [e6, reshape_neg1_head false _ [c, hq, rn, wq, rn] (numel (s.take k)) p6 n6]
        simp only
        have tp : transposeOp [numel (s.take k), c, hq, rn, wq, rn] [0, 1, 3, 5, 2, 4] = some [numel (s.take k), c, rn, rn, hq, wq] := by
          unfold transposeOp
          have : isPerm [numel (s.take k), c, hq, rn, wq, rn].length [0, 1, 3, 5, 2, 4] = true := by
            show isPerm 6 [0, 1, 3, 5, 2, 4] = true
            decide
          simp only [this, if_true]
          rfl
        rw [tp]
        simp only
        have e4 : ([-1, (c : Int) * ((rn : Int) * (rn : Int)), (hq : Int), (wq : Int)] : List Int)
            = (-1 : Int) :: ([c * (rn * rn), hq, wq] : Shape).map (Int.ofNat ·) := by simp
        have p4 : ∀ x ∈ ([c * (rn * rn), hq, wq] : Shape), x ≠ 0 := by
          intro x hx; simp at hx
          rcases hx with rfl | rfl | rfl
          · exact Nat.mul_ne_zero hc0 (Nat.mul_ne_zero hrn0 hrn0)
          · assumption
          · assumption
        have n4 : numel [numel (s.take k), c, rn, rn, hq, wq] = numel (s.take k) * numel ([c * (rn * rn), hq, wq] : Shape) := by
          simp only [numel, Nat.mul_one, Nat.mul_assoc]
        rw [e4, reshape_neg1_head false _ [c * (rn * rn), hq, wq] (numel (s.take k)) p4 n4]
        simp only [List.drop_succ_cons, List.drop_zero]
        apply reshape_static
        simp only [numel_append, numel, Nat.mul_one]

theorem bcastRev_self_or_one : ∀ (x y : List Nat), x.length = y.length →
    (∀ p ∈ x.zip y, p.2 = p.1 ∨ p.2 = 1) → bcastRev x y = some x
  | [], [], _, _ => rfl
  | [], _ :: _, h, _ => by simp at h
  | _ :: _, [], h, _ => by simp at h
  | a :: xs, b :: ys, hl, hp => by
    have ih := bcastRev_self_or_one xs ys (by simpa using hl) (fun p hp' => hp p (by simp [hp']))
    have hab := hp (a, b) (by simp)
    simp only at hab
    unfold bcastRev
    rcases hab with rfl | rfl
    · simp [ih]
    · by_cases ha : a = 1
      · subst ha; simp [ih]
      · have : (a == 1) = false := by simpa using ha
        simp [this, ih]

theorem bcast2_keepdims (s : Shape) (ax : List Nat) :
    bcast2 s (s.zipIdx.map (fun p => if ax.contains p.2 then 1 else p.1)) = some s := by
  unfold bcast2
  rw [bcastRev_self_or_one]
  · simp
  · simp
  · intro p hp
    obtain ⟨i, hi, rfl⟩ := List.mem_iff_getElem.mp hp
    simp only [List.getElem_zip, List.getElem_reverse, List.getElem_map, List.getElem_zipIdx]
    split
    · right; rfl
    · left; simp

theorem logcumsumexp_agrees (s : Shape) (dim : Int) (out : Shape)
    (h : logcumsumexp.spec s dim = some out) : logcumsumexp.model s dim = some out := by
  unfold logcumsumexp.spec at h
  unfold logcumsumexp.model
  cases ha : torchDim s.length dim with
  | none => rw [ha] at h; cases h
  | some a =>
    rw [ha] at h
    simp only [Option.map_some] at h
    by_cases hr : s.length = 0
    · simp only [hr, if_true]; exact h
    · have han : normAxis s.length dim = some a := by unfold torchDim at ha; simpa [hr] using ha
      simp only [hr, if_false]
      unfold reduceOp normAxes
      simp only [List.mapM_cons, List.mapM_nil, han, bind, Option.bind, pure, List.isEmpty_cons, Bool.false_eq_true, if_false, if_true,
        bcast2_keepdims]
      exact h

/-! ## conv1d / conv2d / conv3d -/

theorem convnd_agrees (s w : Shape) (hasBias : Bool) (st pad dil : List Int) (groups : Nat) (out : Shape)
    (h2 : st.length = s.length - 2) (h3 : pad.length = s.length - 2) (h4 : dil.length = s.length - 2)
    (h : convnd.spec s w st pad dil groups = some out) : convnd.model s w hasBias st pad dil groups = some out := by
  unfold convnd.spec at h
  unfold convnd.model convnd.biasShape
  simp only [ite_self, ne_eq, not_true_eq_false, if_false]
  exact conv_agrees s w _ _ _ false [] groups out h2 h3 h4 h

/-! ## softmax family, linear -/

theorem softmax_agrees (s : Shape) (dim : Int) : softmax.model s dim = softmax.spec s dim := rfl

theorem bcastRev_nil_right (s : List Nat) : bcastRev s [] = some s := by
  cases s <;> rfl

theorem bcast2_nil_right (s : Shape) : bcast2 s [] = some s := by
  unfold bcast2; simp [bcastRev_nil_right]

/-- MatMul of a rank ≥ 1 tensor `[*, k]` with a matrix `[k, n]`: `[*, n]`. -/
theorem matmul_matrix (x : Shape) (k n : Nat) (hx : x.length ≠ 0) (hk : x.getD (x.length - 1) 0 = k) :
    matmulOp x [k, n] = some (x.take (x.length - 1) ++ [n]) := by
  unfold matmulOp
  simp only [hx, List.length_cons, List.length_nil, false_or, if_false, show ¬ (0 + 1 + 1 = 0) from by omega,
    show ¬ (0 + 1 + 1 = 1) from by omega]
  by_cases h1 : x.length = 1
  · match x, h1 with
    | [a], _ =>
      simp at hk; subst hk
      simp [bcast2, bcastRev]
  · simp only [h1, if_false]
    have e0 : (0 + 1 + 1 - 2) = 0 := rfl
    simp only [e0, List.getD_cons_zero, hk, ne_eq, not_true_eq_false, if_false, List.take_zero, bcast2_nil_right]
    have : x.take (x.length - 2) ++ [x.getD (x.length - 2) 0] = x.take (x.length - 1) := by
      have hl : x.length - 1 = (x.length - 2) + 1 := by omega
      rw [hl, List.take_add_one]
      have : x.length - 2 < x.length := by omega
      simp [List.getD_eq_getElem?_getD, List.getElem?_eq_getElem this]
    simp [← this]

theorem squeeze_last (t : Shape) : squeezeOp (t ++ [1]) [-1] = some t := by
  unfold squeezeOp normAxes
  have hn : normAxis (t ++ [1]).length (-1) = some t.length := by
    unfold normAxis
    simp only [List.length_append, List.length_singleton]
    have c1 : ¬ (0 ≤ (-1 : Int) ∧ (-1 : Int) < ((t.length + 1 : Nat) : Int)) := by omega
    have c2 : -((t.length + 1 : Nat) : Int) ≤ -1 ∧ (-1 : Int) < 0 := by omega
    simp only [c1, c2, and_self, if_false, if_true]
    congr 1; omega
  simp only [List.mapM_cons, List.mapM_nil, hn, bind, Option.bind, pure]
  have hg : (t ++ [1]).getD t.length 0 = 1 := by simp [List.getD_eq_getElem?_getD]
  simp only [List.all_cons, List.all_nil, hg, beq_self_eq_true, Bool.and_self, if_true]
  rw [removeIdxs_single]
  simp

theorem expand_bias (m n : Nat) : expandOp [n] [m, n] = some [m, n] := by
  simp [expandOp, bcastRev]

theorem bcast2_last (t : Shape) (n : Nat) : bcast2 (t ++ [n]) [n] = some (t ++ [n]) := by
  unfold bcast2
  simp only [List.reverse_append, List.reverse_cons, List.reverse_nil, List.nil_append, List.singleton_append]
  simp [bcastRev, bcastRev_nil_right]

theorem linear_agrees (x w : Shape) (bias : Option Shape) (out : Shape)
    (h : linear.spec x w bias = some out) : linear.model x w bias = some out := by
  unfold linear.spec at h
  split at h
  · cases h
  · next hx =>
    split at h
    · next k =>
      -- 1-D weight
      split at h
      · cases h
      · next hc =>
        have hb : bias.isSome = false := by
          cases hbb : bias.isSome with
          | false => rfl
          | true => exact absurd (Or.inl hbb) hc
        have hk : x.getD (x.length - 1) 0 = k := by
          apply Classical.byContradiction; intro hh; exact hc (Or.inr hh)
        injection h with h; subst h
        unfold linear.model
        have c1 : ¬ (x.length = 2 ∧ 1 = 2) := by omega
        simp only [List.length_singleton, c1, if_false, if_true, hb, Bool.false_eq_true]
        show (match matmulOp x [k, 1] with | none => none | some o => squeezeOp o [-1]) = _
        rw [matmul_matrix x k 1 hx hk]
        exact squeeze_last _
    · next n k =>
      split at h
      · cases h
      · next hk' =>
        have hk : x.getD (x.length - 1) 0 = k := by
          apply Classical.byContradiction; intro hh; exact hk' hh
        unfold linear.model
        by_cases h2 : x.length = 2
        · -- Gemm
          match x, h2 with
          | [m, k0], _ =>
            simp at hk; subst hk
            simp only [List.length_cons, List.length_nil, and_self, if_true]
            unfold linear.gemmTransB
            simp only [ne_eq, not_true_eq_false, if_false]
            cases bias with
            | none => simpa using h
            | some b =>
              simp only at h ⊢
              split at h
              · next hb => subst hb; injection h with h; subst h; simp [expand_bias]
              · cases h
        · have c1 : ¬ (x.length = 2 ∧ [n, k].length = 2) := by intro hh; exact h2 hh.1
          have c2 : ¬ ([n, k].length = 1) := by simp
          have c3 : ¬ ([n, k].length ≠ 2) := by simp
          simp only [c1, c2, c3, if_false]
          show (match matmulOp x [k, n] with | none => none | some o => match bias with | none => some o | some b => bcast2 o b) = _
          rw [matmul_matrix x k n hx hk]
          cases bias with
          | none => simpa using h
          | some b =>
            simp only at h ⊢
            split at h
            · next hb => subst hb; injection h with h; subst h; exact bcast2_last _ _
            · cases h
    · cases h

/-! ## linalg_vector_norm -/

theorem reduceDyn_agrees (s : Shape) (dims : List Int) (keep : Bool) (out : Shape)
    (h : torchReduce s dims keep = some out) : reduceDyn s dims keep = some out := by
  unfold reduceDyn
  by_cases hr : s.length = 0
  · have hs : s = [] := List.length_eq_zero_iff.mp hr
    subst hs
    have ho := torchReduce_rank0 dims keep out h
    subst ho
    simp only [List.length_nil, if_true]
    unfold torchReduce at h
    cases hm : dims.mapM (torchDim ([] : Shape).length) with
    | none => rw [hm] at h; simp at h
    | some ax =>
      have aux : ∀ (l : List Int) (q : List Nat), l.mapM (torchDim 0) = some q → l.all (fun a => a == 0 || a == -1) = true := by
        intro l
        induction l with
        | nil => intro q _; rfl
        | cons t ts ih =>
          intro q hq
          rw [List.mapM_cons] at hq
          cases h1 : torchDim 0 t with
          | none => simp [h1] at hq
          | some k =>
            cases h2 : ts.mapM (torchDim 0) with
            | none => simp [h1, h2] at hq
            | some q' =>
              have ht : t = 0 ∨ t = -1 := by
                unfold torchDim at h1
                simp only [if_true] at h1
                obtain ⟨a1, a2, a3⟩ := normAxis_some _ _ _ h1
                split at a1 <;> omega
              rw [List.all_cons, ih q' h2]
              rcases ht with rfl | rfl <;> simp
      rw [aux dims ax hm]
      simp
  · simp only [hr, if_false]
    exact reduce_agrees s dims keep out hr h

theorem reshape_ones0 (r : Nat) : reshape false [] (List.replicate r 1) = some (List.replicate r 1) := by
  unfold reshape
  have h1 : (List.replicate r (1:Int)).any (· < -1) = false := by
    rw [List.any_eq_false]; intro x hx; simp [List.mem_replicate] at hx; simp [hx.2]
  have h2 : countNeg1 (List.replicate r (1:Int)) = 0 := by
    unfold countNeg1
    rw [List.length_eq_zero_iff, List.filter_eq_nil_iff]
    intro x hx; simp [List.mem_replicate] at hx; simp [hx.2]
  simp only [h1, h2, Bool.false_eq_true, if_false, resolveZeros_ones, knownProd_replicate_one, gt_iff_lt, Nat.not_lt_zero]
  simp [numel]

/-- after fix 7d29f42: `dim=None` with `keepdim=True` included. -/
theorem vector_norm_agrees (s : Shape) (dims : Option (List Int)) (keep : Bool) (out : Shape)
    (h : vector_norm.spec s dims keep = some out) : vector_norm.model s dims keep = some out := by
  unfold vector_norm.spec at h
  unfold vector_norm.model
  cases dims with
  | none =>
    simp only [reshape_flat]
    have hred : reduceOp [numel s] [] false = some [] := by simp [reduceOp, normAxes, removeIdxs]
    simp only [hred]
    simp only at h
    by_cases hk : keep = true ∧ 0 < s.length
    · simp only [hk, and_self, if_true] at h ⊢
      injection h with h; subst h
      exact reshape_ones0 s.length
    · simp only [hk, if_false]
      split at h
      · next hkeep =>
        have hz : s.length = 0 := by
          apply Classical.byContradiction; intro hh; exact hk ⟨hkeep, by omega⟩
        injection h with h; rw [← h, hz]; rfl
      · exact h
  | some ds =>
    simp only at h ⊢
    exact reduceDyn_agrees s ds keep out h

/-! ## slice element map -/

theorem slice_start (d : Int) (start stop step : Option Int) (hd0 : 0 ≤ d) (hs : 0 < optI step 1) :
    (sliceNorm d (optI start 0) (optI stop INT64_MAX) (optI step 1)).1 = slice.specStart d start := by
  unfold sliceNorm slice.specStart clampI
  have : optI step 1 > 0 := hs
  simp only [this, if_true]
  generalize optI start 0 = s0
  simp only [Int.min_def, Int.max_def]
  (repeat' split) <;> omega

/-- value level: the source positions selected by the emitted `Slice` are the positions PyTorch's slice reads. -/
theorem slice_index_map (d : Int) (start stop step : Option Int) (hd0 : 0 ≤ d) (hs : 0 < optI step 1) :
    sliceIdx d (optI start 0) (optI stop INT64_MAX) (optI step 1) = slice.specIdx d start stop step := by
  unfold sliceIdx slice.specIdx
  have hl : sliceLen d (optI start 0) (optI stop INT64_MAX) (optI step 1) = (slice.specLen d start stop step).toNat := by
    have := slice_len d start stop step hd0 hs
    omega
  rw [hl, slice_start d start stop step hd0 hs]

/-! ## chunk: the Slice pieces partition the axis -/

theorem flatMap_blocks (c m : Nat) :
    (List.range m).flatMap (fun k => List.range' (k * c) c) = List.range' 0 (m * c) := by
  induction m with
  | zero => simp
  | succ m ih =>
    rw [List.range_succ, List.flatMap_append, ih]
    simp only [List.flatMap_cons, List.flatMap_nil, List.append_nil]
    have := @List.range'_append 0 (m * c) c 1
    simp only [Nat.one_mul, Nat.zero_add] at this
    rw [this]
    congr 1
    rw [Nat.succ_mul]

/-- the `Slice` pieces of `aten_chunk` read the positions `0, 1, …, d-1` in order: consecutive, disjoint, covering the axis. -/
theorem chunk_slices_partition (d chunks : Nat) (hch : 0 < chunks) :
    (chunk.bounds d chunks).flatMap (fun b => List.range' b.1 (b.2 - b.1)) = List.range d := by
  unfold chunk.bounds
  by_cases hc0 : (d + chunks - 1) / chunks = 0
  · simp only [hc0, if_true]
    have hd : d = 0 := by
      rcases Nat.eq_zero_or_pos d with h | h
      · exact h
      · exfalso
        have : chunks ≤ d + chunks - 1 := by omega
        have := Nat.div_pos this hch
        omega
    subst hd
    induction chunks with
    | zero => rfl
    | succ n ih => simp [List.replicate_succ]
  · simp only [hc0, if_false]
    generalize hcdef : (d + chunks - 1) / chunks = c at *
    have hc : 0 < c := by omega
    have hd : 0 < d := by
      rcases Nat.eq_zero_or_pos d with h | h
      · subst h
        have : (0 + chunks - 1) / chunks = 0 := Nat.div_eq_of_lt (by omega)
        omega
      · exact h
    obtain ⟨hn1, hlo, hhi⟩ := ceil_facts d c hc hd
    generalize hndef : (d + c - 1) / c = n at *
    obtain ⟨m, rfl⟩ : ∃ m, n = m + 1 := ⟨n - 1, by omega⟩
    simp only [Nat.add_sub_cancel] at hlo
    rw [List.range_succ, List.map_append, List.flatMap_append]
    have hfirst : ((List.range m).map (fun k => (k * c, min (k * c + c) d))).flatMap (fun b => List.range' b.1 (b.2 - b.1))
        = List.range' 0 (m * c) := by
      rw [List.flatMap_map, ← flatMap_blocks c m]
      have hfun : ∀ k ∈ List.range m, (fun k => List.range' (k * c) (min (k * c + c) d - k * c)) k = (fun k => List.range' (k * c) c) k := by
        intro k hk
        have hk' : k < m := by simpa using hk
        have : (k + 1) * c ≤ m * c := Nat.mul_le_mul_right c hk'
        have h2 : k * c + c ≤ d := by rw [Nat.succ_mul] at this; omega
        simp only [Nat.min_eq_left h2, Nat.add_sub_cancel_left]
      simp only [List.flatMap_def]
      rw [List.map_congr_left hfun]
    rw [hfirst]
    simp only [List.map_cons, List.map_nil, List.flatMap_cons, List.flatMap_nil, List.append_nil]
    have hlast : min (m * c + c) d = d := by
      rw [Nat.succ_mul] at hhi; omega
    rw [hlast, List.range_eq_range']
    have := @List.range'_append 0 (m * c) (d - m * c) 1
    simp only [Nat.one_mul, Nat.zero_add] at this
    rw [this]
    congr 1; omega

/-! ## diagonal element map -/

theorem diagonal_pos (rows cols offset : Int) (t : Nat)
    (ht : t < (diagonal.specLen rows cols offset).toNat) :
    diagonal.modelPos rows cols offset t = some (diagonal.specPos offset t) := by
  unfold diagonal.specLen at ht
  unfold diagonal.modelPos diagonal.specPos
  simp only [Int.min_def, Int.max_def] at ht
  by_cases ho : offset < 0
  · have h2 : ¬ offset ≥ 0 := by omega
    simp only [ho, h2, if_true, if_false] at ht ⊢
    rw [if_pos]
    · congr 1; congr 1 <;> omega
    · (repeat' split at ht) <;> omega
  · have h2 : offset ≥ 0 := by omega
    simp only [ho, h2, if_true, if_false] at ht ⊢
    rw [if_pos]
    · congr 1; congr 1 <;> omega
    · (repeat' split at ht) <;> omega

theorem diagonal_positions (rows cols offset : Int) (hr : 0 ≤ rows) (hc : 0 ≤ cols) :
    diagonal.modelPositions rows cols offset = diagonal.specPositions rows cols offset := by
  unfold diagonal.modelPositions diagonal.specPositions
  have hl : sliceLen cols (if offset < 0 then 0 else offset) ((if offset < 0 then 0 else offset) + diagonal.modelLen rows cols offset) 1
      = (diagonal.specLen rows cols offset).toNat := by
    have := diagonal_slice rows cols offset hr hc
    omega
  rw [hl]
  apply List.map_congr_left
  intro t ht
  exact diagonal_pos rows cols offset t (by simpa using ht)

/-! ## unfold element map -/

theorem unfold_index_map (d size step : Int) (hs : 0 < step) (h0 : 0 ≤ size) (h : size ≤ d) :
    unfold_.modelIdx d size step = unfold_.specIdx d size step
    ∧ ∀ row ∈ unfold_.modelIdx d size step, ∀ x ∈ row, 0 ≤ x ∧ x < d := by
  have hw := unfold_windows_agree d size step hs h
  have hq : 0 ≤ (d - size) / step := Int.ediv_nonneg (by omega) (by omega)
  have hwn : unfold_.windows d size step = (unfold_.specWindows d size step).toNat := by omega
  constructor
  · unfold unfold_.modelIdx unfold_.specIdx
    rw [hwn]
    simp
  · intro row hrow x hx
    unfold unfold_.modelIdx at hrow
    simp only [List.mem_map, List.mem_range] at hrow
    obtain ⟨w, hwlt, rfl⟩ := hrow
    simp only [List.mem_map, List.mem_range] at hx
    obtain ⟨j, hj, rfl⟩ := hx
    unfold unfold_.specWindows at hw
    have hwle : (w : Int) ≤ (d - size) / step := by omega
    have hmul : (w : Int) * step ≤ (d - size) / step * step := Int.mul_le_mul_of_nonneg_right hwle (by omega)
    have hdiv : (d - size) / step * step ≤ d - size := Int.ediv_mul_le _ (by omega)
    have hj' : (j : Int) < size := by omega
    have hwn0 : 0 ≤ (w : Int) * step := Int.mul_nonneg (by omega) (by omega)
    omega

end OV.Lemmas.C08
