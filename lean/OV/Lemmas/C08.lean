import OV.Model.C08View
import OV.Model.C08Slice
import OV.Model.C08Repl
import OV.Model.C08Reduce
import OV.Model.C08IntArith
import OV.Model.C08Creation
/-! Helper lemmas for `OV.Props.C08` (core Lean only; `omega`, `simp`, case analysis). -/
namespace OV.Lemmas.C08
open OV.C08 OV.C08.IntArith

theorem fdiv_is_floor (a b : Int) (hb : 0 < b) : b * Int.fdiv a b ≤ a ∧ a < b * (Int.fdiv a b + 1) := by
  rw [Int.fdiv_eq_ediv_of_nonneg a (by omega)]
  have h1 := Int.mul_ediv_add_emod a b
  have h2 := Int.emod_nonneg a (show b ≠ 0 by omega)
  have h3 := Int.emod_lt_of_pos a hb
  constructor
  · omega
  · rw [Int.mul_add]; omega

theorem tdiv_eq_fdiv_nonneg (a b : Int) (ha : 0 ≤ a) (hb : 0 < b) : Int.tdiv a b = Int.fdiv a b := by
  rw [Int.tdiv_eq_ediv_of_nonneg ha, Int.fdiv_eq_ediv_of_nonneg a (by omega)]

theorem onnx_mod_eq' (a b : Int) (hb : b ≠ 0) :
    (if (Int.tmod a b < 0 ∧ b > 0) ∨ (Int.tmod a b > 0 ∧ b < 0) then Int.tmod a b + b else Int.tmod a b) = a - Int.fdiv a b * b := by
  have h1 : a - Int.fdiv a b * b = Int.fmod a b := by rw [Int.fmod_def, Int.mul_comm]
  rw [h1, Int.fmod_eq_emod, Int.tmod_eq_emod]
  simp only [Int.dvd_iff_emod_eq_zero]
  have h2 := Int.emod_nonneg a hb
  have h3 := Int.emod_lt a hb
  generalize a % b = r at *
  (repeat' split) <;> omega

theorem onnx_mod_eq (a b : Int) (hb : b ≠ 0) :
    (let r := Int.tmod a b; if (r < 0 ∧ b > 0) ∨ (r > 0 ∧ b < 0) then r + b else r) = a - Int.fdiv a b * b :=
  onnx_mod_eq' a b hb

theorem floor_divide_signed (a b : Int) (hb : b ≠ 0) :
    (Int.tdiv a b - (if (((decide (a < 0)) == (decide (b > 0))) && ((let r := Int.tmod a b; if (r < 0 ∧ b > 0) ∨ (r > 0 ∧ b < 0) then r + b else r) != 0)) = true then 1 else 0)) = Int.fdiv a b := by
  rw [onnx_mod_eq a b hb]
  have h1 : a - Int.fdiv a b * b = Int.fmod a b := by rw [Int.fmod_def, Int.mul_comm]
  rw [h1, Int.fmod_eq_emod, Int.tdiv_eq_ediv, Int.fdiv_eq_ediv]
  simp only [Int.dvd_iff_emod_eq_zero, Bool.and_eq_true, beq_iff_eq, bne_iff_ne, ne_eq, decide_eq_decide]
  have h2 := Int.emod_nonneg a hb
  have h3 := Int.emod_lt a hb
  generalize a % b = r at *
  generalize a / b = q at *
  rcases Int.lt_or_gt_of_ne hb with hneg | hpos
  · rw [Int.sign_eq_neg_one_of_neg hneg]
    (repeat' split) <;> omega
  · rw [Int.sign_eq_one_of_pos hpos]
    (repeat' split) <;> omega

theorem sliceLen_one (d s e : Int) :
    (sliceLen d s e 1 : Int) = max 0 (clampI (if e < 0 then e + d else e) 0 d - clampI (if s < 0 then s + d else s) 0 d) := by
  unfold sliceLen sliceNorm
  simp only [show (1:Int) > 0 from by decide, if_true]
  generalize clampI (if e < 0 then e + d else e) 0 d = E
  generalize clampI (if s < 0 then s + d else s) 0 d = S
  simp only [Int.max_def]
  split <;> omega

theorem flip_len (d : Int) (hd0 : 0 ≤ d) (hd : d < INT64_MAX) :
    (sliceLen d (-1) INT64_MIN (-1) : Int) = d := by
  unfold sliceLen sliceNorm clampI INT64_MIN INT64_MAX at *
  simp only [show ¬ ((-1:Int) > 0) from by decide, show ((-1:Int) < 0) from by decide, if_true, if_false, Int.neg_neg]
  simp only [Int.min_def, Int.max_def]
  (repeat' split) <;> omega

theorem sliceIdx_length (d a b c : Int) : (sliceIdx d a b c).length = sliceLen d a b c := by
  simp [sliceIdx]

theorem two_slices (d big L : Int) (A B : Nat) (hd : 0 ≤ d) (hbig : d ≤ big) (h1 : -d ≤ L) (h2 : L ≤ d)
    (e1 : (A : Int) = max 0 (clampI (if big < 0 then big + d else big) 0 d - clampI (if L < 0 then L + d else L) 0 d))
    (e2 : (B : Int) = max 0 (clampI (if L < 0 then L + d else L) 0 d - clampI (if (0:Int) < 0 then 0 + d else 0) 0 d)) :
    (A : Int) + B = d := by
  unfold clampI at e1 e2
  simp only [Int.min_def, Int.max_def] at e1 e2
  have hb : ¬ big < 0 := by omega
  simp only [hb, if_false, show ¬ ((0:Int) < 0) from by decide] at e1 e2
  (repeat' split at e1) <;> (repeat' split at e2) <;> omega

theorem roll_len (d big : Nat) (shift : Int) (hbig : d ≤ big)
    (h1 : -(d : Int) ≤ shift) (h2 : shift ≤ 2 * (d : Int)) :
    (roll.stepIdx d big shift).length = d := by
  unfold roll.stepIdx
  rw [List.length_append, sliceIdx_length, sliceIdx_length]
  have e1 := sliceLen_one d (if shift < 0 then -shift else (d:Int) - shift) big
  have e2 := sliceLen_one d 0 (if shift < 0 then -shift else (d:Int) - shift)
  have := two_slices d big (if shift < 0 then -shift else (d:Int) - shift) _ _ (by omega) (by omega)
    (by split <;> omega) (by split <;> omega) e1 e2
  omega

theorem unsqueeze_agrees (s : Shape) (dim : Int) : unsqueeze.model s dim = unsqueeze.spec s dim := by
  unfold unsqueeze.model unsqueeze.spec unsqueeze1 normAxis insertOne
  have e : ((s.length + 1 : Nat) : Int) = (s.length : Int) + 1 := by omega
  rw [e]
  by_cases h1 : 0 ≤ dim ∧ dim < (s.length : Int) + 1
  · have h4 : -((s.length : Int) + 1) ≤ dim ∧ dim ≤ s.length := by omega
    have h3 : ¬ dim < 0 := by omega
    simp only [h1, h4, h3, if_true, if_false, and_self, Option.map_some, List.append_assoc, List.cons_append, List.nil_append]
  · by_cases h2 : dim < 0 ∧ -((s.length : Int) + 1) ≤ dim
    · have h4 : -((s.length : Int) + 1) ≤ dim ∧ dim ≤ s.length := by omega
      have h3 : dim < 0 := by omega
      simp only [h1, h2, h4, h3, if_true, if_false, and_self, Option.map_some]
      have : (dim + ((s.length : Int) + 1)).toNat = (dim + (s.length : Int) + 1).toNat := by congr 1; omega
      rw [this]; simp only [List.append_assoc, List.cons_append, List.nil_append]
    · have h4 : ¬ (-((s.length : Int) + 1) ≤ dim ∧ dim ≤ s.length) := by omega
      simp only [h1, h2, h4, if_false, Option.map_none]

theorem linspace_len (steps : Int) (h : 0 ≤ steps) : linspace.modelLen steps = linspace.specLen steps := by
  unfold linspace.modelLen linspace.specLen
  have hn : ¬ steps < 0 := by omega
  simp only [hn, if_false]
  by_cases h0 : steps = 0
  · subst h0; decide
  · by_cases h1 : steps = 1
    · subst h1; decide
    · simp only [h0, h1, if_false, rangeLen, ceilDivPos]
      simp

theorem range_len_char (start stop step : Int) (hs : 0 < step) (i : Nat) :
    i < arange.modelLen start stop step ↔ start + (i : Int) * step < stop := by
  unfold arange.modelLen rangeLen ceilDivPos
  simp only [hs, if_true, gt_iff_lt]
  have key : ((i : Int) + 1 ≤ (stop - start + step - 1) / step) ↔ ((i : Int) + 1) * step ≤ stop - start + step - 1 :=
    Int.le_ediv_iff_mul_le hs
  rw [Int.add_mul] at key
  constructor
  · intro h
    have : (i : Int) + 1 ≤ (stop - start + step - 1) / step := by omega
    have := key.mp this
    omega
  · intro h
    have : (i : Int) + 1 ≤ (stop - start + step - 1) / step := key.mpr (by omega)
    omega

theorem div_toNat_zero (x st : Int) (hst : 0 < st) (hx : x < st) : (x / st).toNat = 0 := by
  have : x / st < 1 := (Int.ediv_lt_iff_lt_mul hst).mpr (by omega)
  omega

theorem slice_len (d : Int) (start stop step : Option Int)
    (hd0 : 0 ≤ d) (hs : 0 < optI step 1) :
    (sliceLen d (optI start 0) (optI stop INT64_MAX) (optI step 1) : Int)
      = (slice.specLen d start stop step).toNat := by
  unfold slice.specLen sliceLen sliceNorm clampI
  generalize optI start 0 = s0 at *
  generalize optI stop INT64_MAX = e0 at *
  generalize optI step 1 = st at *
  simp only [hs, if_true, gt_iff_lt, Int.min_def, Int.max_def]
  (repeat' split) <;> first
    | rfl
    | (rw [div_toNat_zero _ _ hs (by omega), div_toNat_zero _ _ hs (by omega)])
    | (congr 3; omega)

theorem reduce_agrees (s : Shape) (dims : List Int) (keep : Bool) (out : Shape)
    (hr : s.length ≠ 0) (h : torchReduce s dims keep = some out) : reduceOp s dims keep = some out := by
  unfold torchReduce at h
  unfold reduceOp normAxes
  have e : (fun d => torchDim s.length d) = normAxis s.length := by
    funext d; unfold torchDim; simp only [hr, if_false]
  have e' : dims.mapM (torchDim s.length) = dims.mapM (normAxis s.length) := by
    show dims.mapM (fun d => torchDim s.length d) = _
    rw [e]
  rw [e'] at h
  cases hm : dims.mapM (normAxis s.length) with
  | none => rw [hm] at h; simp at h
  | some ax =>
    rw [hm] at h
    simp only at h ⊢
    split at h
    · simp at h
    · exact h

theorem flatten_branches (a b : Nat) (rest : Shape) :
    flatten.model (a :: b :: rest) 1 (-1) = flatten.spec (a :: b :: rest) 1 (-1)
    ∧ flatten.model [a] 0 (-1) = flatten.spec [a] 0 (-1)
    ∧ flatten.model [] 0 (-1) = flatten.spec [] 0 (-1) := by
  refine ⟨?_, ?_, by decide⟩
  · have hr : ((a :: b :: rest).length : Int) ≠ 1 := by simp only [List.length_cons]; omega
    have hl : (rest.length + 1 + 1 : Nat) ≠ 0 := by omega
    simp only [flatten.model, flatten.spec, hr, if_false, true_and, true_or, if_true, flattenOp, torchDim, normAxis,
      List.length_cons, hl]
    simp
    have h1 : ¬ ((rest.length:Int) + 1 + 1 = 1) := by omega
    have h2 : -((rest.length:Int) + 1 + 1) ≤ 1 ∧ 1 ≤ (rest.length:Int) + 1 + 1 := by omega
    have h3 : (1:Int) < (rest.length:Int) + 1 + 1 := by omega
    have h4 : (1:Int) ≤ (rest.length:Int) + 1 + 1 := by omega
    have h5 : (-1 + ((rest.length:Int) + 1 + 1)).toNat = rest.length + 1 := by omega
    simp only [h1, h2, h3, h4, h5, if_true, if_false, and_self]
    have h6 : ¬ (rest.length + 1 < 1) := by omega
    simp only [h6, if_false, List.take_succ_cons, List.take_zero, List.drop_succ_cons, List.drop_zero, Nat.add_sub_cancel]
    rw [List.take_of_length_le (by simp), List.drop_of_length_le (by simp)]
    simp [numel]
  · simp [flatten.model, flatten.spec, torchDim, normAxis, numel]

end OV.Lemmas.C08
