import OV.Lemmas.C09Reshape
/-! Helper lemmas for the remaining shape-consuming rules (core Lean only). -/
set_option linter.unusedSimpArgs false
namespace OV.C09

/-- Reading an element of `x` through `Expand` and then through the binary op's broadcasting reads the same
element as reading it through the binary op's broadcasting alone (reversed shapes / indices). -/
theorem readIdx_through_expand : ∀ (m : Nat) (lx le lE idx : List Int), m = max lx.length le.length →
    bcastN m lx le = some lE → readIdx lx (readIdx lE idx) = readIdx lx idx
  | 0, lx, le, lE, idx, hm, _ => by
    have : lx = [] := List.eq_nil_of_length_eq_zero (by omega)
    subst this; simp only [readIdx, List.zipWith_nil_left]
  | m + 1, lx, le, lE, idx, hm, hb => by
    simp only [bcastN] at hb
    cases hd : bdim (lx.headD 1) (le.headD 1) with
    | none => simp only [hd, Option.bind_none] at hb; cases hb
    | some d =>
      simp only [hd, Option.bind_some, Option.map_eq_some_iff] at hb
      obtain ⟨t, ht, rfl⟩ := hb
      cases lx with
      | nil => simp only [readIdx, List.zipWith_nil_left]
      | cons a lxt =>
        cases idx with
        | nil => simp only [readIdx, List.zipWith_nil_right]
        | cons i it =>
          have hlen : m = max lxt.length le.tail.length := by
            simp only [List.length_cons, List.length_tail] at hm ⊢; omega
          have ih := readIdx_through_expand m lxt le.tail t it hlen (by simpa only [List.tail_cons] using ht)
          simp only [readIdx] at ih ⊢
          simp only [List.zipWith_cons_cons, List.cons.injEq]
          refine ⟨?_, ih⟩
          simp only [List.headD_cons] at hd
          by_cases ha : a = 1
          · simp only [ha, if_true]
          · simp only [ha, if_false]
            rcases bdim_some_cases hd with h | h | h
            · exact absurd h.1 ha
            · have : d ≠ 1 := by rw [h.2]; exact ha
              simp only [this, if_false]
            · have : d ≠ 1 := by rw [h.2]; exact ha
              simp only [this, if_false]

/-- a step-1 slice that keeps the length of a dim selects the whole dim -/
theorem sliceRange1_full_of_length (d st en : Int) (hd : 0 ≤ d)
    (h : max 0 ((sliceRange1 d st en).2 - (sliceRange1 d st en).1) = d) :
    d = 0 ∨ sliceRange1 d st en = (0, d) := by
  simp only [sliceRange1] at h ⊢
  by_cases h0 : d = 0
  · exact Or.inl h0
  · refine Or.inr ?_
    refine Prod.ext ?_ ?_ <;> simp only [Int.min_def, Int.max_def] at h ⊢ <;> (repeat' split at h) <;> (repeat' split) <;> omega

theorem sliceRange1_zero_big (d en : Int) (hd : 0 ≤ d) (he : d ≤ en) : sliceRange1 d 0 en = (0, d) := by
  simp only [sliceRange1]
  refine Prod.ext ?_ ?_ <;> simp only [Int.min_def, Int.max_def] <;> (repeat' split) <;> omega

/-- Python's `l[i]` (negative wrap, IndexError out of range) is the ONNX Gather bounds rule. -/
theorem pyIndex_eq_onnx {α} (l : List α) (i : Int) :
    pyIndex l i = (if -(l.length : Int) ≤ i ∧ i < (l.length : Int) then l[(if i < 0 then i + (l.length : Int) else i).toNat]? else none) := by
  unfold pyIndex
  by_cases hi : i < 0
  · simp only [hi, if_true]
    by_cases hb : -(l.length : Int) ≤ i
    · have h1 : ¬ (i + (l.length : Int) < 0) := by omega
      have h2 : -(l.length : Int) ≤ i ∧ i < (l.length : Int) := ⟨hb, by omega⟩
      simp only [h1, if_false, h2, and_self, if_true]
    · have h1 : i + (l.length : Int) < 0 := by omega
      have h2 : ¬ (-(l.length : Int) ≤ i ∧ i < (l.length : Int)) := fun h => hb h.1
      simp only [h1, if_true, h2, if_false]
  · simp only [hi, if_false]
    by_cases hb : i < (l.length : Int)
    · have h2 : -(l.length : Int) ≤ i ∧ i < (l.length : Int) := ⟨by omega, hb⟩
      simp only [h2, and_self, if_true]
    · have h2 : ¬ (-(l.length : Int) ≤ i ∧ i < (l.length : Int)) := fun h => hb h.2
      simp only [h2, if_false]
      rw [List.getElem?_eq_none_iff]
      omega

theorem onnxGatherAxis0_eq (l idx : List Int) : onnxGatherAxis0 l idx = seqOpt (idx.map (pyIndex l)) := by
  unfold onnxGatherAxis0
  show seqOpt (List.map _ idx) = seqOpt (List.map (pyIndex l) idx)
  congr 1
  apply List.map_congr_left
  intro i _
  exact (pyIndex_eq_onnx l i).symm

/-- whether `l[i]` is defined depends only on the length -/
theorem pyIndex_isSome_of_length {α β} (a : List α) (b : List β) (h : a.length = b.length) (i : Int) :
    (pyIndex a i).isSome = (pyIndex b i).isSome := by
  simp only [pyIndex, h]
  by_cases hn : (if i < 0 then i + (b.length : Int) else i) < 0
  · simp only [hn, if_true]; rfl
  · simp only [hn, if_false]
    cases ha : a[(if i < 0 then i + (b.length : Int) else i).toNat]? with
    | none =>
      rw [List.getElem?_eq_none_iff] at ha
      have : b[(if i < 0 then i + (b.length : Int) else i).toNat]? = none := by
        rw [List.getElem?_eq_none_iff]; omega
      simp only [this]; rfl
    | some v =>
      have hlt : (if i < 0 then i + (b.length : Int) else i).toNat < a.length := by
        have := List.getElem?_eq_some_iff.mp ha; exact this.1
      have : ∃ w, b[(if i < 0 then i + (b.length : Int) else i).toNat]? = some w :=
        ⟨b[(if i < 0 then i + (b.length : Int) else i).toNat]'(by omega), List.getElem?_eq_getElem (by omega)⟩
      obtain ⟨w, hw⟩ := this
      simp only [hw, Option.isSome_some]

theorem seqOpt_isNone_iff {α} (l : List (Option α)) : seqOpt l = none ↔ ∃ x ∈ l, x = none := by
  induction l with
  | nil => simp [seqOpt]
  | cons a t ih =>
    cases a with
    | none => simp [seqOpt]
    | some v =>
      simp only [seqOpt, Option.map_eq_none_iff, ih, List.mem_cons]
      constructor
      · rintro ⟨x, hx, rfl⟩; exact ⟨none, Or.inr hx, rfl⟩
      · rintro ⟨x, hx | hx, rfl⟩
        · cases hx
        · exact ⟨none, hx, rfl⟩

theorem bcastN_nil_right : ∀ (l : List Int), bcastN l.length l [] = some l
  | [] => rfl
  | a :: t => by
    simp only [List.length_cons, bcastN, List.headD_cons, List.headD_nil, List.tail_cons, List.tail_nil,
      bdim_one_right, Option.bind_some, bcastN_nil_right t, Option.map_some]

theorem bcastN_nil_left : ∀ (l : List Int), bcastN l.length [] l = some l
  | [] => rfl
  | a :: t => by
    simp only [List.length_cons, bcastN, List.headD_cons, List.headD_nil, List.tail_cons, List.tail_nil,
      bdim_one_left, Option.bind_some, bcastN_nil_left t, Option.map_some]

theorem broadcast_nil_right (l : List Int) : broadcast l [] = some l := by
  have := bcastN_nil_right l.reverse
  simp only [List.length_reverse] at this
  simp only [broadcast, List.length_nil, Nat.max_zero, List.reverse_nil, this, Option.map_some, List.reverse_reverse]

theorem broadcast_nil_left (l : List Int) : broadcast [] l = some l := by
  have := bcastN_nil_left l.reverse
  simp only [List.length_reverse] at this
  simp only [broadcast, List.length_nil, Nat.zero_max, List.reverse_nil, this, Option.map_some, List.reverse_reverse]

theorem broadcast_length {a b t : List Int} (h : broadcast a b = some t) : t.length = max a.length b.length := by
  simp only [broadcast, Option.map_eq_some_iff] at h
  obtain ⟨r, hr, rfl⟩ := h
  simp only [List.length_reverse, bcastN_length _ _ _ _ hr]

/-! ### `UnnamedNonneg` is established by `Shape` and preserved by slicing, gathering, concatenation -/

theorem unnamedNonneg_of_nonneg : ∀ (s : Shape) (l : List Int), (∀ v ∈ l, 0 ≤ v) → UnnamedNonneg s l
  | [], _, _ => by simp only [UnnamedNonneg]
  | _ :: _, [], _ => by simp only [UnnamedNonneg]
  | d :: s, v :: l, h => by
    simp only [UnnamedNonneg]
    exact ⟨fun _ => h v (List.mem_cons_self ..), unnamedNonneg_of_nonneg s l (fun w hw => h w (List.mem_cons_of_mem _ hw))⟩

theorem unnamedNonneg_append : ∀ {s1 s2 : Shape} {l1 l2 : List Int}, s1.length = l1.length →
    UnnamedNonneg s1 l1 → UnnamedNonneg s2 l2 → UnnamedNonneg (s1 ++ s2) (l1 ++ l2)
  | [], _, [], _, _, _, h2 => by simpa only [List.nil_append] using h2
  | [], _, _ :: _, _, hl, _, _ => by simp only [List.length_nil, List.length_cons] at hl; omega
  | _ :: _, _, [], _, hl, _, _ => by simp only [List.length_nil, List.length_cons] at hl; omega
  | d :: s1, s2, v :: l1, l2, hl, h1, h2 => by
    simp only [UnnamedNonneg] at h1
    simp only [List.cons_append, UnnamedNonneg]
    exact ⟨h1.1, unnamedNonneg_append (by simpa using hl) h1.2 h2⟩

theorem unnamedNonneg_getElem? : ∀ (n : Nat) {s : Shape} {l : List Int} {d : Dim} {v : Int}, UnnamedNonneg s l →
    s[n]? = some d → l[n]? = some v → d = .unknown → 0 ≤ v
  | _, [], _, _, _, _, h, _, _ => by simp only [List.getElem?_nil] at h; cases h
  | _, _ :: _, [], _, _, _, _, h, _ => by simp only [List.getElem?_nil] at h; cases h
  | 0, d' :: s, w :: l, d, v, hu, hd, hv, he => by
    simp only [UnnamedNonneg] at hu
    simp only [List.getElem?_cons_zero, Option.some.injEq] at hd hv
    subst hd; subst hv; exact hu.1 he
  | n + 1, d' :: s, w :: l, d, v, hu, hd, hv, he => by
    simp only [UnnamedNonneg] at hu
    simp only [List.getElem?_cons_succ] at hd hv
    exact unnamedNonneg_getElem? n hu.2 hd hv he

theorem unnamedNonneg_pyIndex {s : Shape} {l : List Int} {d : Dim} {v : Int} (hl : s.length = l.length)
    (hu : UnnamedNonneg s l) (i : Int) (hd : pyIndex s i = some d) (hv : pyIndex l i = some v) (he : d = .unknown) :
    0 ≤ v := by
  simp only [pyIndex, hl] at hd hv
  by_cases hneg : (if i < 0 then i + (l.length : Int) else i) < 0
  · simp only [hneg, if_true] at hd; cases hd
  · simp only [hneg, if_false] at hd hv
    exact unnamedNonneg_getElem? _ hu hd hv he

theorem admits_map_known_self (σ : String → Nat) : ∀ (t : List Int), Admits σ (t.map Dim.known) t
  | [] => by simp only [List.map_nil, Admits]
  | a :: t => by simp only [List.map_cons, Admits, Dim.Admits, true_and]; exact admits_map_known_self σ t

end OV.C09
