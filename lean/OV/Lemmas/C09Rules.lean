import OV.Lemmas.C09Reshape
/-! Helper lemmas for the remaining shape-consuming rules (core Lean only). -/
set_option linter.unusedSimpArgs false
namespace OV.C09

/-- Reading an element of `x` through `Expand` and then through the binary op's broadcasting reads the same
element as reading it through the binary op's broadcasting alone (reversed shapes / indices). -/
theorem readIdx_through_expand : ∀ (m : Nat) (lx le lE idx : List Int), m = max lx.length le.length →
    bcastN m lx le = some lE → readIdx lx (readIdx lE idx) = readIdx lx idx
  | 0, lx, le, lE, idx, hm, _ => by
    have : lx = [] := List.eq_nil_of_length_eq_zero (by omega)
    subst this; simp only [readIdx, List.zipWith_nil_left]
  | m + 1, lx, le, lE, idx, hm, hb => by
    simp only [bcastN] at hb
    cases hd : bdim (lx.headD 1) (le.headD 1) with
    | none => simp only [hd, Option.bind_none] at hb; cases hb
    | some d =>
      simp only [hd, Option.bind_some, Option.map_eq_some_iff] at hb
      obtain ⟨t, ht, rfl⟩ := hb
      cases lx with
      | nil => simp only [readIdx, List.zipWith_nil_left]
      | cons a lxt =>
        cases idx with
        | nil => simp only [readIdx, List.zipWith_nil_right]
        | cons i it =>
          have hlen : m = max lxt.length le.tail.length := by
            simp only [List.length_cons, List.length_tail] at hm ⊢; omega
          have ih := readIdx_through_expand m lxt le.tail t it hlen (by simpa only [List.tail_cons] using ht)
          simp only [readIdx] at ih ⊢
          simp only [List.zipWith_cons_cons, List.cons.injEq]
          refine ⟨?_, ih⟩
          simp only [List.headD_cons] at hd
          by_cases ha : a = 1
          · simp only [ha, if_true]
          · simp only [ha, if_false]
            rcases bdim_some_cases hd with h | h | h
            · exact absurd h.1 ha
            · have : d ≠ 1 := by rw [h.2]; exact ha
              simp only [this, if_false]
            · have : d ≠ 1 := by rw [h.2]; exact ha
              simp only [this, if_false]

/-- a step-1 slice that keeps the length of a dim selects the whole dim -/
theorem sliceRange1_full_of_length (d st en : Int) (hd : 0 ≤ d)
    (h : max 0 ((sliceRange1 d st en).2 - (sliceRange1 d st en).1) = d) :
    d = 0 ∨ sliceRange1 d st en = (0, d) := by
  simp only [sliceRange1] at h ⊢
  by_cases h0 : d = 0
  · exact Or.inl h0
  · refine Or.inr ?_
    refine Prod.ext ?_ ?_ <;> simp only [Int.min_def, Int.max_def] at h ⊢ <;> (repeat' split at h) <;> (repeat' split) <;> omega

theorem sliceRange1_zero_big (d en : Int) (hd : 0 ≤ d) (he : d ≤ en) : sliceRange1 d 0 en = (0, d) := by
  simp only [sliceRange1]
  refine Prod.ext ?_ ?_ <;> simp only [Int.min_def, Int.max_def] <;> (repeat' split) <;> omega

theorem admits_map_known_self (σ : String → Nat) : ∀ (t : List Int), Admits σ (t.map Dim.known) t
  | [] => by simp only [List.map_nil, Admits]
  | a :: t => by simp only [List.map_cons, Admits, Dim.Admits, true_and]; exact admits_map_known_self σ t

end OV.C09
